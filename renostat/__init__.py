"""renostat - repository-specific static analysis of shuaigroup/Renormalizer (see /verif/DESIGN.md).

Nothing from /repo is imported or executed: every check parses the current source tree with
``ast`` and decides rule instances on the syntax tree / hand-built flow graphs.
"""
