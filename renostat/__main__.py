"""Launcher:  python -m renostat check C13 [--tier quick|thorough] [--repo PATH] [--no-write]
             python -m renostat explain <replay.json>
             python -m renostat all [--tier ...]
"""
import argparse
import importlib
import json
import os
import sys
import traceback

from .src import Src, AnalysisError
from . import report

CLAIMED = ["C01", "C02", "C03", "C04", "C05", "C06", "C07", "C08", "C09", "C10", "C11", "C12",
           "C13", "C14", "C15", "C16", "C17", "C19"]


def run_one(pid, tier, repo, write=True, out=sys.stdout):
    chk = None
    try:
        try:
            mod = importlib.import_module(f"renostat.rules.{pid}")
        except ModuleNotFoundError:
            print(f"ANALYSIS-ERROR property={pid} no rule module", file=out)
            return 2
        src = Src(repo)
        chk = report.Check(pid, src, tier=tier, repo=repo)
        mod.run(chk)
        if tier == "thorough" and hasattr(mod, "run_thorough"):
            mod.run_thorough(chk)
        seed = int(os.environ.get("VERIF_SEED", "0") or 0)
        status = report.finish(chk, seed=seed, out=out, write=write)
        if tier == "thorough" and status == 0 and os.environ.get("RENOSTAT_NO_SELFTEST") != "1":
            from . import selftest
            st = selftest.run_for(pid, out=out)
            if st != 0:
                return st
        return status
    except AnalysisError as e:
        # rules that ran before the analysis stopped keep their verdicts: a violation found is reported (exit 1), the rest of the analysis is missing (the line below says so)
        n = report.partial(chk, out=out) if chk is not None else 0
        print(f"ANALYSIS-ERROR property={pid} {e}" + (f"  ({n} violation(s) found before the analysis stopped)" if n else ""), file=out)
        return 1 if n else 2
    except Exception:
        traceback.print_exc()
        print(f"ANALYSIS-ERROR property={pid} internal error in checker (traceback above)", file=out)
        return 2


def explain(path):
    rec = json.load(open(path))
    print(json.dumps(rec, indent=1))
    rel = rec.get("where", "").split("::")[0]
    repo = rec.get("repo", "/repo")
    p = os.path.join(repo, rel)
    if rec.get("line") and os.path.exists(p):
        lines = open(p).read().splitlines()
        ln = rec["line"]
        for i in range(max(0, ln - 4), min(len(lines), ln + 3)):
            print(f"{i + 1:5d}{'>' if i + 1 == ln else ' '} {lines[i]}")
    return 0


def main(argv=None):
    ap = argparse.ArgumentParser(prog="renostat")
    sub = ap.add_subparsers(dest="cmd", required=True)
    c = sub.add_parser("check")
    c.add_argument("pid")
    c.add_argument("--tier", default=os.environ.get("VERIF_TIER") or "quick", choices=["quick", "thorough"])
    c.add_argument("--repo", default=os.environ.get("RENOSTAT_REPO", "/repo"))
    c.add_argument("--no-write", action="store_true")
    a = sub.add_parser("all")
    a.add_argument("--tier", default="quick", choices=["quick", "thorough"])
    a.add_argument("--repo", default=os.environ.get("RENOSTAT_REPO", "/repo"))
    a.add_argument("--no-write", action="store_true")
    e = sub.add_parser("explain")
    e.add_argument("path")
    s = sub.add_parser("selftest")
    s.add_argument("pids", nargs="*")
    s.add_argument("--jobs", type=int, default=16)
    ns = ap.parse_args(argv)
    if ns.cmd == "check":
        return run_one(ns.pid, ns.tier, ns.repo, write=not ns.no_write)
    if ns.cmd == "all":
        worst = 0
        for pid in CLAIMED:
            worst = max(worst, run_one(pid, ns.tier, ns.repo, write=not ns.no_write))
        return worst
    if ns.cmd == "explain":
        return explain(ns.path)
    if ns.cmd == "selftest":
        from . import selftest
        return selftest.main(ns.pids, jobs=ns.jobs)
    return 2


if __name__ == "__main__":
    sys.exit(main())
