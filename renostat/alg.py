"""ALG - free-algebra normaliser (Weyl algebra [b, b+] = 1) and a symbolic interpreter for the
branches of an `op_mat(symbol)` dispatcher.  Source expressions are *translated* to polynomials in
non-commuting generators with coefficients in Q(sqrt(omega), x0, i); nothing is executed."""
import ast

import sympy as sp

from .src import AnalysisError, unparse


class Poly:
    """Polynomial in non-commuting letters; words are tuples of letters, coefficients sympy."""

    def __init__(self, terms=None):
        self.t = {}
        if terms:
            for w, c in terms.items():
                c = sp.nsimplify(c) if isinstance(c, (int, float)) else c
                if c != 0:
                    self.t[tuple(w)] = c

    @staticmethod
    def scalar(c):
        return Poly({(): c})

    @staticmethod
    def gen(letter):
        return Poly({(letter,): 1})

    def __add__(self, o):
        o = _p(o)
        r = dict(self.t)
        for w, c in o.t.items():
            r[w] = r.get(w, 0) + c
        return Poly({w: sp.simplify(c) for w, c in r.items()})

    __radd__ = __add__

    def __neg__(self):
        return Poly({w: -c for w, c in self.t.items()})

    def __sub__(self, o):
        return self + (-_p(o))

    def __rsub__(self, o):
        return _p(o) - self

    def __mul__(self, o):
        o = _p(o)
        r = {}
        for w1, c1 in self.t.items():
            for w2, c2 in o.t.items():
                w = w1 + w2
                r[w] = r.get(w, 0) + c1 * c2
        return Poly({w: sp.simplify(c) for w, c in r.items()})

    def __rmul__(self, o):
        return _p(o) * self

    def __truediv__(self, o):
        o = _p(o)
        if list(o.t.keys()) != [()]:
            raise AnalysisError("division by a non-scalar operator expression")
        return self * Poly.scalar(1 / o.t[()])

    def __pow__(self, k):
        r = Poly.scalar(1)
        for _ in range(int(k)):
            r = r * self
        return r

    def is_scalar(self):
        return all(w == () for w in self.t)

    def coeffs_real(self):
        return all(sp.im(sp.expand(c)) == 0 for c in self.t.values())

    def map_coeff(self, f):
        return Poly({w: f(c) for w, c in self.t.items()})

    def __repr__(self):
        if not self.t:
            return "0"
        return " + ".join(f"({sp.sstr(c)})*{''.join(w) or '1'}" for w, c in sorted(self.t.items(), key=lambda x: (len(x[0]), x[0])))


def _p(x):
    return x if isinstance(x, Poly) else Poly.scalar(x)


def normal_order(p, lower="b", raiser="B"):
    """Rewrite with b B -> B b + 1 until every word is B...B b...b."""
    out = {}
    work = list(p.t.items())
    while work:
        w, c = work.pop()
        for i in range(len(w) - 1):
            if w[i] == lower and w[i + 1] == raiser:
                work.append((w[:i] + (raiser, lower) + w[i + 2:], c))
                work.append((w[:i] + w[i + 2:], c))
                break
        else:
            out[w] = out.get(w, 0) + c
    return Poly({w: sp.simplify(sp.expand(c)) for w, c in out.items()})


def equal(p, q):
    d = normal_order(p - q)
    return all(sp.simplify(c) == 0 for c in d.t.values())


# ------------------------------------------------------------------ concrete string tests
class StrEval:
    """Concrete evaluation of the dispatcher's tests on a given symbol string and boolean flags."""

    def __init__(self, names, flags):
        self.names, self.flags = names, flags

    def ev(self, e):
        if isinstance(e, ast.Constant):
            return e.value
        if isinstance(e, ast.JoinedStr):
            raise AnalysisError("f-string in dispatcher test")
        if isinstance(e, ast.Name):
            if e.id in self.names:
                return self.names[e.id]
            raise AnalysisError(f"dispatcher test reads unknown name {e.id}")
        if isinstance(e, ast.Attribute):
            t = unparse(e)
            if t in self.flags:
                return self.flags[t]
            raise AnalysisError(f"dispatcher test reads unknown attribute {t}")
        if isinstance(e, (ast.List, ast.Tuple)):
            return [self.ev(x) for x in e.elts]
        if isinstance(e, ast.Set):
            return {self.ev(x) for x in e.elts}
        if isinstance(e, ast.UnaryOp) and isinstance(e.op, ast.Not):
            return not self.ev(e.operand)
        if isinstance(e, ast.BoolOp):
            vals = (self.ev(v) for v in e.values)
            return all(vals) if isinstance(e.op, ast.And) else any(vals)
        if isinstance(e, ast.Compare) and len(e.ops) == 1:
            a, b = self.ev(e.left), self.ev(e.comparators[0])
            op = e.ops[0]
            if isinstance(op, ast.Eq):
                return a == b
            if isinstance(op, ast.NotEq):
                return a != b
            if isinstance(op, ast.In):
                return a in b
            if isinstance(op, ast.NotIn):
                return a not in b
        if isinstance(e, ast.Subscript):
            v = self.ev(e.value)
            i = self.ev(e.slice)
            return v[i]
        if isinstance(e, ast.Call):
            f = e.func
            if isinstance(f, ast.Attribute) and f.attr in ("split", "replace", "count", "strip", "startswith", "endswith"):
                recv = self.ev(f.value)
                args = [self.ev(a) for a in e.args]
                if not isinstance(recv, str):
                    raise AnalysisError("string method on non-string")
                return getattr(recv, f.attr)(*args)
            if isinstance(f, ast.Name) and f.id in ("set", "len", "sorted", "list", "tuple"):
                args = [self.ev(a) for a in e.args]
                return {"set": set, "len": len, "sorted": sorted, "list": list, "tuple": tuple}[f.id](*args)
        raise AnalysisError(f"dispatcher test outside the interpreted fragment: {unparse(e)}")


class Opaque(Exception):
    """The selected branch is outside the algebraic fragment (general power formula, quadrature ...)."""
