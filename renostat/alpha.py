"""Alpha-normalisation of local variable names.

Many rules of the older rule modules are anchored on the *names* of local variables of today's source (`qnbigl`, `table`, `res` ...).
A pure renaming of locals does not change behaviour, so it must not change a verdict.  Instead of re-deriving every role from
def-use structure, the source model undoes such renamings: for every top-level function / method the scoped alpha-normal form
(every local of every nested scope replaced by a positional placeholder) is compared with the alpha-normal form recorded for the
reference tree (`reference_skeleton.json`, produced by `tools/gen_skeleton.py` from the tree the rules were written against).
If the two forms are identical the function is the reference function up to renaming of locals, and its locals are renamed
back to the reference names *in the parsed tree only* before any rule looks at it.  A function that differs in anything but
local names is analysed as it is."""
import ast
import copy
import hashlib
import json
import os

HERE = os.path.dirname(os.path.abspath(__file__))
DB = os.path.join(HERE, "reference_skeleton.json")


def _params(fn):
    a = fn.args
    out = [x.arg for x in a.posonlyargs + a.args + a.kwonlyargs]
    if a.vararg:
        out.append(a.vararg.arg)
    if a.kwarg:
        out.append(a.kwarg.arg)
    return set(out)


def _scope_locals(fn):
    """names bound in the scope of fn itself (assignment, for, with, except, comprehension targets, nested def names excluded)"""
    bound, banned = [], set(_params(fn)) if not isinstance(fn, ast.Lambda) else {a.arg for a in fn.args.args}

    def visit(node):
        for ch in ast.iter_child_nodes(node):
            if isinstance(ch, (ast.FunctionDef, ast.AsyncFunctionDef, ast.ClassDef)):
                banned.add(ch.name)
                continue
            if isinstance(ch, ast.Lambda):
                continue
            if isinstance(ch, (ast.Global, ast.Nonlocal)):
                banned.update(ch.names)
            if isinstance(ch, (ast.Import, ast.ImportFrom)):
                for a in ch.names:
                    banned.add((a.asname or a.name).split(".")[0])
            if isinstance(ch, ast.Name) and isinstance(ch.ctx, (ast.Store, ast.Del)) and ch.id not in bound:
                bound.append(ch.id)
            if isinstance(ch, ast.ExceptHandler) and ch.name and ch.name not in bound:
                bound.append(ch.name)
            visit(ch)
    visit(fn)
    return [b for b in bound if b not in banned]


class _Alpha(ast.NodeTransformer):
    """scoped renaming: mapping is a chain of dicts, one per function scope"""
    def __init__(self, rename_of):
        self.stack = []
        self.rename_of = rename_of     # callable(depth, index, name) -> new name
        self.order = []                # (depth, original name) in order of creation

    def _enter(self, fn):
        depth = len(self.stack)
        m = {}
        for i, n in enumerate(_scope_locals(fn)):
            m[n] = self.rename_of(depth, len(self.order), n)
            self.order.append(n)
        self.stack.append(m)

    def lookup(self, name):
        for m in reversed(self.stack):
            if name in m:
                return m[name]
        return None

    def visit_FunctionDef(self, fn):
        self._enter(fn)
        fn.body = [self.visit(s) for s in fn.body]
        fn.args = self.generic_visit(fn.args)
        fn.decorator_list = fn.decorator_list
        self.stack.pop()
        return fn

    visit_AsyncFunctionDef = visit_FunctionDef

    def visit_Lambda(self, fn):
        self.stack.append({})      # parameters of the lambda shadow nothing we rename (parameters are never renamed)
        for a in fn.args.args:
            self.stack[-1][a.arg] = a.arg
        fn.body = self.visit(fn.body)
        self.stack.pop()
        return fn

    def visit_Name(self, n):
        new = self.lookup(n.id)
        if new is not None and new != n.id:
            return ast.copy_location(ast.Name(id=new, ctx=n.ctx), n)
        return n

    def visit_ExceptHandler(self, h):
        if h.name:
            new = self.lookup(h.name)
            if new:
                h.name = new
        return self.generic_visit(h)

    def visit_Nonlocal(self, n):
        n.names = [self.lookup(x) or x for x in n.names]
        return n


def skeleton(fn):
    """(hash of the alpha-normal form, ordered list of local names) of a top-level function node"""
    t = _Alpha(lambda depth, i, name: f"_{i}")
    node = t.visit(copy.deepcopy(fn))
    txt = ast.unparse(node)
    return hashlib.sha1(txt.encode()).hexdigest(), list(t.order)


def rename_back(fn, ref_names):
    """rename the locals of fn (in place) to ref_names, positionally"""
    t = _Alpha(lambda depth, i, name: ref_names[i])
    t.visit(fn)
    ast.fix_missing_locations(fn)


def load_db():
    if not os.path.exists(DB):
        return {}
    return json.load(open(DB))


def normalise_module(rel, mod, db, log):
    """undo pure local-variable renamings of top-level functions / methods of one module"""
    def handle(fn, qual):
        ref = db.get(f"{rel}::{qual}")
        if not ref:
            return
        try:
            h, names = skeleton(fn)
        except RecursionError:
            return
        if h == ref["alpha"] and names != ref["names"] and len(names) == len(ref["names"]):
            rename_back(fn, ref["names"])
            log.append(f"{rel}::{qual}")
    for n in mod.body:
        if isinstance(n, (ast.FunctionDef, ast.AsyncFunctionDef)):
            handle(n, n.name)
        elif isinstance(n, ast.ClassDef):
            for m in n.body:
                if isinstance(m, (ast.FunctionDef, ast.AsyncFunctionDef)):
                    handle(m, f"{n.name}.{m.name}")
