"""Axis tracking through tensordot / moveaxis / transpose / .T / reshape with literal axes (TNA, second form).

A tensor value is a list of legs; a leg is a tuple (operand, axis) or ("M", (leg, leg, ...)) for a merged leg.
Contractions are recorded as edges.  Nothing numeric is computed."""
import ast

from .src import AnalysisError, unparse

PASS_FUNCS = {"asxp", "asnumpy", "np.asarray", "xp.asarray", "np.ascontiguousarray"}
PASS_METHODS = {"conj", "copy", "conjugate", "astype"}
PASS_ATTRS = {"array", "real"}


class Tracker:
    def __init__(self, env, ranks=None):
        self.env = dict(env)      # name -> list of legs
        self.edges = []           # list of (leg, leg)

    def lit(self, e):
        try:
            return ast.literal_eval(e)
        except Exception:
            raise AnalysisError(f"axis argument is not literal: {unparse(e)}")

    def norm(self, ax, n):
        if isinstance(ax, int):
            ax = [ax]
        return [a % n for a in ax]

    def ev(self, e):
        if isinstance(e, ast.Name):
            if e.id in self.env:
                return list(self.env[e.id])
            raise AnalysisError(f"axis tracker: unknown tensor {e.id}")
        if isinstance(e, ast.Attribute):
            if e.attr in PASS_ATTRS:
                return self.ev(e.value)
            if e.attr == "T":
                return list(reversed(self.ev(e.value)))
            raise AnalysisError(f"axis tracker: attribute {unparse(e)}")
        if isinstance(e, ast.Call):
            f = unparse(e.func)
            short = f.split(".")[-1]
            if f in PASS_FUNCS and e.args:
                return self.ev(e.args[0])
            if isinstance(e.func, ast.Attribute) and e.func.attr in PASS_METHODS and f not in ("np.conj",):
                return self.ev(e.func.value)
            if short == "tensordot" and len(e.args) >= 2:
                a, b = self.ev(e.args[0]), self.ev(e.args[1])
                axn = None
                if len(e.args) >= 3:
                    axn = e.args[2]
                for k in e.keywords:
                    if k.arg == "axes":
                        axn = k.value
                axes = self.lit(axn) if axn is not None else 2
                if isinstance(axes, int):
                    ia = list(range(len(a) - axes, len(a)))
                    ib = list(range(axes))
                else:
                    ia, ib = axes
                    ia, ib = self.norm(ia, len(a)), self.norm(ib, len(b))
                if len(ia) != len(ib):
                    raise AnalysisError(f"tensordot axes length mismatch: {unparse(e)}")
                for i, j in zip(ia, ib):
                    self.edges.append((a[i], b[j]))
                return [x for i, x in enumerate(a) if i not in ia] + [x for j, x in enumerate(b) if j not in ib]
            if short == "moveaxis" and len(e.args) == 3:
                a = self.ev(e.args[0])
                src, dst = self.lit(e.args[1]), self.lit(e.args[2])
                src, dst = self.norm(src, len(a)), self.norm(dst, len(a))
                order = [i for i in range(len(a)) if i not in src]
                for d, s in sorted(zip(dst, src)):
                    order.insert(d, s)
                return [a[i] for i in order]
            if isinstance(e.func, ast.Attribute) and e.func.attr == "transpose":
                a = self.ev(e.func.value)
                if len(e.args) == 1:
                    perm = self.lit(e.args[0])
                else:
                    perm = [self.lit(x) for x in e.args]
                if isinstance(perm, int):
                    perm = [perm]
                perm = self.norm(list(perm), len(a))
                if sorted(perm) != list(range(len(a))):
                    raise AnalysisError(f"transpose permutation does not match rank {len(a)}: {unparse(e)}")
                return [a[i] for i in perm]
            if isinstance(e.func, ast.Attribute) and e.func.attr == "reshape":
                a = self.ev(e.func.value)
                shp = e.args[0] if len(e.args) == 1 and isinstance(e.args[0], (ast.Tuple, ast.List)) else None
                dims = shp.elts if shp is not None else e.args
                return self.reshape(a, dims, e)
            raise AnalysisError(f"axis tracker: call {f} not understood")
        raise AnalysisError(f"axis tracker: expression {unparse(e)[:60]} not understood")

    def shape_factor(self, e):
        """`X.shape[k]` -> (X, k)"""
        if isinstance(e, ast.Subscript) and isinstance(e.value, ast.Attribute) and e.value.attr == "shape" and isinstance(e.value.value, ast.Name):
            k = self.lit(e.slice)
            return (e.value.value.id, k)
        return None

    def reshape(self, a, dims, node):
        """dims are products of X.shape[k] factors: merge adjacent legs; checks the actual legs against the stated factors"""
        out = []
        pos = 0
        for d in dims:
            facs = []

            def collect(x):
                if isinstance(x, ast.BinOp) and isinstance(x.op, ast.Mult):
                    collect(x.left)
                    collect(x.right)
                else:
                    facs.append(x)
            collect(d)
            n = len(facs)
            group = a[pos:pos + n]
            if len(group) != n:
                raise AnalysisError(f"reshape consumes more legs than the tensor has: {unparse(node)[:80]}")
            stated = [self.shape_factor(f) for f in facs]
            out.append({"legs": group, "stated": stated})
            pos += n
        if pos != len(a):
            raise AnalysisError(f"reshape does not cover all legs ({pos} of {len(a)}): {unparse(node)[:80]}")
        return [("M", tuple(g["legs"]), tuple(g["stated"])) if len(g["legs"]) > 1 else g["legs"][0] for g in out]
