"""EFFECT - receiver/argument effect and alias inference (DESIGN.md 3.1).

For every analysed function a summary is computed:
    eff[i]  = strongest effect the function may have on the object passed as parameter i
              (NONE < CONF < GAUGE < VALUE) together with the *origin* (root cause) of that effect
    ret     = what the result may alias:  P(i) (parameter i / an element of list-parameter i), F (fresh)
Summaries are computed by a forward may-alias dataflow that is flow-sensitive for local names (strong
updates, joins at merges, loops to a fixpoint) and flow-insensitive for the heap, iterated to a fixpoint
over the call graph.  Nothing is executed.
"""
import ast
from collections import deque

from .src import AnalysisError, unparse, norm_stmt

NONE, CONF, GAUGE, VALUE = 0, 1, 2, 3
LEVEL = ["NONE", "CONF", "GAUGE", "VALUE"]

F = ("F",)
TOP = ("T",)


def P(i):
    return ("P", i)


def root_of(t):
    while t[0] in ("S", "A"):
        t = t[1]
    return t


def path_of(t):
    p = []
    while t[0] in ("S", "A"):
        p.append("[]" if t[0] == "S" else t[2])
        t = t[1]
    p.reverse()
    return p


def wrap_depth(t):
    d = 0
    while t[0] in ("S", "A"):
        d += 1
        t = t[1]
    return d


# ---------------------------------------------------------------------------------- frozen tables
# attributes whose value is immutable metadata of an array-like object (reading them never yields an alias of the object's content)
IMMUTABLE_META = {"shape", "ndim", "size", "dtype", "nbytes", "itemsize"}
# attribute classification (one line of reason each)
CONF_ATTRS = {
    "compress_config": "configuration object, not part of the represented state",
    "evolve_config": "configuration object", "optimize_config": "configuration object",
    "mpos": "per-model cache of observable operators (Model.mpos)",
    "parent": "tree topology scaffolding (restored by TTNS.expectation)", "children": "tree topology scaffolding",
    "identity_ttno": "cache on the basis tree", "dummy_ttno": "cache on the basis tree",
    "_virtual_disk": "environment cache", "sentinel": "environment cache",
    "environ_parent": "environment tensors (derived data)", "environ_children": "environment tensors (derived data)",
    "threshold": "compress threshold lives in compress_config",
    "stat": "statistics attached to evolve_config", "guess_dt": "adaptive step guess in evolve_config",
    "energies": "job bookkeeping", "latest_mps": "job bookkeeping", "evolve_times": "job bookkeeping",
    "_recursion_flag": "basis-set recursion counter",
}
GAUGE_ATTRS = {
    "qn": "bond quantum-number labels: representation metadata", "qnidx": "centre position", "to_right": "sweep direction",
    "dtype": "storage dtype (real -> complex keeps the vector)", "model": "site order bookkeeping (on-the-fly swapping re-orders, exempt by C13/C17)",
    "tn2bn": "derived node maps", "tn2dofs": "derived node maps", "original_shape": "shape bookkeeping", "sigmaqn": "site quantum numbers attached to a matrix",
}
# functions documented (docstring / brief) to mutate the named parameter: effect there is the contract.
DOC_MUTATORS = {
    "canonicalise": {0}, "compress": {0}, "normalize": {0}, "move_qnidx": {0}, "ensure_left_canonical": {0},
    "ensure_right_canonical": {0}, "append": {0}, "__setitem__": {0}, "build_empty_qn": {0}, "build_none_qn": {0},
    "build_empty_mp": {0}, "_update_ms": {0}, "_update_mps": {0}, "_push_cano": {0}, "_switch_direction": {0},
    "__init__": {0}, "__del__": {0}, "__iadd__": {0},
    "try_swap_site": {0}, "variational_compress": {"guess"}, "optimize_mps": {"mps", "mpo"},
    "optimize_ttns": {"ttns"}, "push_cano_to_parent": {0, "node"}, "push_cano_to_child": {0, "node"}, "decompose_to_parent": {0, "node"},
    "decompose_to_child": {0, "node"}, "merge_to_parent": {0, "node"}, "merge_to_child": {0, "node"}, "compress_node": {0, "node"}, "update_2site": {0, "node"},
    "compress_recursion": {"ttns"}, "update_1site": {0}, "update_1bond": {0},
    "build_children_environ": {0}, "build_parent_environ": {0}, "build_children_environ_node": {0}, "build_parent_environ_node": {0},
    "write": {0}, "write_l_sentinel": {0}, "write_r_sentinel": {0}, "_construct": {0}, "GetLR": {0},
    "astype": {0}, "add_child": {0, 1}, "set_bonddim": {0}, "update": {0},
}
# operations that by contract preserve tensors x prefactor (that they really do is C04's business): their effect on the
# receiver is GAUGE whatever their bodies store
GAUGE_CONTRACT = {"canonicalise", "ensure_left_canonical", "ensure_right_canonical", "move_qnidx", "_switch_direction", "to_complex",
                  "push_cano_to_parent", "push_cano_to_child", "_push_cano", "check_canonical", "check_shape", "promote_mt_type",
                  # on-the-fly swapping re-orders the operator in place: exempt by the property text (equality up to the permutation is C17)
                  "try_swap_site"}
# method names too generic to be resolved by name on sub-objects (lists, dicts, arrays, configs)
GENERIC_NAMES = {"append", "copy", "update", "pop", "clear", "index", "count", "extend", "insert", "remove", "sort", "get", "items", "keys",
                 "values", "conj", "reshape", "dot", "any", "all", "add", "scale", "norm", "load", "dump", "random", "evolve", "apply"}
# functions with a parameter literally named `inplace`: the mutation is the contract when inplace=True
INPLACE_MUTATORS = {"scale", "to_complex"}
# documented to return (an alias of) their receiver / argument
RETURNS_ARG_OK = {
    "canonicalise", "compress", "normalize", "ensure_left_canonical", "ensure_right_canonical", "scale", "to_complex",
    "__iadd__", "astype", "promote_mt_type", "__getitem__", "__iter__", "__enter__",
}
PURE_BUILTINS = {"len", "range", "isinstance", "print", "min", "max", "abs", "float", "int", "complex", "str", "bool", "sum", "any",
                 "all", "round", "hasattr", "type", "id", "callable", "repr", "hash", "divmod", "pow", "issubclass", "format", "ord", "chr",
                 "slice", "object", "vars", "dir", "open", "input", "bytes", "frozenset"}
CONTAINER_CTORS = {"list", "tuple", "set", "sorted", "reversed", "deque", "dict", "iter", "enumerate", "zip", "chain"}
LIST_MUT = {"append", "extend", "insert", "appendleft", "add"}
LIST_GET = {"pop", "popleft", "copy", "get", "values", "items", "keys"}
VIEW_FUNCS = {"asxp", "asnumpy", "np.asarray", "xp.asarray", "np.moveaxis", "xp.moveaxis", "np.transpose", "xp.transpose", "np.reshape",
              "np.ravel", "np.squeeze", "np.asanyarray", "np.ascontiguousarray"}
NP_INPLACE = {"np.place": 0, "np.copyto": 0, "np.fill_diagonal": 0, "np.put": 0, "np.putmask": 0, "xp.place": 0, "xp.copyto": 0}
VIEW_METHODS = {"reshape", "ravel", "transpose", "squeeze", "view", "swapaxes", "l_combine", "r_combine"}
VIEW_ATTRS = {"T", "real", "imag", "array", "flat"}
FRESH_METHODS = {"copy", "conj", "conjugate", "to_complex", "dot", "sum", "any", "all", "tolist", "flatten", "item", "min", "max", "std",
                 "var", "mean", "norm", "abs", "nearly_zero", "check_lortho", "check_rortho", "tobytes", "argsort", "nonzero",
                 "count", "index", "format", "join", "split", "startswith", "endswith", "replace", "lower", "upper", "strip", "is_integer",
                 "conjugate_", "trace", "diagonal", "cumsum", "prod", "round", "clip", "repeat", "take", "argmax", "argmin", "keys", "values",
                 "items", "get", "total_seconds", "as_au", "as_unit", "find", "to_beta", "most_common", "describe"}
NP_ARRAY_INPLACE_METHODS = {"fill", "sort", "put", "itemset", "resize", "partition", "setfield", "setflags"}
MODULE_PREFIXES = {"np", "xp", "scipy", "logger", "logging", "os", "math", "stats", "itertools", "sp", "opt_einsum", "shutil", "warnings",
                   "functools", "collections", "random", "time", "sys", "json", "h5py", "backend", "oe", "numpy", "cupy"}


class Why:
    __slots__ = ("rel", "qual", "stmt", "line", "chain", "what", "astmt")

    def __init__(self, rel, qual, stmt, line, what, chain=(), astmt=None):
        self.rel, self.qual, self.stmt, self.line, self.what, self.chain = rel, qual, stmt, line, what, tuple(chain)
        self.astmt = astmt if astmt is not None else stmt

    def via(self, where):
        if where in self.chain or len(self.chain) > 8:
            return self
        return Why(self.rel, self.qual, self.stmt, self.line, self.what, self.chain + (where,), self.astmt)

    def key(self):
        return f"{self.qual}: {self.stmt}"

    def akey(self):
        """key with local variable names abstracted (survives renaming of locals)"""
        return f"{self.qual}: {self.astmt}"

    def __repr__(self):
        return f"{self.rel}::{self.qual}:{self.line} `{self.stmt}` ({self.what})" + (f" <- {' <- '.join(self.chain)}" if self.chain else "")


class V:
    """Abstract value: set of alias tags, container flag, optional positional elements, optional class hint."""
    __slots__ = ("tags", "is_list", "elts", "types")

    def __init__(self, tags=(), is_list=False, elts=None, types=None):
        self.tags = frozenset(tags)
        self.is_list = is_list
        self.elts = elts
        self.types = types

    def join(self, o):
        if o is None:
            return self
        t = None
        if self.types is not None and o.types is not None:
            t = self.types | o.types
        return V(self.tags | o.tags, self.is_list or o.is_list, None, t)

    def __eq__(self, o):
        return isinstance(o, V) and self.tags == o.tags and self.is_list == o.is_list

    def __hash__(self):
        return hash((self.tags, self.is_list))

    def __bool__(self):
        return bool(self.tags)

    def objs(self):
        return [t for t in self.tags if t[0] not in ("FN", "LAM")]

    def __repr__(self):
        return f"V({set(self.tags)}, list={self.is_list})"


EMPTY = V()


class Summary:
    def __init__(self):
        self.eff = {}     # param idx -> (level, Why): strongest effect on the object or any of its parts
        self.effp = {}    # param idx -> (level, Why): strongest effect on parts / elements only (depth >= 1)
        self.alt = {}     # param idx -> {origin key: Why}: other root causes at the strongest level
        self.ret = set()  # tags over P(i) / F (wrapped by S/A up to depth 2)
        self.ret_is_list = False
        self.version = 0

    def bump(self, i, lvl, why, part=False):
        ch = False
        for table, on in ((self.eff, True), (self.effp, part)):
            if not on:
                continue
            cur = table.get(i)
            if cur is None or lvl > cur[0]:
                table[i] = (lvl, why)
                ch = True
                if table is self.eff:
                    self.alt[i] = {}
            elif table is self.eff and lvl == cur[0] and lvl >= VALUE and why.key() != cur[1].key():
                # further independent root causes at the strongest level (bounded)
                a = self.alt.setdefault(i, {})
                if why.key() not in a and len(a) < 8:
                    a[why.key()] = why
                    ch = True
        if ch:
            self.version += 1
        return ch

    def origins(self, i):
        cur = self.eff.get(i)
        if cur is None:
            return []
        return [cur[1]] + list(self.alt.get(i, {}).values())

    def add_ret(self, tags, is_list):
        ch = False
        for t in tags:
            if t[0] in ("FN", "LAM"):
                continue
            if wrap_depth(t) > 2:
                # keep the root only
                t = ("S", root_of(t)) if root_of(t)[0] == "P" else root_of(t)
            if t not in self.ret:
                self.ret.add(t)
                ch = True
        if is_list and not self.ret_is_list:
            self.ret_is_list = True
            ch = True
        if ch:
            self.version += 1
        return ch


class Engine:
    def __init__(self, src, modules, state_classes, job_base="TdMpsJob", doc_pairs=()):
        self.src = src
        self.doc_pairs = set(doc_pairs)   # (rel, qual, param name) documented as internal work objects / mutators
        self.modules = [m for m in modules if src.has_module(m)]
        self.state_classes = set(state_classes)
        self.summ = {}
        self.deps = {}
        self.work = deque()
        self.queued = set()
        self.unresolved = {}   # (where, method) -> count
        self.external_tracked = 0
        self.visits = 0
        self.registry = {}     # registry name -> [FuncInfo]
        self.decorated = {}    # (rel, qual) -> decorator name
        self.method_index = {}  # method name -> [FuncInfo] (classes in analysed modules)
        self.prop_index = {}
        self.func_index = {}    # module-level function name -> [FuncInfo]
        self.class_index = {}
        self.job_classes = set()
        self._index(job_base)

    # -------------------------------------------------------------- indexing
    def _index(self, job_base):
        src = self.src
        for rel in self.modules:
            for fi in src.funcs_in(rel):
                if fi.parent is not None:
                    continue
                decos = [unparse(d) for d in fi.node.decorator_list]
                if fi.cls is not None:
                    if any(d in ("property",) or d.endswith(".getter") for d in decos):
                        self.prop_index.setdefault(fi.name, []).append(fi)
                    elif any(d.endswith(".setter") for d in decos):
                        continue
                    else:
                        self.method_index.setdefault(fi.name, []).append(fi)
                else:
                    self.func_index.setdefault(fi.name, []).append(fi)
                for d in decos:
                    if d in self.func_index or src.find_func(rel, d) is not None:
                        self.decorated[(rel, fi.qual)] = d
            # registries: NAME[key] = function  at module level
            for n in src.module(rel).body:
                if isinstance(n, ast.Assign) and len(n.targets) == 1 and isinstance(n.targets[0], ast.Subscript) \
                        and isinstance(n.targets[0].value, ast.Name) and isinstance(n.value, ast.Name):
                    f = src.find_func(rel, n.value.id)
                    if f is not None:
                        self.registry.setdefault(n.targets[0].value.id, []).append(f)
        for (rel, name), ci in src.classes.items():
            if rel in self.modules:
                self.class_index.setdefault(name, []).append(ci)
        for ci in src.class_by_name.get(job_base, []):
            self.job_classes.add(ci.name)
            for s in src.subclasses(ci):
                self.job_classes.add(s.name)

    # -------------------------------------------------------------- summaries
    def key(self, fi, inplace=None, bind=None):
        return (fi.rel, fi.qual, inplace, bind)

    def get(self, fi, inplace=None, bind=None, dependent=None):
        k = self.key(fi, inplace, bind)
        if k not in self.summ:
            self.summ[k] = Summary()
            self.enqueue(k)
        if dependent is not None:
            self.deps.setdefault(k, set()).add(dependent)
        return self.summ[k]

    def enqueue(self, k):
        if k not in self.queued:
            self.queued.add(k)
            self.work.append(k)

    def seed_all(self):
        for rel in self.modules:
            for fi in self.src.funcs_in(rel):
                if fi.parent is not None:
                    continue
                ps = fi.params()
                if "inplace" in ps:
                    self.get(fi, True)
                    self.get(fi, False)
                self.get(fi, None)

    def solve(self, limit=40000):
        while self.work:
            k = self.work.popleft()
            self.queued.discard(k)
            self.visits += 1
            if self.visits > limit:
                raise AnalysisError("EFFECT fixpoint did not converge")
            rel, qual, inplace, bind = k
            fi = self.src.func(rel, qual)
            s = self.summ[k]
            before = s.version
            FuncAnalyzer(self, fi, inplace, bind, k).run()
            if s.version != before:
                for d in self.deps.get(k, ()):
                    self.enqueue(d)

    # -------------------------------------------------------------- resolution helpers
    def lexical_candidates(self, ci, name):
        """method `name` as reached through self of class ci: MRO definition + overriding definitions in subclasses."""
        out = []
        m = self.src.method(ci, name)
        if m is not None:
            out.append(m)
        for sub in self.src.subclasses(ci):
            m2 = sub.methods.get(name)
            if m2 is not None and m2 not in out:
                out.append(m2)
        return out

    def named_candidates(self, name, types=None, prop=False, lexical_cls=None):
        idx = self.prop_index if prop else self.method_index
        cands = list(idx.get(name, []))
        if types:
            allowed = set()
            for tn in types:
                for ci in self.src.class_by_name.get(tn, []):
                    for c in self.src.mro(ci):
                        allowed.add(c.name)
                    for c in self.src.subclasses(ci):
                        allowed.add(c.name)
            narrowed = [f for f in cands if f.cls is not None and f.cls.name in allowed]
            # keep the most derived definitions per type
            if narrowed:
                best = []
                for tn in types:
                    for ci in self.src.class_by_name.get(tn, []):
                        for f in self.lexical_candidates(ci, name):
                            if f in narrowed and f not in best:
                                best.append(f)
                return best or narrowed
        # job classes are only reached through `self`
        cands = [f for f in cands if f.cls is None or f.cls.name not in self.job_classes]
        return cands


class FuncAnalyzer:
    def __init__(self, eng, fi, inplace, bind, key):
        self.eng, self.fi, self.inplace, self.bind, self.k = eng, fi, inplace, bind, key
        self.src = eng.src
        self.S = eng.summ[key]
        self.params = fi.params()
        self.heap = {}
        self.fold_ok = set()
        self.lambdas = {}
        self.nested = {}
        self.depth = 0
        self.where = f"{fi.rel}::{fi.qual}"
        self.annot = {}
        self.breaks = []
        self.multi = set()
        self.appended = {}
        self.qloops = set()      # queues inside their `while len(Q) != 1` loop (at least two elements at the loop head)
        self.min2 = set()        # local list names known to hold at least two elements at this point (batch of the reduction-queue idiom)

    # ------------------------------------------------------------------ driver
    def run(self):
        fn = self.fi.node
        env = {}
        a = fn.args
        allp = a.posonlyargs + a.args
        for i, p in enumerate(allp):
            is_list = False
            types = None
            if p.annotation is not None:
                an = unparse(p.annotation).replace("'", "").replace('"', "")
                if an.startswith(("List[", "list[", "Sequence[", "Tuple[", "Iterable[")) or an in ("list", "List", "tuple"):
                    is_list = True
                base = an.split("[")[-1].rstrip("]") if "[" in an else an
                for cand in base.replace("Union", "").replace(",", " ").replace("[", " ").replace("]", " ").split():
                    if cand in self.src.class_by_name:
                        types = (types or frozenset()) | {cand}
            if p.arg.endswith("_list") or p.arg in ("mps_list", "mpos", "mplist", "termlist"):
                is_list = True
            if i == 0 and self.fi.cls is not None and p.arg in ("self",):
                types = frozenset({self.fi.cls.name})
            env[p.arg] = V({("S", P(i))} if is_list else {P(i)}, is_list, None, types)
        base = len(allp)
        if a.vararg:
            env[a.vararg.arg] = V({("S", P(base))}, True)
            base += 1
        for j, p in enumerate(a.kwonlyargs):
            env[p.arg] = V({P(base + j)})
        if a.kwarg:
            env[a.kwarg.arg] = V((), True)
        self.min2_params = {name for name, qual in (self.bind or ()) if qual == "__min2__"}
        if self.bind:
            for name, qual in self.bind:
                if qual == "__min2__":
                    continue
                f = self.src.find_func(self.fi.rel, qual)
                if f is not None:
                    env[name] = V({("FN", f.rel, f.qual, frozenset())})
        # closure: a nested function sees its parent's parameters as untracked
        self.ret = set()
        self.ret_list = False
        self.block(fn.body, env)
        self.S.add_ret(self.ret, self.ret_list)

    # ------------------------------------------------------------------ effects
    def cap(self, t, lvl):
        path = path_of(t)
        for a in path:
            if a in CONF_ATTRS:
                return min(lvl, CONF)
        for a in path:
            if a in GAUGE_ATTRS:
                return min(lvl, GAUGE)
        return lvl

    def effect(self, tags, lvl, why):
        if lvl == NONE:
            return
        for t in tags:
            if t[0] in ("FN", "LAM"):
                continue
            r = root_of(t)
            if r[0] != "P":
                continue
            l2 = self.cap(t, lvl)
            if l2 > NONE:
                self.S.bump(r[1], l2, why, part=wrap_depth(t) > 0)

    def why(self, node, what):
        try:
            from .src import alpha_text
            a = alpha_text(self.fi.node, node, 110)
        except Exception:
            a = None
        return Why(self.fi.rel, self.fi.qual, norm_stmt(node, 110), getattr(node, "lineno", None), what, (), a)

    # ------------------------------------------------------------------ statements
    def block(self, stmts, env):
        self.scan_fold(stmts)
        for s in stmts:
            self.stmt(s, env)
        return env

    def scan_fold(self, stmts):
        """prefactor-fold idiom: X.scale(X.coeff, inplace=True) together with X.coeff = 1 in one block"""
        scales, ones = {}, {}
        for st in stmts:
            if isinstance(st, ast.Expr) and isinstance(st.value, ast.Call) and isinstance(st.value.func, ast.Attribute) \
                    and st.value.func.attr == "scale" and st.value.args:
                x = unparse(st.value.func.value)
                ip = self.const_kw(st.value, "inplace", 1, {})
                if unparse(st.value.args[0]) == x + ".coeff" and ip is True:
                    scales[x] = st
            if isinstance(st, ast.Assign) and len(st.targets) == 1 and isinstance(st.targets[0], ast.Attribute) \
                    and st.targets[0].attr == "coeff" and isinstance(st.value, ast.Constant) and st.value.value == 1:
                ones[unparse(st.targets[0].value)] = st
        for x in scales:
            if x in ones:
                self.fold_ok.add(id(scales[x].value))
                self.fold_ok.add(id(ones[x]))

    def join_env(self, a, b):
        out = {}
        for k in set(a) | set(b):
            va, vb = a.get(k), b.get(k)
            if va is None:
                out[k] = vb
            elif vb is None:
                out[k] = va
            else:
                out[k] = va.join(vb)
        return out

    def stmt(self, s, env):
        if isinstance(s, (ast.FunctionDef, ast.AsyncFunctionDef)):
            self.nested[s.name] = (s, env)
            env[s.name] = V({("LAM", id(s))})
            self.lambdas[id(s)] = (s, env)
            # analysed once as a callback (parameters untracked), effects on captured objects are recorded
            self.call_closure(s, env, [], {}, callback=True)
            return
        if isinstance(s, ast.Assign):
            v = self.ev(s.value, env)
            for t in s.targets:
                self.assign(t, v, env, s)
            return
        if isinstance(s, ast.AnnAssign):
            if s.value is not None:
                v = self.ev(s.value, env)
                an = unparse(s.annotation).replace("'", "").replace('"', "").split("[")[0]
                if an in self.src.class_by_name and isinstance(s.target, ast.Name):
                    v = V(v.tags, v.is_list, v.elts, frozenset({an}))
                self.assign(s.target, v, env, s)
            return
        if isinstance(s, ast.AugAssign):
            v = self.ev(s.value, env)
            t = s.target
            if isinstance(t, ast.Name):
                cur = env.get(t.id, EMPTY)
                if cur.is_list or v.is_list:
                    env[t.id] = cur.join(v)
                    env[t.id].is_list = True
                elif cur.tags:
                    # in-place operator on an aliased array / object
                    self.effect(cur.tags, VALUE, self.why(s, "in-place operator on an aliased object"))
                return
            self.store(t, v, env, s)
            return
        if isinstance(s, ast.Expr):
            self.ev(s.value, env)
            return
        if isinstance(s, ast.Return):
            if s.value is not None:
                v = self.ev(s.value, env)
                self.ret |= set(v.tags)
                self.ret_list = self.ret_list or v.is_list
            return
        if isinstance(s, ast.If):
            c = self.const_test(s.test, env)
            if c is True:
                self.block(s.body, env)
                return
            if c is False:
                self.block(s.orelse, env)
                return
            self.ev(s.test, env)
            tt = unparse(s.test).replace(" ", "")
            added = None
            if tt.startswith("len(") and tt.endswith(")>1") and isinstance(s.test, ast.Compare) and isinstance(s.test.left, ast.Call) \
                    and s.test.left.args and isinstance(s.test.left.args[0], ast.Name):
                added = s.test.left.args[0].id
                self.multi.add(added)
            e1 = self.block(s.body, dict(env))
            if added is not None:
                self.multi.discard(added)
            e2 = self.block(s.orelse, dict(env))
            env.clear()
            env.update(self.join_env(e1, e2))
            # the same guard written as an early exit: `if len(Q) <= 1: ...; return` leaves len(Q) >= 2 for the statements that follow
            if not s.orelse and s.body and isinstance(s.body[-1], (ast.Return, ast.Raise)) and isinstance(s.test, ast.Compare) and isinstance(s.test.left, ast.Call) \
                    and s.test.left.args and isinstance(s.test.left.args[0], ast.Name) and unparse(s.test.left.func) == "len" \
                    and tt in (f"len({s.test.left.args[0].id})<=1", f"len({s.test.left.args[0].id})<2", f"len({s.test.left.args[0].id})==1"):
                self.multi.add(s.test.left.args[0].id)
            return
        if isinstance(s, (ast.For, ast.AsyncFor)):
            # `for _ in range(min(<batchsize>, len(Q))): L.append(Q.popleft())` while len(Q) >= 2 is known (reduction-queue idiom) and the
            # batch size parameter defaults to a literal >= 2: L holds at least two elements afterwards
            it = unparse(s.iter).replace(" ", "")
            for q in self.qloops:
                if it.startswith("range(min(") and it.endswith(f",len({q})))"):
                    bs = it[len("range(min("):-len(f",len({q})))")]
                    if self.default_at_least_2(bs):
                        for st in s.body:
                            c_ = st.value if isinstance(st, ast.Expr) else None
                            if isinstance(c_, ast.Call) and isinstance(c_.func, ast.Attribute) and c_.func.attr == "append" and isinstance(c_.func.value, ast.Name) \
                                    and unparse(c_.args[0]).replace(" ", "") in (f"{q}.popleft()", f"{q}.pop()", f"{q}.pop(0)"):
                                self.min2.add(c_.func.value.id)
            self.loop(s, env, lambda e: self.bind_iter(s.target, s.iter, e))
            self.block(s.orelse, env)
            return
        if isinstance(s, ast.While):
            self.loop(s, env, lambda e: self.ev(s.test, e))
            self.block(s.orelse, env)
            return
        if isinstance(s, (ast.With, ast.AsyncWith)):
            for it in s.items:
                v = self.ev(it.context_expr, env)
                if it.optional_vars is not None:
                    self.assign(it.optional_vars, v, env, s)
            self.block(s.body, env)
            return
        if isinstance(s, ast.Try):
            pre = dict(env)
            self.block(s.body, env)
            for h in s.handlers:
                he = self.join_env(pre, env)
                self.block(h.body, he)
                merged = self.join_env(env, he)
                env.clear()
                env.update(merged)
            self.block(s.orelse, env)
            self.block(s.finalbody, env)
            return
        if isinstance(s, ast.Delete):
            for t in s.targets:
                if isinstance(t, ast.Name):
                    env.pop(t.id, None)
                else:
                    self.store(t, EMPTY, env, s)
            return
        if isinstance(s, ast.Assert):
            self.ev(s.test, env)
            return
        if isinstance(s, ast.Break):
            if self.breaks:
                self.breaks[-1].append(dict(env))
            return
        if isinstance(s, (ast.Raise, ast.Pass, ast.Continue, ast.Import, ast.ImportFrom, ast.Global, ast.Nonlocal, ast.ClassDef)):
            return
        raise AnalysisError(f"{self.where}: statement kind {type(s).__name__} not handled by EFFECT")

    def default_at_least_2(self, name):
        """parameter `name` of the analysed function has a literal integer default >= 2 (or is such a literal itself)"""
        try:
            return int(name) >= 2
        except ValueError:
            pass
        a = self.fi.node.args
        ps = a.posonlyargs + a.args
        d = dict(zip([p.arg for p in ps[len(ps) - len(a.defaults):]], a.defaults))
        v = d.get(name)
        return isinstance(v, ast.Constant) and isinstance(v.value, int) and v.value >= 2

    def loop(self, s, env, head):
        always = isinstance(s, ast.While) and isinstance(s.test, ast.Constant) and s.test.value is True
        # reduction-queue idiom (this repository's compressed_sum): inside `if len(Q) > 1:` the loop
        # `while len(Q) != 1:` pops the original terms and appends fresh partial sums; on exit Q holds an appended value
        qname = None
        if isinstance(s, ast.While):
            t = unparse(s.test).replace(" ", "")
            for q in self.multi:
                if t in (f"len({q})!=1", f"len({q})>1"):
                    qname = q
        if qname is not None:
            self.appended[qname] = EMPTY
            self.qloops.add(qname)
            # `n = min(<batchsize>, len(Q)); L = [Q.popleft() for _ in range(n)]` (or the bound inlined): the batch holds at least two elements
            binds = {unparse(st.targets[0]): unparse(st.value).replace(" ", "") for st in s.body if isinstance(st, ast.Assign) and len(st.targets) == 1 and isinstance(st.targets[0], ast.Name)}
            for st in s.body:
                if isinstance(st, ast.Assign) and len(st.targets) == 1 and isinstance(st.targets[0], ast.Name) and isinstance(st.value, ast.ListComp) and len(st.value.generators) == 1 \
                        and not st.value.generators[0].ifs and unparse(st.value.elt).replace(" ", "") in (f"{qname}.popleft()", f"{qname}.pop()", f"{qname}.pop(0)"):
                    it_ = unparse(st.value.generators[0].iter).replace(" ", "")
                    if it_.startswith("range(") and it_.endswith(")"):
                        bound = it_[len("range("):-1]
                        bound = binds.get(bound, bound)
                        if bound.startswith("min(") and bound.endswith(f",len({qname}))") and self.default_at_least_2(bound[len("min("):-len(f",len({qname}))")]):
                            self.min2_comp = getattr(self, "min2_comp", set()) | {st.targets[0].id}
        self.breaks.append([])
        for _ in range(6):
            before = {k: v for k, v in env.items()}
            head(env)
            e2 = self.block(s.body, dict(env))
            merged = self.join_env(env, e2)
            same = all(merged.get(k) == before.get(k) for k in set(merged) | set(before))
            env.clear()
            env.update(merged)
            if same:
                break
        brk = self.breaks.pop()
        if always and brk:
            out = brk[0]
            for b in brk[1:]:
                out = self.join_env(out, b)
            env.clear()
            env.update(out)
        elif brk:
            out = dict(env)
            for b in brk:
                out = self.join_env(out, b)
            env.clear()
            env.update(out)
        if qname is not None:
            ap = self.appended.pop(qname, EMPTY)
            env[qname] = V(ap.tags, True)
            self.qloops.discard(qname)

    # ------------------------------------------------------------------ assignment / stores
    def assign(self, t, v, env, stmt):
        if isinstance(t, ast.Name):
            env[t.id] = v
            self.min2.discard(t.id)
            if t.id in getattr(self, "min2_comp", ()) and isinstance(stmt, ast.Assign) and isinstance(stmt.value, ast.ListComp):
                self.min2.add(t.id)          # the batch comprehension of the reduction-queue idiom (recognised at the loop head)
            return
        if isinstance(t, (ast.Tuple, ast.List)):
            if v.elts is not None and len(v.elts) == len(t.elts) and not any(isinstance(x, ast.Starred) for x in t.elts):
                for x, xv in zip(t.elts, v.elts):
                    self.assign(x, xv, env, stmt)
            else:
                ev = self.elem_of(v)
                for x in t.elts:
                    self.assign(x.value if isinstance(x, ast.Starred) else x, ev, env, stmt)
            return
        if isinstance(t, ast.Starred):
            self.assign(t.value, v, env, stmt)
            return
        self.store(t, v, env, stmt)

    def classify_attr(self, attr):
        if attr in CONF_ATTRS:
            return CONF
        if attr in GAUGE_ATTRS:
            return GAUGE
        return VALUE

    def store(self, t, v, env, stmt):
        if isinstance(t, ast.Attribute):
            base = self.ev(t.value, env)
            lvl = self.classify_attr(t.attr)
            if id(stmt) in self.fold_ok:
                lvl = min(lvl, GAUGE)
            self.effect(base.objs(), lvl, self.why(stmt, f"store to .{t.attr}"))
            for b in base.objs():
                if v.tags:
                    self.heap[(b, t.attr)] = self.heap.get((b, t.attr), EMPTY).join(v)
            return
        if isinstance(t, ast.Subscript):
            base = self.ev(t.value, env)
            if not isinstance(t.slice, ast.Slice):
                self.ev(t.slice, env)
            if base.is_list:
                # element store into a container: the container keeps the join; a caller's list is re-bound (CONF at most)
                if isinstance(t.value, ast.Name):
                    env[t.value.id] = env.get(t.value.id, EMPTY).join(V(v.tags, True))
                else:
                    for b in base.objs():
                        self.effect([b], self.cap(b, VALUE) if wrap_depth(b) else CONF, self.why(stmt, "element store into a container attribute"))
                        self.heap[(b, "[]")] = self.heap.get((b, "[]"), EMPTY).join(v)
                return
            self.effect(base.objs(), VALUE, self.why(stmt, "item store"))
            return
        raise AnalysisError(f"{self.where}: store target {unparse(t)} not handled")

    # ------------------------------------------------------------------ expression helpers
    def elem_of(self, v):
        """value obtained by iterating / indexing v"""
        if v.is_list:
            return V(v.tags, False, None, None)
        return V({("S", t) for t in v.objs()})

    def bind_iter(self, target, it, env):
        if isinstance(it, ast.Call) and isinstance(it.func, ast.Name):
            n = it.func.id
            if n == "zip" and isinstance(target, (ast.Tuple, ast.List)) and len(target.elts) == len(it.args):
                for x, a in zip(target.elts, it.args):
                    self.assign(x, self.elem_of(self.ev(a, env)), env, it)
                return
            if n == "enumerate" and isinstance(target, (ast.Tuple, ast.List)) and len(target.elts) == 2 and it.args:
                self.assign(target.elts[0], EMPTY, env, it)
                self.bind_iter(target.elts[1], it.args[0], env)
                return
            if n in ("reversed", "list", "sorted", "tuple", "iter") and it.args:
                self.bind_iter(target, it.args[0], env)
                return
            if n == "range":
                for a in it.args:
                    self.ev(a, env)
                self.assign(target, EMPTY, env, it)
                return
        v = self.ev(it, env)
        self.assign(target, self.elem_of(v), env, it)

    def const_kw(self, call, name, pos, env):
        """True / False / None(unknown) for keyword-or-positional boolean argument; 'absent' -> False"""
        node = None
        for k in call.keywords:
            if k.arg == name:
                node = k.value
        if node is None and pos is not None and len(call.args) > pos:
            node = call.args[pos]
        if node is None:
            return False
        if isinstance(node, ast.Constant) and isinstance(node.value, bool):
            return node.value
        if isinstance(node, ast.Name) and node.id == "inplace" and "inplace" in self.params:
            return self.inplace
        return None

    def const_test(self, test, env):
        if isinstance(test, ast.Name) and test.id == "inplace" and "inplace" in self.params and self.inplace is not None:
            return self.inplace
        if isinstance(test, ast.UnaryOp) and isinstance(test.op, ast.Not):
            c = self.const_test(test.operand, env)
            return None if c is None else (not c)
        if isinstance(test, ast.Constant) and isinstance(test.value, bool):
            return test.value
        return None

    # ------------------------------------------------------------------ expressions
    def ev(self, e, env):
        if e is None:
            return EMPTY
        m = getattr(self, "ev_" + type(e).__name__, None)
        if m is not None:
            return m(e, env)
        # generic: evaluate children for their effects
        out = EMPTY
        for c in ast.iter_child_nodes(e):
            if isinstance(c, ast.expr):
                self.ev(c, env)
        return out

    def ev_Constant(self, e, env):
        return EMPTY

    def ev_Name(self, e, env):
        if e.id in env:
            return env[e.id]
        # enclosing function's names (closure): untracked
        # module-level function / class
        fs = self.resolve_func_name(e.id)
        if fs:
            return V({("FN", f.rel, f.qual, frozenset()) for f in fs})
        if e.id in self.eng.registry:
            return V({("FN", f.rel, f.qual, frozenset()) for f in self.eng.registry[e.id]}, True)
        return EMPTY

    def resolve_func_name(self, name):
        f = self.src.find_func(self.fi.rel, name)
        if f is not None and f.cls is None:
            return [f]
        imp = self.src.imports.get(self.fi.rel, {}).get(name)
        if imp and imp[0].startswith("renormalizer"):
            cands = [x for x in self.eng.func_index.get(imp[1] or name, [])]
            modrel = imp[0].replace(".", "/")
            exact = [x for x in cands if x.rel == modrel + ".py"]
            if exact:
                return exact
            pk = [x for x in cands if x.rel.startswith(modrel + "/")]
            if pk:
                return pk
            return []
        return []

    def ev_Attribute(self, e, env):
        base = self.ev(e.value, env)
        if not base.tags:
            return EMPTY
        if e.attr in IMMUTABLE_META:
            return EMPTY            # array metadata: ints / tuples of ints / dtype objects; nothing that could be mutated through the result
        out = set()
        types = None
        for t in base.objs():
            out.add(("A", t, e.attr))
            h = self.heap.get((t, e.attr))
            if h is not None:
                out |= set(h.tags)
        res = V(out)
        # bound method value (used in dispatch dicts)
        cands = self.method_candidates(e, base)
        if cands and e.attr not in self.eng.prop_index:
            return V({("FN", f.rel, f.qual, frozenset(base.objs())) for f in cands})
        # property with an analysed body
        props = self.property_candidates(e, base)
        if props:
            r = self.apply(props, base, [], {}, e, None)
            return r
        return res

    def lexical_class(self, e):
        if isinstance(e, ast.Name) and e.id in ("self",) and self.fi.cls is not None and self.params and self.params[0] == "self":
            return self.fi.cls
        return None

    def method_candidates(self, attr_node, base):
        name = attr_node.attr
        lc = self.lexical_class(attr_node.value)
        if lc is not None:
            c = [f for f in self.eng.lexical_candidates(lc, name) if (f.rel, f.qual) not in [(p.rel, p.qual) for p in self.eng.prop_index.get(name, [])]]
            return c
        if name not in self.eng.method_index:
            return []
        # only objects themselves (not their parts) can be receivers of analysed methods, unless the part is a known sub-object
        return self.eng.named_candidates(name, base.types)

    def property_candidates(self, attr_node, base):
        name = attr_node.attr
        if name not in self.eng.prop_index:
            return []
        lc = self.lexical_class(attr_node.value)
        if lc is not None:
            out = []
            for c in self.src.mro(lc):
                for f in self.eng.prop_index[name]:
                    if f.cls is c and f not in out:
                        out.append(f)
                if out:
                    break
            for sub in self.src.subclasses(lc):
                for f in self.eng.prop_index[name]:
                    if f.cls is sub and f not in out:
                        out.append(f)
            return out
        # receivers that are parts (matrices, configs) do not carry analysed properties with effects
        if all(wrap_depth(t) > 0 and path_of(t)[-1] not in ("root", "[]", "latest_mps", "init_mpdm", "parent", "children") for t in base.objs()):
            return []
        return self.eng.named_candidates(name, base.types, prop=True)

    def ev_Subscript(self, e, env):
        base = self.ev(e.value, env)
        if not isinstance(e.slice, ast.Slice):
            self.ev(e.slice, env)
        if not base.tags:
            return EMPTY
        fn = {t for t in base.tags if t[0] in ("FN", "LAM")}
        if base.is_list:
            if base.elts is not None and isinstance(e.slice, ast.Constant) and isinstance(e.slice.value, int) \
                    and -len(base.elts) <= e.slice.value < len(base.elts):
                return base.elts[e.slice.value]
            return V(base.tags, isinstance(e.slice, ast.Slice), None, None)
        out = {("S", t) for t in base.objs()} | fn
        return V(out, isinstance(e.slice, ast.Slice))

    def ev_IfExp(self, e, env):
        c = self.const_test(e.test, env)
        if c is True:
            return self.ev(e.body, env)
        if c is False:
            return self.ev(e.orelse, env)
        self.ev(e.test, env)
        return self.ev(e.body, env).join(self.ev(e.orelse, env))

    def ev_List(self, e, env):
        vs = [self.ev(x, env) for x in e.elts]
        out = EMPTY
        for v in vs:
            out = out.join(v)
        return V(out.tags, True, vs if not any(isinstance(x, ast.Starred) for x in e.elts) else None)

    ev_Tuple = ev_List
    ev_Set = ev_List

    def ev_Dict(self, e, env):
        out = EMPTY
        for k in e.keys:
            if k is not None:
                self.ev(k, env)
        for v in e.values:
            out = out.join(self.ev(v, env))
        return V(out.tags, True)

    def ev_Starred(self, e, env):
        return self.ev(e.value, env)

    def comp(self, e, env, elt):
        e2 = dict(env)
        for g in e.generators:
            self.bind_iter(g.target, g.iter, e2)
            for c in g.ifs:
                self.ev(c, e2)
        return e2

    def ev_ListComp(self, e, env):
        e2 = self.comp(e, env, e.elt)
        v = self.ev(e.elt, e2)
        return V(v.tags, True)

    ev_GeneratorExp = ev_ListComp
    ev_SetComp = ev_ListComp

    def ev_DictComp(self, e, env):
        e2 = self.comp(e, env, e.value)
        self.ev(e.key, e2)
        v = self.ev(e.value, e2)
        return V(v.tags, True)

    def ev_Lambda(self, e, env):
        self.lambdas[id(e)] = (e, env)
        self.call_closure(e, env, [], {}, callback=True)
        return V({("LAM", id(e))})

    def ev_BoolOp(self, e, env):
        out = EMPTY
        for v in e.values:
            out = out.join(self.ev(v, env))
        return out

    def ev_Compare(self, e, env):
        self.ev(e.left, env)
        for c in e.comparators:
            self.ev(c, env)
        return EMPTY

    def ev_UnaryOp(self, e, env):
        v = self.ev(e.operand, env)
        if isinstance(e.op, ast.USub):
            objs = [t for t in v.objs() if wrap_depth(t) == 0]
            if objs:
                c = self.eng.named_candidates("__neg__", v.types)
                if c:
                    return self.apply(c, v, [], {}, e, None)
        return EMPTY

    DUNDER = {ast.Add: ("__add__", "__radd__"), ast.Sub: ("__sub__", "__rsub__"), ast.Mult: ("__mul__", "__rmul__"),
              ast.MatMult: ("__matmul__", "__rmatmul__"), ast.Div: ("__truediv__", "__rtruediv__")}

    def ev_BinOp(self, e, env):
        l, r = self.ev(e.left, env), self.ev(e.right, env)
        if isinstance(e.op, ast.Add) and (l.is_list or r.is_list):
            v = l.join(r)
            return V(v.tags, True)
        if isinstance(e.op, ast.Mult) and (l.is_list or r.is_list):
            v = l.join(r)
            return V(v.tags, True)
        d = self.DUNDER.get(type(e.op))
        if d is None:
            return EMPTY
        lo = [t for t in l.objs() if wrap_depth(t) == 0]
        ro = [t for t in r.objs() if wrap_depth(t) == 0]
        if lo:
            c = self.eng.named_candidates(d[0], l.types)
            if c:
                return self.apply(c, V(lo, False, None, l.types), [r], {}, e, None)
        if ro:
            c = self.eng.named_candidates(d[1], r.types)
            if c:
                return self.apply(c, V(ro, False, None, r.types), [l], {}, e, None)
        return EMPTY

    def ev_JoinedStr(self, e, env):
        return EMPTY

    def ev_Yield(self, e, env):
        if e.value is not None:
            v = self.ev(e.value, env)
            self.ret |= set(v.tags)
        return EMPTY

    def ev_NamedExpr(self, e, env):
        v = self.ev(e.value, env)
        self.assign(e.target, v, env, e)
        return v

    # ------------------------------------------------------------------ calls
    def ev_Call(self, c, env):
        f = c.func
        args = []
        for a in c.args:
            args.append(self.ev(a, env))
        kw = {}
        for k in c.keywords:
            v = self.ev(k.value, env)
            if k.arg is not None:
                kw[k.arg] = v
            else:
                args.append(v)
        ft = unparse(f)
        # ---- plain names
        if isinstance(f, ast.Name):
            n = f.id
            if n in env and env[n].tags:
                return self.call_value(env[n], args, kw, c, env)
            if n in PURE_BUILTINS:
                return EMPTY
            if n == "super":
                return EMPTY
            if n in CONTAINER_CTORS:
                if n in ("zip", "chain"):
                    out = EMPTY
                    for a in args:
                        out = out.join(self.elem_of(a) if not a.is_list else a)
                    return V(out.tags, True)
                if n == "enumerate" and args:
                    a = args[0]
                    return V((a if a.is_list else self.elem_of(a)).tags, True)
                if args:
                    a = args[0]
                    if a.is_list:
                        return V(a.tags, True)
                    return V(self.elem_of(a).tags, True)
                return V((), True)
            if n == "next" and args:
                return self.elem_of(args[0])
            if n == "map" and len(args) >= 2:
                out = EMPTY
                for a in args[1:]:
                    out = out.join(self.call_value(args[0], [self.elem_of(a)], {}, c, env))
                return V(out.tags, True)
            if n == "reduce" and len(args) >= 2:
                el = self.elem_of(args[1])
                r = self.call_value(args[0], [el, el], {}, c, env)
                r2 = self.call_value(args[0], [r, el], {}, c, env)
                out = r.join(r2)
                # reduce over a one-element sequence returns that element itself (no call of the function): the result may alias it,
                # unless the sequence is a parameter the caller guarantees to hold at least two elements
                seqn = c.args[1]
                if not (isinstance(seqn, ast.Name) and seqn.id in self.min2_params) and len(c.args) < 3:
                    out = out.join(el)
                return out
            if n == "getattr" and len(c.args) >= 2 and isinstance(c.args[1], ast.Constant) and isinstance(c.args[1].value, str):
                fake = ast.Attribute(value=c.args[0], attr=c.args[1].value, ctx=ast.Load())
                ast.copy_location(fake, c)
                return self.ev_Attribute(fake, env)
            if n == "getattr" and args:
                return V({("A", t, "?") for t in args[0].objs()})
            if n == "setattr" and len(c.args) >= 3:
                nm = c.args[1].value if isinstance(c.args[1], ast.Constant) else "?"
                lvl = self.classify_attr(nm) if nm != "?" else VALUE
                self.effect(args[0].objs(), lvl, self.why(c, f"setattr .{nm}"))
                return EMPTY
            if n in ("deepcopy", "copy"):
                return V({F}, args[0].is_list if args else False, None, args[0].types if args else None)
            if n == "cls" or n in self.src.class_by_name:
                return self.construct(n, args, kw, c, env)
            fs = self.resolve_func_name(n)
            if fs:
                return self.apply(fs, None, args, kw, c, env)
            if n in VIEW_FUNCS and args:
                return args[0]
            if n in self.nested:
                node, cenv = self.nested[n]
                return self.call_closure(node, cenv, args, kw)
            # unknown free function (numpy-like helper imported by name): pure
            if any(a.tags for a in args):
                self.eng.external_tracked += 1
            return EMPTY
        # ---- attribute calls
        if isinstance(f, ast.Attribute):
            m = f.attr
            # module-qualified
            rootname = None
            x = f.value
            while isinstance(x, ast.Attribute):
                x = x.value
            if isinstance(x, ast.Name):
                rootname = x.id
            if rootname in MODULE_PREFIXES and rootname not in env:
                if ft in NP_INPLACE and args:
                    self.effect(args[NP_INPLACE[ft]].objs(), VALUE, self.why(c, f"{ft} writes its argument in place"))
                    return EMPTY
                if ft in VIEW_FUNCS and args:
                    return args[0]
                if any(a.tags for a in args):
                    self.eng.external_tracked += 1
                return EMPTY
            # module alias of an analysed module (svd_qn.svd_qn, ba.BasisX)
            if isinstance(f.value, ast.Name) and f.value.id not in env:
                imp = self.src.imports.get(self.fi.rel, {}).get(f.value.id)
                if imp is not None:
                    fs = [x for x in self.eng.func_index.get(m, [])]
                    if fs:
                        return self.apply(fs, None, args, kw, c, env)
                    if m in self.src.class_by_name:
                        return self.construct(m, args, kw, c, env)
                    return EMPTY
            # super().m(...)
            if isinstance(f.value, ast.Call) and unparse(f.value.func) == "super" and self.fi.cls is not None:
                target = self.super_target(m)
                recv = env.get(self.params[0], EMPTY) if self.params else EMPTY
                if target is not None:
                    return self.apply([target], recv, args, kw, c, env)
                return V({F}) if m in ("__new__",) else EMPTY
            # X.__class__(...) / X.__class__.__new__(X.__class__): constructor of X's class
            if m == "__class__" or (m == "__new__" and isinstance(f.value, ast.Attribute) and f.value.attr == "__class__"):
                inner = f.value if m == "__class__" else f.value.value
                lc = self.lexical_class(inner)
                base = self.ev(inner, env)
                tnames = frozenset({lc.name}) if lc is not None else base.types
                res = V({F}, False, None, tnames)
                if m == "__class__" and tnames:
                    for tn in tnames:
                        for ci in self.src.class_by_name.get(tn, [])[:1]:
                            for sub in [ci] + (self.src.subclasses(ci) if lc is not None else []):
                                init = self.src.method(sub, "__init__")
                                if init is not None and init.rel in self.eng.modules:
                                    self.apply([init], res, args, kw, c, env)
                return res
            recv = self.ev(f.value, env)
            # Class.method(...) / cls.method(...)
            if isinstance(f.value, ast.Name) and (f.value.id in self.src.class_by_name or f.value.id == "cls") and f.value.id not in env:
                cname = self.fi.cls.name if f.value.id == "cls" and self.fi.cls is not None else f.value.id
                cands = []
                for ci in self.src.class_by_name.get(cname, []):
                    mm = self.src.method(ci, m)
                    if mm is not None:
                        cands.append(mm)
                    if f.value.id == "cls":
                        for sub in self.src.subclasses(ci):
                            if m in sub.methods and sub.methods[m] not in cands:
                                cands.append(sub.methods[m])
                if cands:
                    decos = [unparse(d) for d in cands[0].node.decorator_list]
                    if "classmethod" in decos:
                        return self.apply(cands, V({F}), args, kw, c, env)
                    if "staticmethod" in decos:
                        return self.apply(cands, None, args, kw, c, env)
                    # explicit unbound call Class.method(self, ...)
                    return self.apply(cands, args[0] if args else EMPTY, args[1:], kw, c, env)
                if m == "__new__":
                    return V({F})
                return EMPTY
            if not recv.tags:
                # local container without tracked content
                if m in LIST_MUT and isinstance(f.value, ast.Name):
                    cur = env.get(f.value.id, V((), True))
                    out = cur
                    for a in args:
                        out = out.join(a if m != "extend" else (a if a.is_list else self.elem_of(a)))
                    env[f.value.id] = V(out.tags, True)
                return EMPTY
            fnv = {t for t in recv.tags if t[0] in ("FN", "LAM")}
            # container methods
            if recv.is_list:
                if m in LIST_MUT:
                    add = EMPTY
                    for a in args:
                        add = add.join(a if m != "extend" else (a if a.is_list else self.elem_of(a)))
                    if isinstance(f.value, ast.Name):
                        env[f.value.id] = V((env.get(f.value.id, EMPTY).join(add)).tags, True)
                        if f.value.id in self.appended:
                            self.appended[f.value.id] = self.appended[f.value.id].join(add)
                    else:
                        for b in recv.objs():
                            self.effect([b], self.cap(b, VALUE) if wrap_depth(b) else CONF, self.why(c, f"container .{m}()"))
                            self.heap[(b, "[]")] = self.heap.get((b, "[]"), EMPTY).join(add)
                    return EMPTY
                if m in ("pop", "popleft", "get"):
                    return V(recv.tags, False)
                if m in ("copy", "values", "keys", "items"):
                    return V(recv.tags, True)
                if m in ("clear", "sort", "reverse", "remove", "index", "count", "update", "setdefault", "rotate"):
                    if m in ("clear", "remove", "update") and not isinstance(f.value, ast.Name):
                        for b in recv.objs():
                            self.effect([b], self.cap(b, VALUE) if wrap_depth(b) else CONF, self.why(c, f"container .{m}()"))
                    return EMPTY
            cands = self.method_candidates(f, recv)
            objs = recv.objs()
            parts_only = all(wrap_depth(t) > 0 for t in objs)
            if cands and parts_only and self.lexical_class(f.value) is None and not self.part_is_object(objs) \
                    and (m in FRESH_METHODS | VIEW_METHODS | GENERIC_NAMES | LIST_MUT):
                cands = []
            if cands:
                return self.apply(cands, V(objs, False, None, recv.types), args, kw, c, env)
            if fnv and m in ("__call__",):
                return self.call_value(recv, args, kw, c, env)
            # numpy / Matrix / config style methods on parts or unknown objects
            if m in VIEW_METHODS:
                return V(objs)
            if m in FRESH_METHODS:
                return EMPTY
            if m in NP_ARRAY_INPLACE_METHODS:
                self.effect(objs, VALUE, self.why(c, f"in-place array method .{m}()"))
                return EMPTY
            if m in LIST_MUT or m in ("clear", "remove", "update", "pop", "popleft", "setdefault", "sort", "reverse"):
                for b in objs:
                    self.effect([b], self.cap(b, VALUE) if wrap_depth(b) else VALUE, self.why(c, f"container .{m}() on attribute"))
                return V(objs) if m in ("pop", "popleft") else EMPTY
            if parts_only:
                # unknown method of a sub-object: assumed pure, returns something that may alias the part
                return EMPTY
            # unknown method on a tracked object itself
            key = (self.where, m)
            self.eng.unresolved[key] = self.eng.unresolved.get(key, 0) + 1
            self.effect(objs, VALUE, self.why(c, f"unresolved method .{m}() treated as may-mutate"))
            return V(set(objs) | {F})
        # ---- computed callee: dispatch dict subscript, call result, lambda
        fv = self.ev(f, env)
        return self.call_value(fv, args, kw, c, env)

    def part_is_object(self, objs):
        """parts that are themselves state objects (elements of containers, attributes holding states)"""
        for t in objs:
            p = path_of(t)
            if p and p[-1] in ("[]",) and len(p) == 1 and root_of(t)[0] == "P":
                # element of a parameter: may be a state object if the parameter is a list
                return True
            if p and p[-1] in ("latest_mps", "init_mpdm", "root", "mps", "mpo", "ttns", "ttno", "h_mpo", "bra_mps", "ket_mps"):
                return True
        return False

    def super_target(self, m):
        ci = self.fi.cls
        mro = self.src.mro(ci)
        owner = None
        for c in mro:
            if self.fi.node in c.node.body:
                owner = c
                break
        rest = mro[mro.index(owner) + 1:] if owner in mro else mro[1:]
        for c in rest:
            if m in c.methods:
                return c.methods[m]
        return None

    def construct(self, n, args, kw, c, env):
        cname = n
        if n == "cls" and self.fi.cls is not None:
            cname = self.fi.cls.name
        cis = self.src.class_by_name.get(cname, [])
        res = V({F}, False, None, frozenset({cname}))
        for ci in cis[:1]:
            init = self.src.method(ci, "__init__")
            if init is not None and init.rel in self.eng.modules:
                self.apply([init], res, args, kw, c, env)
        return res

    def call_value(self, fv, args, kw, c, env):
        out = EMPTY
        hit = False
        for t in fv.tags:
            if t[0] == "FN":
                fi = self.src.find_func(t[1], t[2])
                if fi is None:
                    continue
                hit = True
                recv = V(t[3]) if t[3] else None
                if fi.cls is not None and recv is None and fi.params()[:1] == ["self"]:
                    recv = EMPTY
                out = out.join(self.apply([fi], recv, args, kw, c, env))
            elif t[0] == "LAM":
                hit = True
                node, cenv = self.lambdas.get(t[1], (None, None))
                if node is not None:
                    out = out.join(self.call_closure(node, cenv, args, kw))
        if not hit and any(a.tags for a in args):
            self.eng.external_tracked += 1
        return out

    def call_closure(self, node, cenv, args, kw, callback=False):
        """inline analysis of a nested def / lambda in its defining environment"""
        if self.depth > 4:
            return EMPTY
        self.depth += 1
        try:
            e2 = dict(cenv)
            a = node.args
            names = [x.arg for x in a.posonlyargs + a.args]
            for i, nme in enumerate(names):
                e2[nme] = args[i] if i < len(args) else kw.get(nme, EMPTY)
            if a.vararg:
                extra = EMPTY
                for x in args[len(names):]:
                    extra = extra.join(x)
                e2[a.vararg.arg] = V(extra.tags, True)
            if a.kwarg:
                e2[a.kwarg.arg] = V((), True)
            for x in a.kwonlyargs:
                e2[x.arg] = kw.get(x.arg, EMPTY)
            if isinstance(node, ast.Lambda):
                return self.ev(node.body, e2)
            saved, saved_l = self.ret, self.ret_list
            self.ret, self.ret_list = set(), False
            self.block(node.body, e2)
            r, rl = self.ret, self.ret_list
            self.ret, self.ret_list = saved, saved_l
            # assignments to captured names inside the closure are visible outside (nonlocal-free code mutates objects only)
            return V(r, rl)
        finally:
            self.depth -= 1

    def apply(self, cands, recv, args, kw, call, env):
        """apply the summaries of candidate callees; returns the joined result value"""
        out = EMPTY
        for fi in cands:
            if fi.rel not in self.eng.modules:
                continue
            ps = fi.params()
            # decorated functions are entered through their wrapper
            deco = self.eng.decorated.get((fi.rel, fi.qual))
            bind = None
            target = fi
            if deco is not None:
                wrapper = self.wrapper_of(fi.rel, deco)
                if wrapper is not None:
                    wfi, pname = wrapper
                    bind = ((pname, fi.qual),)
                    target = wfi
            tps = target.params()
            inplace = None
            if "inplace" in tps and isinstance(call, ast.Call):
                pos = tps.index("inplace") - (1 if recv is not None else 0)
                inplace = self.const_kw(call, "inplace", pos, env)
            if isinstance(call, ast.Call) and self.min2:
                off = 1 if recv is not None else 0
                extra = tuple((tps[i + off], "__min2__") for i, a_ in enumerate(call.args) if isinstance(a_, ast.Name) and a_.id in self.min2 and i + off < len(tps))
                if extra:
                    bind = (bind or ()) + extra
            s = self.eng.get(target, inplace, bind, dependent=self.k)
            actual = {}
            seq = ([recv] if recv is not None else []) + list(args)
            for i, v in enumerate(seq):
                if i < len(tps):
                    actual[i] = v
                else:
                    actual[len(tps)] = actual.get(len(tps), EMPTY).join(v)  # *args
            for name, v in kw.items():
                if name in tps:
                    actual[tps.index(name)] = v
            mut = DOC_MUTATORS.get(fi.name, set())
            for i in list(s.eff):
                v = actual.get(i)
                if v is None or not v.tags:
                    continue
                if v.is_list:
                    # effects on the container itself do not touch the element objects
                    if i not in s.effp:
                        continue
                    lvl, why = s.effp[i]
                else:
                    lvl, why = s.eff[i]
                if fi.name in GAUGE_CONTRACT and i == 0 and recv is not None:
                    lvl = min(lvl, GAUGE)
                pname = tps[i] if i < len(tps) else None
                is_doc = (i in mut) or (pname in mut) or (fi.name in INPLACE_MUTATORS and i == 0 and inplace is not False) \
                    or ((fi.rel, fi.qual, pname) in self.eng.doc_pairs)
                if id(call) in self.fold_ok:
                    lvl = min(lvl, GAUGE)
                if is_doc:
                    w = self.why(call, f"calls {fi.qual}() [{LEVEL[lvl]} on its {'receiver' if i == 0 and recv is not None else 'argument ' + str(pname)}]")
                    self.effect(v.objs(), lvl, w)
                else:
                    self.effect(v.objs(), lvl, why.via(self.where))
                    if lvl >= VALUE and not v.is_list:
                        for w2 in s.alt.get(i, {}).values():
                            self.effect(v.objs(), lvl, w2.via(self.where))
            for t in s.ret:
                out = out.join(self.subst(t, actual))
            if s.ret_is_list:
                out = V(out.tags, True)
            # return type hint
            rt = None
            if target.node.returns is not None:
                an = unparse(target.node.returns).replace("'", "").replace('"', "")
                if an in self.src.class_by_name:
                    rt = frozenset({an})
            if rt is None and recv is not None and recv.types and fi.name in ("copy", "metacopy", "conj", "to_complex", "scale", "add", "canonicalise",
                                                                            "compress", "normalize", "evolve", "ensure_left_canonical",
                                                                            "ensure_right_canonical", "expand_bond_dimension", "__add__", "__sub__"):
                rt = recv.types
            if rt is not None:
                out = V(out.tags, out.is_list, None, rt)
        return out

    def wrapper_of(self, rel, deco):
        """decorator `deco` defined in module rel: returns (FuncInfo of the returned inner function, name of the wrapped-function parameter)"""
        d = self.src.find_func(rel, deco)
        if d is None:
            cands = self.eng.func_index.get(deco, [])
            d = cands[0] if cands else None
        if d is None or not d.params():
            return None
        inner = None
        for r in ast.walk(d.node):
            if isinstance(r, ast.Return) and isinstance(r.value, ast.Name):
                inner = self.src.find_func(d.rel, f"{d.qual}.{r.value.id}")
        if inner is None:
            return None
        return inner, d.params()[0]

    def subst(self, t, actual):
        if t == F or t == TOP:
            return V({t})
        if t[0] == "P":
            v = actual.get(t[1])
            return v if v is not None else EMPTY
        if t[0] == "S":
            inner = self.subst(t[1], actual)
            if inner.is_list:
                return V(inner.tags)
            return V({("S", x) for x in inner.objs()})
        if t[0] == "A":
            inner = self.subst(t[1], actual)
            return V({("A", x, t[2]) for x in inner.objs()})
        return EMPTY
