"""FLOW - small symbolic helpers: integer/index expression evaluation under a boolean environment (sympy)."""
import ast

import sympy as sp

from .src import AnalysisError, unparse


def sym_eval(e, env, bools=None):
    """Evaluate an index-like expression to a sympy expression.
    env: {source text: sympy value}; bools: {source text: True/False} for conditions."""
    bools = bools or {}
    t = unparse(e).replace(" ", "")
    if t in env:
        return env[t]
    if isinstance(e, ast.Constant) and isinstance(e.value, (int, float)) and not isinstance(e.value, bool):
        return sp.nsimplify(e.value)
    if isinstance(e, ast.IfExp):
        c = bool_eval(e.test, bools)
        return sym_eval(e.body if c else e.orelse, env, bools)
    if isinstance(e, ast.BinOp) and isinstance(e.op, (ast.Add, ast.Sub, ast.Mult)):
        a, b = sym_eval(e.left, env, bools), sym_eval(e.right, env, bools)
        return {ast.Add: a + b, ast.Sub: a - b, ast.Mult: a * b}[type(e.op)]
    if isinstance(e, ast.UnaryOp) and isinstance(e.op, ast.USub):
        return -sym_eval(e.operand, env, bools)
    raise AnalysisError(f"index expression outside the interpreted fragment: {unparse(e)}")


def bool_eval(e, bools):
    t = unparse(e).replace(" ", "")
    if t in bools:
        return bools[t]
    if isinstance(e, ast.UnaryOp) and isinstance(e.op, ast.Not):
        return not bool_eval(e.operand, bools)
    if isinstance(e, ast.Constant) and isinstance(e.value, bool):
        return e.value
    if isinstance(e, ast.BoolOp):
        vals = [bool_eval(v, bools) for v in e.values]
        return all(vals) if isinstance(e.op, ast.And) else any(vals)
    raise AnalysisError(f"condition outside the interpreted fragment: {unparse(e)}")
