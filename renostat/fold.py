"""FOLD - exact constant folding of literal expressions (numbers -> Fraction) and partial
evaluation of if/elif chains that dispatch on a string attribute.  No statement of /repo is run."""
import ast
from fractions import Fraction as F
from math import factorial

from .src import AnalysisError, unparse


class NotConstant(Exception):
    pass


def fold(node, env):
    """Fold an expression to Fraction / str / bool / list / tuple.  Raises NotConstant."""
    if isinstance(node, ast.Constant):
        v = node.value
        if isinstance(v, bool):
            return v
        if isinstance(v, int):
            return F(v)
        if isinstance(v, float):
            return F(repr(v))  # decimal-literal semantics: 0.5 is 1/2, 0.1 is 1/10
        if isinstance(v, str):
            return v
        raise NotConstant(unparse(node))
    if isinstance(node, ast.Name):
        if node.id in env:
            return env[node.id]
        raise NotConstant(node.id)
    if isinstance(node, ast.UnaryOp):
        v = fold(node.operand, env)
        if isinstance(node.op, ast.USub):
            return -v
        if isinstance(node.op, ast.UAdd):
            return v
        raise NotConstant(unparse(node))
    if isinstance(node, ast.BinOp):
        a, b = fold(node.left, env), fold(node.right, env)
        if not isinstance(a, F) or not isinstance(b, F):
            raise NotConstant(unparse(node))
        if isinstance(node.op, ast.Add):
            return a + b
        if isinstance(node.op, ast.Sub):
            return a - b
        if isinstance(node.op, ast.Mult):
            return a * b
        if isinstance(node.op, ast.Div):
            if b == 0:
                raise NotConstant("division by zero")
            return a / b
        if isinstance(node.op, ast.Pow) and b.denominator == 1:
            return a ** int(b)
        raise NotConstant(unparse(node))
    if isinstance(node, ast.List):
        return [fold(e, env) for e in node.elts]
    if isinstance(node, ast.Tuple):
        return tuple(fold(e, env) for e in node.elts)
    if isinstance(node, ast.Subscript):
        v = fold(node.value, env)
        if isinstance(v, (list, tuple)):
            if isinstance(node.slice, ast.Slice):
                lo = fold(node.slice.lower, env) if node.slice.lower else None
                hi = fold(node.slice.upper, env) if node.slice.upper else None
                if any(x is not None and not (isinstance(x, F) and x.denominator == 1) for x in (lo, hi)) or node.slice.step is not None:
                    raise NotConstant(unparse(node))
                return v[(int(lo) if lo is not None else None):(int(hi) if hi is not None else None)]
            i = fold(node.slice, env)
            if isinstance(i, F) and i.denominator == 1 and -len(v) <= int(i) < len(v):
                return v[int(i)]
        raise NotConstant(unparse(node))
    if isinstance(node, ast.Call):
        fn = unparse(node.func)
        if fn in ("np.array", "np.asarray", "numpy.array") and node.args:
            return fold(node.args[0], env)
        if fn in ("factorial", "math.factorial", "scipy.special.factorial") and len(node.args) == 1:
            v = fold(node.args[0], env)
            if isinstance(v, F) and v.denominator == 1 and v >= 0:
                return F(factorial(int(v)))
            raise NotConstant(unparse(node))
        if isinstance(node.func, ast.Attribute) and node.func.attr == "astype":
            return fold(node.func.value, env)
        if isinstance(node.func, ast.Attribute) and node.func.attr == "reshape":
            v = fold(node.func.value, env)
            shp = [fold(a, env) for a in node.args]
            if len(shp) == 1 and isinstance(shp[0], tuple):
                shp = list(shp[0])
            return reshape(v, shp)
    raise NotConstant(unparse(node))


def flat(v):
    if isinstance(v, (list, tuple)):
        out = []
        for x in v:
            out.extend(flat(x))
        return out
    return [v]


def reshape(v, shp):
    fl = flat(v)
    if len(shp) == 2 and shp[0] == -1 and isinstance(shp[1], F) and shp[1].denominator == 1:
        n = int(shp[1])
        if n <= 0 or len(fl) % n:
            raise NotConstant("reshape size mismatch")
        return [fl[i:i + n] for i in range(0, len(fl), n)]
    raise NotConstant(f"reshape {shp}")


def shape(v):
    if isinstance(v, (list, tuple)):
        if not v:
            return (0,)
        s0 = shape(v[0])
        for x in v[1:]:
            if shape(x) != s0:
                raise NotConstant("ragged")
        return (len(v),) + s0
    return ()


def partial_eval_dispatch(fn, attr_text, value, want):
    """Walk fn's body deciding tests of the form `<attr_text> == "lit"` / `<attr_text> in [..]` for the
    given value; fold assignments to simple names.  Returns env (names -> folded value or ('UNK', text)).
    `assert False` reached -> env['__assert_false__'] = True."""
    env = {}

    def cond(test):
        if isinstance(test, ast.Compare) and len(test.ops) == 1 and unparse(test.left) == attr_text:
            try:
                rhs = fold(test.comparators[0], {})
            except NotConstant:
                raise AnalysisError(f"dispatch test not constant: {unparse(test)}")
            if isinstance(test.ops[0], ast.Eq):
                return value == rhs
            if isinstance(test.ops[0], ast.NotEq):
                return value != rhs
            if isinstance(test.ops[0], ast.In):
                return value in rhs
            if isinstance(test.ops[0], ast.NotIn):
                return value not in rhs
        raise AnalysisError(f"unsupported dispatch test in {fn.name}: {unparse(test)}")

    def run(stmts):
        for s in stmts:
            if isinstance(s, ast.If):
                run(s.body if cond(s.test) else s.orelse)
            elif isinstance(s, ast.Assign) and len(s.targets) == 1 and isinstance(s.targets[0], ast.Name):
                try:
                    env[s.targets[0].id] = fold(s.value, env)
                except NotConstant as e:
                    env[s.targets[0].id] = ("UNK", unparse(s.value), str(e))
            elif isinstance(s, ast.Assign) and len(s.targets) == 1 and isinstance(s.targets[0], ast.Tuple) and all(isinstance(t, ast.Name) for t in s.targets[0].elts):
                names = [t.id for t in s.targets[0].elts]
                vals = s.value.elts if isinstance(s.value, ast.Tuple) and len(s.value.elts) == len(names) else None
                if vals is None:
                    try:
                        whole = fold(s.value, env)
                        vals_f = list(whole) if isinstance(whole, (list, tuple)) and len(whole) == len(names) else None
                    except NotConstant:
                        vals_f = None
                    for i_, nme in enumerate(names):
                        env[nme] = vals_f[i_] if vals_f is not None else ("UNK", unparse(s.value), "tuple")
                else:
                    new = []
                    for v_ in vals:       # right-hand side is evaluated before any target is bound
                        try:
                            new.append(fold(v_, env))
                        except NotConstant as e:
                            new.append(("UNK", unparse(v_), str(e)))
                    for nme, v_ in zip(names, new):
                        env[nme] = v_
            elif isinstance(s, ast.Assert):
                if isinstance(s.test, ast.Constant) and s.test.value is False:
                    env["__assert_false__"] = True
                    return
            elif isinstance(s, ast.Return):
                env["__return__"] = s.value
                return
            elif isinstance(s, (ast.Expr, ast.Pass)):
                continue
            elif isinstance(s, ast.Raise):
                env["__assert_false__"] = True
                return
            else:
                raise AnalysisError(f"unsupported statement in {fn.name}: {unparse(s)[:80]}")

    run(fn.body)
    return env


# ---------------------------------------------------------------------------------------------- array expressions with numpy's fixed-width integer semantics
class NArr:
    """1-d array of exact values with a numpy-like dtype: 'int64' values wrap modulo 2**64 (two's complement), 'float64' values are kept exact (Fraction)"""
    def __init__(self, vals, dtype):
        self.vals, self.dtype = list(vals), dtype

    @staticmethod
    def wrap(v):
        v = int(v) & ((1 << 64) - 1)
        return v - (1 << 64) if v >= (1 << 63) else v


def npfold(e, env):
    """fold an expression that builds a 1-d coefficient array.  env maps source text (e.g. 'self.order') to Fractions.  Raises NotConstant outside the fragment."""
    t = unparse(e).replace(" ", "")
    if t in env:
        return env[t]
    if isinstance(e, ast.Constant) and isinstance(e.value, (int, float)) and not isinstance(e.value, bool):
        return ("int", e.value) if isinstance(e.value, int) else ("float", F(repr(e.value)))
    if isinstance(e, ast.Name):
        if e.id in env:
            return env[e.id]
        raise NotConstant(e.id)
    if isinstance(e, ast.BinOp):
        a, b = npfold(e.left, env), npfold(e.right, env)
        return _nbin(type(e.op), a, b, e)
    if isinstance(e, ast.UnaryOp) and isinstance(e.op, ast.USub):
        return _nbin(ast.Sub, ("int", 0), npfold(e.operand, env), e)
    if isinstance(e, ast.ListComp) and len(e.generators) == 1 and not e.generators[0].ifs and isinstance(e.generators[0].target, ast.Name):
        it = npfold(e.generators[0].iter, env)
        if not isinstance(it, NArr):
            raise NotConstant(unparse(e))
        out = []
        for v in it.vals:
            out.append(npfold(e.elt, {**env, e.generators[0].target.id: ("int", v)}))
        return _mk(out)
    if isinstance(e, (ast.List, ast.Tuple)):
        return _mk([npfold(x, env) for x in e.elts])
    if isinstance(e, ast.Call):
        fn = unparse(e.func)
        args = [npfold(a, env) for a in e.args]
        if fn in ("range", "np.arange", "numpy.arange") and 1 <= len(args) <= 2 and all(a[0] == "int" for a in args if not isinstance(a, NArr)):
            lo, hi = (0, args[0][1]) if len(args) == 1 else (args[0][1], args[1][1])
            return NArr(list(range(int(lo), int(hi))), "int64")
        if fn in ("np.array", "np.asarray", "numpy.array") and args:
            return args[0] if isinstance(args[0], NArr) else _mk([args[0]])
        if fn in ("factorial", "math.factorial", "scipy.special.factorial", "special.factorial") and len(args) == 1:
            a = args[0]
            if isinstance(a, NArr):
                return NArr([F(factorial(int(v))) for v in a.vals], "float64")      # scipy's factorial returns floats (exact below 2**53 ... the comparison is with exact values)
            return ("float", F(factorial(int(a[1]))))
        if fn in ("np.maximum", "np.minimum") and len(args) == 2:
            f_ = max if fn.endswith("maximum") else min
            a, b = args
            if isinstance(a, NArr) and not isinstance(b, NArr):
                return NArr([f_(v, b[1]) for v in a.vals], a.dtype if b[0] == "int" else "float64")
            if isinstance(b, NArr) and not isinstance(a, NArr):
                return NArr([f_(v, a[1]) for v in b.vals], b.dtype if a[0] == "int" else "float64")
        if fn in ("np.cumprod", "np.cumsum") and len(args) == 1 and isinstance(args[0], NArr):
            out, acc = [], (1 if fn.endswith("prod") else 0)
            for v in args[0].vals:
                acc = acc * v if fn.endswith("prod") else acc + v
                if args[0].dtype == "int64":
                    acc = NArr.wrap(acc)
                out.append(acc)
            return NArr(out, args[0].dtype)
        if fn in ("np.ones", "np.zeros") and len(args) == 1 and args[0][0] == "int":
            return NArr([F(1 if fn.endswith("ones") else 0)] * int(args[0][1]), "float64")
        if fn in ("float", "np.float64") and len(args) == 1 and not isinstance(args[0], NArr):
            return ("float", F(args[0][1]))
        if isinstance(e.func, ast.Attribute) and e.func.attr == "astype" and e.args:
            base = npfold(e.func.value, env)
            tt = unparse(e.args[0])
            if isinstance(base, NArr):
                return NArr([F(v) for v in base.vals], "float64") if "float" in tt else base
    raise NotConstant(unparse(e))


def _mk(items):
    if any(isinstance(x, NArr) for x in items):
        raise NotConstant("nested arrays")
    if all(x[0] == "int" for x in items):
        return NArr([x[1] for x in items], "int64")
    return NArr([F(x[1]) for x in items], "float64")


def _nbin(op, a, b, node):
    def el(x, i):
        return (x.vals[i], x.dtype) if isinstance(x, NArr) else (x[1], "int64" if x[0] == "int" else "float64")
    n = len(a.vals) if isinstance(a, NArr) else (len(b.vals) if isinstance(b, NArr) else None)
    if isinstance(a, NArr) and isinstance(b, NArr) and len(a.vals) != len(b.vals):
        raise NotConstant("shape mismatch")
    out = []
    for i in range(n if n is not None else 1):
        (x, tx), (y, ty) = el(a, i), el(b, i)
        if op is ast.Div:
            if y == 0:
                raise NotConstant("division by zero")
            v, tv = F(x) / F(y), "float64"
        elif op is ast.Pow:
            v, tv = (F(x) ** int(y), tx if ty == "int64" and y >= 0 else "float64")
        else:
            v = {ast.Add: x + y, ast.Sub: x - y, ast.Mult: x * y}.get(op)
            if v is None:
                raise NotConstant(unparse(node))
            tv = "int64" if tx == ty == "int64" else "float64"
        if tv == "int64":
            v = NArr.wrap(v)
        out.append((v, tv))
    if n is None:
        v, tv = out[0]
        return ("int" if tv == "int64" else "float", v)
    return NArr([v for v, _ in out], "int64" if all(t == "int64" for _, t in out) else "float64")
