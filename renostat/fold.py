"""FOLD - exact constant folding of literal expressions (numbers -> Fraction) and partial
evaluation of if/elif chains that dispatch on a string attribute.  No statement of /repo is run."""
import ast
from fractions import Fraction as F
from math import factorial

from .src import AnalysisError, unparse


class NotConstant(Exception):
    pass


def fold(node, env):
    """Fold an expression to Fraction / str / bool / list / tuple.  Raises NotConstant."""
    if isinstance(node, ast.Constant):
        v = node.value
        if isinstance(v, bool):
            return v
        if isinstance(v, int):
            return F(v)
        if isinstance(v, float):
            return F(repr(v))  # decimal-literal semantics: 0.5 is 1/2, 0.1 is 1/10
        if isinstance(v, str):
            return v
        raise NotConstant(unparse(node))
    if isinstance(node, ast.Name):
        if node.id in env:
            return env[node.id]
        raise NotConstant(node.id)
    if isinstance(node, ast.UnaryOp):
        v = fold(node.operand, env)
        if isinstance(node.op, ast.USub):
            return -v
        if isinstance(node.op, ast.UAdd):
            return v
        raise NotConstant(unparse(node))
    if isinstance(node, ast.BinOp):
        a, b = fold(node.left, env), fold(node.right, env)
        if not isinstance(a, F) or not isinstance(b, F):
            raise NotConstant(unparse(node))
        if isinstance(node.op, ast.Add):
            return a + b
        if isinstance(node.op, ast.Sub):
            return a - b
        if isinstance(node.op, ast.Mult):
            return a * b
        if isinstance(node.op, ast.Div):
            if b == 0:
                raise NotConstant("division by zero")
            return a / b
        if isinstance(node.op, ast.Pow) and b.denominator == 1:
            return a ** int(b)
        raise NotConstant(unparse(node))
    if isinstance(node, ast.List):
        return [fold(e, env) for e in node.elts]
    if isinstance(node, ast.Tuple):
        return tuple(fold(e, env) for e in node.elts)
    if isinstance(node, ast.Subscript):
        v = fold(node.value, env)
        if isinstance(v, (list, tuple)):
            if isinstance(node.slice, ast.Slice):
                lo = fold(node.slice.lower, env) if node.slice.lower else None
                hi = fold(node.slice.upper, env) if node.slice.upper else None
                if any(x is not None and not (isinstance(x, F) and x.denominator == 1) for x in (lo, hi)) or node.slice.step is not None:
                    raise NotConstant(unparse(node))
                return v[(int(lo) if lo is not None else None):(int(hi) if hi is not None else None)]
            i = fold(node.slice, env)
            if isinstance(i, F) and i.denominator == 1 and -len(v) <= int(i) < len(v):
                return v[int(i)]
        raise NotConstant(unparse(node))
    if isinstance(node, ast.Call):
        fn = unparse(node.func)
        if fn in ("np.array", "np.asarray", "numpy.array") and node.args:
            return fold(node.args[0], env)
        if fn in ("factorial", "math.factorial", "scipy.special.factorial") and len(node.args) == 1:
            v = fold(node.args[0], env)
            if isinstance(v, F) and v.denominator == 1 and v >= 0:
                return F(factorial(int(v)))
            raise NotConstant(unparse(node))
        if isinstance(node.func, ast.Attribute) and node.func.attr == "astype":
            return fold(node.func.value, env)
        if isinstance(node.func, ast.Attribute) and node.func.attr == "reshape":
            v = fold(node.func.value, env)
            shp = [fold(a, env) for a in node.args]
            if len(shp) == 1 and isinstance(shp[0], tuple):
                shp = list(shp[0])
            return reshape(v, shp)
    raise NotConstant(unparse(node))


def flat(v):
    if isinstance(v, (list, tuple)):
        out = []
        for x in v:
            out.extend(flat(x))
        return out
    return [v]


def reshape(v, shp):
    fl = flat(v)
    if len(shp) == 2 and shp[0] == -1 and isinstance(shp[1], F) and shp[1].denominator == 1:
        n = int(shp[1])
        if n <= 0 or len(fl) % n:
            raise NotConstant("reshape size mismatch")
        return [fl[i:i + n] for i in range(0, len(fl), n)]
    raise NotConstant(f"reshape {shp}")


def shape(v):
    if isinstance(v, (list, tuple)):
        if not v:
            return (0,)
        s0 = shape(v[0])
        for x in v[1:]:
            if shape(x) != s0:
                raise NotConstant("ragged")
        return (len(v),) + s0
    return ()


def partial_eval_dispatch(fn, attr_text, value, want):
    """Walk fn's body deciding tests of the form `<attr_text> == "lit"` / `<attr_text> in [..]` for the
    given value; fold assignments to simple names.  Returns env (names -> folded value or ('UNK', text)).
    `assert False` reached -> env['__assert_false__'] = True."""
    env = {}

    def cond(test):
        if isinstance(test, ast.Compare) and len(test.ops) == 1 and unparse(test.left) == attr_text:
            try:
                rhs = fold(test.comparators[0], {})
            except NotConstant:
                raise AnalysisError(f"dispatch test not constant: {unparse(test)}")
            if isinstance(test.ops[0], ast.Eq):
                return value == rhs
            if isinstance(test.ops[0], ast.NotEq):
                return value != rhs
            if isinstance(test.ops[0], ast.In):
                return value in rhs
            if isinstance(test.ops[0], ast.NotIn):
                return value not in rhs
        raise AnalysisError(f"unsupported dispatch test in {fn.name}: {unparse(test)}")

    def run(stmts):
        for s in stmts:
            if isinstance(s, ast.If):
                run(s.body if cond(s.test) else s.orelse)
            elif isinstance(s, ast.Assign) and len(s.targets) == 1 and isinstance(s.targets[0], ast.Name):
                try:
                    env[s.targets[0].id] = fold(s.value, env)
                except NotConstant as e:
                    env[s.targets[0].id] = ("UNK", unparse(s.value), str(e))
            elif isinstance(s, ast.Assign) and len(s.targets) == 1 and isinstance(s.targets[0], ast.Tuple) and all(isinstance(t, ast.Name) for t in s.targets[0].elts):
                names = [t.id for t in s.targets[0].elts]
                vals = s.value.elts if isinstance(s.value, ast.Tuple) and len(s.value.elts) == len(names) else None
                if vals is None:
                    try:
                        whole = fold(s.value, env)
                        vals_f = list(whole) if isinstance(whole, (list, tuple)) and len(whole) == len(names) else None
                    except NotConstant:
                        vals_f = None
                    for i_, nme in enumerate(names):
                        env[nme] = vals_f[i_] if vals_f is not None else ("UNK", unparse(s.value), "tuple")
                else:
                    new = []
                    for v_ in vals:       # right-hand side is evaluated before any target is bound
                        try:
                            new.append(fold(v_, env))
                        except NotConstant as e:
                            new.append(("UNK", unparse(v_), str(e)))
                    for nme, v_ in zip(names, new):
                        env[nme] = v_
            elif isinstance(s, ast.Assert):
                if isinstance(s.test, ast.Constant) and s.test.value is False:
                    env["__assert_false__"] = True
                    return
            elif isinstance(s, ast.Return):
                env["__return__"] = s.value
                return
            elif isinstance(s, (ast.Expr, ast.Pass)):
                continue
            elif isinstance(s, ast.Raise):
                env["__assert_false__"] = True
                return
            else:
                raise AnalysisError(f"unsupported statement in {fn.name}: {unparse(s)[:80]}")

    run(fn.body)
    return env
