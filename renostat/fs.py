"""FS - abstract interpretation of a file-writing protocol over abstract directory states.

A function's body is reduced to its file-system effects on symbolic paths.  Each path is in one of
  A (absent)  P (partial / not loadable)  C (complete, loadable)
The interpreter follows `os.path.exists` guards path-sensitively, forks on every other condition, and
records the abstract directory after every effect (= every crash instant; a writer has one inside).
The set of start states is closed under "crash anywhere, then run the protocol again".
Nothing is executed; unknown file-system calls end the analysis (AnalysisError).
"""
import ast

from .src import AnalysisError, unparse

A, P, C = "absent", "partial", "complete"

REMOVE = {"os.remove", "os.unlink"}
MOVE = {"os.rename", "os.replace", "shutil.move"}
COPY = {"shutil.copy", "shutil.copyfile", "shutil.copy2"}
WRITE = {"np.savez", "np.savez_compressed", "np.save", "numpy.savez"}
NOEFFECT = {"os.makedirs", "os.mkdir", "os.path.join", "os.path.exists", "os.path.dirname", "os.path.basename",
            "os.path.abspath", "os.getpid", "os.fspath", "os.path.isfile", "os.path.splitext"}
EXISTS = {"os.path.exists", "os.path.isfile"}


class Proto:
    """Protocol extracted from one function: a tree of abstract statements."""

    def __init__(self, fn, writer_methods=("dump",)):
        self.fn = fn
        self.defs = {}
        self.writer_methods = set(writer_methods)
        self._collect_defs(fn.body)

    def _collect_defs(self, stmts):
        for s in ast.walk(self.fn):
            if isinstance(s, ast.Assign) and len(s.targets) == 1 and isinstance(s.targets[0], ast.Name):
                self.defs.setdefault(s.targets[0].id, []).append(s.value)

    def path(self, e):
        """Resolved symbolic path text: local names with a single definition are substituted."""
        class Sub(ast.NodeTransformer):
            def __init__(s, outer, depth):
                s.outer, s.depth = outer, depth

            def visit_Name(s, n):
                ds = s.outer.defs.get(n.id)
                if ds and len(ds) == 1 and s.depth < 8:
                    return Sub(s.outer, s.depth + 1).visit(ast.parse(unparse(ds[0]), mode="eval").body)
                return n
        return unparse(Sub(self, 0).visit(ast.parse(unparse(e), mode="eval").body))


class Run:
    def __init__(self, proto, primary, family_of):
        self.p = proto
        self.primary = primary
        self.family_of = family_of
        self.crash_states = []   # (state dict, trace list, line)
        self.final_states = []
        self.transitions = 0

    # state: tuple of sorted (path, st)
    def execute(self, start):
        self._block(self.p.fn.body, dict(start), [], None)

    def _snap(self, st, trace, line):
        self.transitions += 1
        self.crash_states.append((dict(st), list(trace), line))

    def _block(self, stmts, st, trace, handlers):
        """Returns list of (state, trace, ctl) continuations; ctl in {None, 'return', 'raise'}"""
        conts = [(st, trace, None)]
        for s in stmts:
            nxt = []
            for (cst, ctr, ctl) in conts:
                if ctl is not None:
                    nxt.append((cst, ctr, ctl))
                else:
                    nxt.extend(self._stmt(s, cst, ctr))
            conts = nxt
        if stmts is self.p.fn.body:
            for cst, ctr, ctl in conts:
                self.final_states.append((dict(cst), list(ctr), ctl))
        return conts

    def _exists_test(self, test):
        """Return (path, positive) if test is [not] os.path.exists(path) else None"""
        pos = True
        t = test
        while isinstance(t, ast.UnaryOp) and isinstance(t.op, ast.Not):
            pos = not pos
            t = t.operand
        if isinstance(t, ast.Call) and unparse(t.func) in EXISTS and t.args:
            return self.p.path(t.args[0]), pos
        return None

    def _has_fs(self, node):
        for n in ast.walk(node):
            if isinstance(n, ast.Call) and self._classify(n)[0] not in (None, "noeffect"):
                return True
        return False

    def _classify(self, call):
        f = unparse(call.func)
        if f in REMOVE:
            return "remove", [self.p.path(call.args[0])]
        if f in MOVE:
            return "move", [self.p.path(call.args[0]), self.p.path(call.args[1])]
        if f in COPY:
            return "copy", [self.p.path(call.args[0]), self.p.path(call.args[1])]
        if f in WRITE:
            return "write", [self.p.path(call.args[0])]
        if f in NOEFFECT:
            return "noeffect", []
        if f.startswith(("os.", "shutil.", "pathlib.", "tempfile.")) or f == "open":
            return "unknown", [f]
        if isinstance(call.func, ast.Attribute) and call.func.attr in self.p.writer_methods and call.args:
            return "write", [self.p.path(call.args[0])]
        return None, []

    def _effects(self, node, st, trace):
        """Apply the FS effects of every call inside an expression statement, in evaluation order (post-order)."""
        conts = [(st, trace, None)]
        calls = [n for n in ast.walk(node) if isinstance(n, ast.Call)]
        calls.sort(key=lambda c: (c.end_lineno, c.end_col_offset))
        for c in calls:
            kind, args = self._classify(c)
            if kind in (None, "noeffect"):
                continue
            if kind == "unknown":
                raise AnalysisError(f"file-system call not understood by the FS engine: {unparse(c)[:80]} (line {c.lineno})")
            nxt = []
            for cst, ctr, ctl in conts:
                if ctl is not None:
                    nxt.append((cst, ctr, ctl))
                    continue
                cst = dict(cst)
                if kind == "remove":
                    p = args[0]
                    if cst.get(p, A) == A:
                        nxt.append((cst, ctr + [f"remove({p}) raises FileNotFoundError"], "raise"))
                        continue
                    cst[p] = A
                    t2 = ctr + [f"remove({p})"]
                    self._snap(cst, t2, c.lineno)
                    nxt.append((cst, t2, None))
                elif kind == "move":
                    a, b = args
                    if cst.get(a, A) == A:
                        nxt.append((cst, ctr + [f"move({a}) raises FileNotFoundError"], "raise"))
                        continue
                    cst[b] = cst[a]
                    cst[a] = A
                    t2 = ctr + [f"{unparse(c.func)}({a} -> {b})"]
                    self._snap(cst, t2, c.lineno)
                    nxt.append((cst, t2, None))
                elif kind == "copy":
                    a, b = args
                    if cst.get(a, A) == A:
                        nxt.append((cst, ctr + [f"copy({a}) raises"], "raise"))
                        continue
                    src_state = cst[a]
                    cst[b] = P
                    t1 = ctr + [f"copy({a} -> {b}) [crash inside copy]"]
                    self._snap(cst, t1, c.lineno)
                    cst2 = dict(cst)
                    cst2[b] = src_state
                    t2 = ctr + [f"copy({a} -> {b}) done"]
                    self._snap(cst2, t2, c.lineno)
                    nxt.append((cst2, t2, None))
                    # copy may fail half way with an exception
                    nxt.append((cst, ctr + [f"copy({a} -> {b}) raises OSError half way"], "raise"))
                elif kind == "write":
                    p = args[0]
                    cst[p] = P
                    t1 = ctr + [f"write({p}) [crash inside write]"]
                    self._snap(cst, t1, c.lineno)
                    cst2 = dict(cst)
                    cst2[p] = C
                    t2 = ctr + [f"write({p}) done"]
                    self._snap(cst2, t2, c.lineno)
                    nxt.append((cst2, t2, None))
                    # the writer may raise IOError (disk full) leaving a partial file
                    nxt.append((cst, ctr + [f"write({p}) raises IOError half way"], "raise"))
            conts = nxt
        return conts

    def _stmt(self, s, st, trace):
        if isinstance(s, ast.If):
            ex = self._exists_test(s.test)
            if ex is not None:
                p, pos = ex
                present = st.get(p, A) != A
                taken = s.body if (present == pos) else s.orelse
                return self._block(taken, st, trace + [f"exists({p}) is {present}"], None)
            if not self._has_fs(s):
                return [(st, trace, None)]
            pre = self._effects(s.test, st, trace)
            out = []
            for cst, ctr, ctl in pre:
                if ctl is not None:
                    out.append((cst, ctr, ctl))
                    continue
                out.extend(self._block(s.body, dict(cst), ctr + [f"if {unparse(s.test)[:40]}: taken"], None))
                out.extend(self._block(s.orelse, dict(cst), ctr + [f"if {unparse(s.test)[:40]}: not taken"], None))
            return out
        if isinstance(s, ast.Try):
            body = self._block(s.body, st, trace, None)
            out = []
            for cst, ctr, ctl in body:
                if ctl == "raise" and s.handlers:
                    # any handler may catch it (over-approximation: also may not)
                    for h in s.handlers:
                        out.extend(self._block(h.body, dict(cst), ctr + [f"except {unparse(h.type) if h.type else ''}"], None))
                    out.append((cst, ctr, "raise"))
                elif ctl is None and s.orelse:
                    out.extend(self._block(s.orelse, cst, ctr, None))
                else:
                    out.append((cst, ctr, ctl))
            if s.finalbody:
                fin = []
                for cst, ctr, ctl in out:
                    for c2, t2, l2 in self._block(s.finalbody, dict(cst), ctr + ["finally"], None):
                        fin.append((c2, t2, l2 if l2 is not None else ctl))
                out = fin
            return out
        if isinstance(s, ast.With):
            pre = [(st, trace, None)]
            for it in s.items:
                nxt = []
                for cst, ctr, ctl in pre:
                    nxt.extend(self._effects(it.context_expr, cst, ctr) if ctl is None else [(cst, ctr, ctl)])
                pre = nxt
            out = []
            for cst, ctr, ctl in pre:
                out.extend(self._block(s.body, cst, ctr, None) if ctl is None else [(cst, ctr, ctl)])
            return out
        if isinstance(s, (ast.For, ast.While, ast.AsyncFor)):
            if self._has_fs(s):
                raise AnalysisError(f"file-system effect inside a loop is outside the FS engine's fragment (line {s.lineno})")
            return [(st, trace, None)]
        if isinstance(s, ast.Return):
            conts = self._effects(s, st, trace) if s.value is not None else [(st, trace, None)]
            return [(c, t, l or "return") for c, t, l in conts]
        if isinstance(s, ast.Raise):
            return [(st, trace + ["raise"], "raise")]
        if isinstance(s, (ast.FunctionDef, ast.ClassDef)):
            if self._has_fs(s):
                raise AnalysisError(f"nested definition with file-system effects (line {s.lineno})")
            return [(st, trace, None)]
        # simple statements
        return self._effects(s, st, trace)


def explore(fn_node, primary_arg_pred, writer_methods=("dump",)):
    """Closure of start states under crash-and-restart; returns dict with states, violations, samples."""
    proto = Proto(fn_node, writer_methods)
    # primary path: first arg of the write call selected by predicate
    primary = None
    wnode = None
    for n in ast.walk(fn_node):
        if isinstance(n, ast.Call) and unparse(n.func) in WRITE and primary_arg_pred(n):
            primary = proto.path(n.args[0])
            wnode = n
    if primary is None:
        raise AnalysisError("result-file writer call (np.savez(path, **dict)) not found in the protocol function")
    # the result file is where the written data finally lives: follow renames/replaces of the written
    # path that come after the write in program order (write-to-temporary-then-replace protocols)
    temp_paths = set()
    moved = True
    hops = 0
    while moved and hops < 4:
        moved = False
        for n in ast.walk(fn_node):
            if isinstance(n, ast.Call) and unparse(n.func) in MOVE and len(n.args) >= 2 \
                    and (n.lineno, n.col_offset) > (wnode.lineno, wnode.col_offset) and proto.path(n.args[0]) == primary:
                temp_paths.add(primary)
                primary = proto.path(n.args[1])
                moved = True
                hops += 1
                break

    def family(p):
        return primary in p

    # tracked family paths: every path touched by an effect whose text contains the primary text
    fam = set()
    tmp = Run(proto, primary, family)
    for n in ast.walk(fn_node):
        if isinstance(n, ast.Call):
            kind, args = tmp._classify(n)
            if kind in ("remove", "move", "copy", "write"):
                for a in args:
                    if family(a):
                        fam.add(a)
            t = tmp._exists_test(n) if False else None
        if isinstance(n, ast.Call) and unparse(n.func) in EXISTS and n.args:
            pth = proto.path(n.args[0])
            if family(pth):
                fam.add(pth)
    fam = sorted(fam)
    # every abstract directory state is a start state (superset of the closure under crash-and-restart:
    # also covers directories left behind by an earlier version of the protocol)
    import itertools
    if len(fam) > 5:
        raise AnalysisError(f"protocol touches {len(fam)} result-family paths; state space too large for exhaustive start states")
    seen = {}
    work = []
    for combo in itertools.product((A, P, C), repeat=len(fam)):
        k = tuple(zip(fam, combo))
        seen[k] = None
        work.append(k)
    violations = []
    transitions = 0
    samples = []
    crash_points = set()
    while work:
        start = work.pop()
        run = Run(proto, primary, family)
        run.execute(dict(start))
        transitions += run.transitions
        def has_result(key):
            return any(v == C for pth, v in key if pth not in temp_paths)
        had_complete = has_result(start)
        for st, trace, line in run.crash_states:
            key = tuple((p, st.get(p, A)) for p in fam)
            crash_points.add(line)
            if had_complete and not has_result(key):
                violations.append({"start": dict(start), "after": trace[-1], "state": dict(key), "trace": trace, "line": line})
            if key not in seen:
                seen[key] = (start, trace)
                work.append(key)
        for st, trace, ctl in run.final_states:
            key = tuple((p, st.get(p, A)) for p in fam)
            if had_complete and not has_result(key):
                violations.append({"start": dict(start), "after": "function exit (" + str(ctl) + ")", "state": dict(key), "trace": trace, "line": None})
            # a normal (non-raising) completion must leave the primary complete
            if ctl != "raise" and dict(key).get(primary) != C:
                violations.append({"start": dict(start), "after": "normal completion without a complete primary file",
                                   "state": dict(key), "trace": trace, "line": None})
            if key not in seen:
                seen[key] = (start, trace)
                work.append(key)
        if len(samples) < 6:
            samples.append({"start": dict(start), "crash_instants": len(run.crash_states),
                            "example_trace": run.crash_states[-1][1] if run.crash_states else []})
    return {"primary": primary, "family": fam, "temp_paths": sorted(temp_paths), "states": len(seen), "transitions": transitions,
            "violations": violations, "samples": samples, "start_states": [dict(k) for k in seen],
            "crash_lines": sorted(x for x in crash_points if x)}
