"""LABEL - tree label schema (DESIGN.md 3.3): symbolic evaluation of the label producers and of the contraction-building
functions of the tree code on symbolic trees.

    bond label      (owner id, DOFS(parent end), DOFS(child end))           [root: (id, "root", DOFS(root))]
    physical label  ("down", dofs) on kets, ("up", dofs) on bras; operators interleave ("up", "down") = (row, column)
    node axis order children..., physical..., parent

A `World` holds three parallel symbolic trees (state, operator, environment) of one topology.  Tensors are symbolic `T`
objects with a *leg identity list* (which bond / physical index each axis is); contractions recorded from the interpreted
source are checked by `check_network`: the labels must be a one-to-one function of the leg identities.
"""
import ast

from .src import AnalysisError, unparse
from .syminterp import Sym, SymDict, SymInterp, Blob

TREE = "renormalizer/tn/tree.py"


class Dim:
    """symbolic dimension (product of named dims)"""
    def __init__(self, names):
        self.names = tuple(names)

    def __mul__(self, o):
        return Dim(self.names + o.names) if isinstance(o, Dim) else self

    __rmul__ = __mul__

    def __eq__(self, o):
        return isinstance(o, Dim) and self.names == o.names

    def __ne__(self, o):
        return not self.__eq__(o)

    def __hash__(self):
        return hash(self.names)

    def __repr__(self):
        return "*".join(self.names)


class T(Sym):
    """symbolic tensor: legs = list of leg identities"""
    def __init__(self, name, legs, conj=False):
        super().__init__(name)
        self.legs = list(legs)
        self.is_conj = conj
        # the bond above the root has dimension one
        self.shape = tuple(1 if (len(l) > 1 and isinstance(l[1], tuple) and l[1][0] == "root") else Dim([str(l)]) for l in self.legs)
        self.ndim = len(self.legs)

    @property
    def size(self):
        from .syminterp import Blob
        return Blob("number of elements")

    def conj(self):
        return T(self._name + ".conj()", [flip(l) for l in self.legs], not self.is_conj)

    def reshape(self, *a):
        return self

    def ravel(self):
        return self

    def squeeze(self):
        return T(self._name, [l for l, d in zip(self.legs, self.shape) if not (isinstance(d, int) and d == 1)], self.is_conj)


def flip(leg):
    """leg identity of the complex-conjugated tensor: ket side <-> bra side"""
    kind = leg[0]
    return ({"ket": "bra", "bra": "ket", "kphys": "bphys", "bphys": "kphys"}.get(kind, kind),) + tuple(leg[1:])


class Node(Sym):
    def __init__(self, name, nsets, role="s"):
        super().__init__(name)
        self.children = []
        self.parent = None
        self.dofs_s = tuple(f"{name}.s{k}" for k in range(nsets))
        self.dofs_o = tuple(f"{name}.s{k}" for k in range(nsets))
        self.nsets = nsets
        self.idx = None
        self.role = role
        self.version = 0

    def link(self, child):
        self.children.append(child)
        child.parent = self

    @property
    def bond_up(self):
        return (self.parent._name if self.parent else "root", self._name)

    def finish(self):
        """create the symbolic tensors once the topology is known"""
        n = self._name
        ch = [(n, c._name) for c in self.children]
        if self.role == "s":
            legs = [("ket", b) for b in ch] + [("kphys", n, k) for k in range(self.nsets)] + [("ket", self.bond_up)]
            self.__dict__["tensor"] = T(f"{n}.tensor", legs)
        elif self.role == "o":
            legs = [("op", b) for b in ch]
            for k in range(self.nsets):
                legs += [("bphys", n, k), ("kphys", n, k)]
            legs += [("op", self.bond_up)]
            self.__dict__["tensor"] = T(f"O{n}.tensor", legs)
        else:
            self.__dict__["environ_children"] = [T(f"envc({n},{i})", [("bra", b), ("op", b), ("ket", b)]) for i, b in enumerate(ch)]
            self.__dict__["environ_parent"] = T(f"envp({n})", [("bra", self.bond_up), ("op", self.bond_up), ("ket", self.bond_up)])

    @property
    def shape(self):
        return self.__dict__["tensor"].shape

    @property
    def idx_as_child(self):
        return self.parent.children.index(self)

    def __setattr__(self, k, v):
        if k == "tensor" and "tensor" in self.__dict__:
            hook = self.__dict__.get("_on_tensor_set")
            if hook:
                hook(self, v)
                return
        object.__setattr__(self, k, v)

    def __getattr__(self, item):
        raise AnalysisError(f"symbolic node has no attribute {item}")


TOPOLOGIES = {
    # name: list of (node, n_sets, parent); first entry is the root; order = pre-order (node_list order)
    "generic": [("R", 1, None), ("A", 2, "R"), ("A1", 1, "A"), ("B", 1, "R")],
    "chain": [("R", 1, None), ("A", 1, "R"), ("B", 1, "A")],
    "binary": [("R", 1, None), ("A", 1, "R"), ("A1", 1, "A"), ("A2", 1, "A"), ("B", 1, "R"), ("B1", 1, "B")],
    "ternary": [("R", 2, None), ("A", 1, "R"), ("B", 2, "R"), ("B1", 1, "B"), ("C", 1, "R"), ("C1", 1, "C"), ("C2", 3, "C")],
    "star": [("R", 1, None), ("A", 1, "R"), ("B", 1, "R"), ("C", 1, "R")],
    "two": [("R", 1, None), ("A", 1, "R")],
}


def build_tree(spec, role):
    nodes = {}
    order = []
    for name, nsets, parent in spec:
        n = Node(name, nsets, role)
        nodes[name] = n
        order.append(n)
        if parent:
            nodes[parent].link(n)
    for i, n in enumerate(order):
        n.idx = i
        n.finish()
    return order


def generic_tree():
    return build_tree(TOPOLOGIES["generic"], "s")


class TreeSym(Sym):
    def __iter__(self):
        return iter(self.node_list)

    def __len__(self):
        return len(self.node_list)


class World:
    """symbolic ttns / ttno / ttne sharing one topology"""

    def __init__(self, src, skip=None, topology="generic", extra_builtins=None, dummy_op=False):
        self.src = src
        spec = TOPOLOGIES[topology]
        self.topology = topology
        self.snodes = build_tree(spec, "s")
        self.onodes = build_tree(spec, "o")
        self.enodes = build_tree(spec, "e")
        self.nodes = self.snodes
        self.skip = skip or {}
        if dummy_op:
            # TTNO.dummy: one dummy basis set with its own dof per node; no physical index of the state is acted on
            self.skip = {n._name: list(range(n.nsets)) for n in self.snodes}
            for o in self.onodes:
                o.dofs_o = (f"{o._name}.dummy",)
                o.__dict__["tensor"] = T(o.tensor._name, [l for l in o.tensor.legs if l[0] == "op"])
        elif self.skip:
            # the operator does not act on the skipped physical indices: its tensors have no such legs
            for o in self.onodes:
                sk = self.skip.get(o._name, [])
                if sk:
                    o.dofs_o = tuple(d for k, d in enumerate(o.dofs_o) if k not in sk)
                    o.__dict__["tensor"] = T(o.tensor._name, [l for l in o.tensor.legs if not (l[0] in ("bphys", "kphys") and l[2] in sk)])
        basis = Sym("basis", basis_list=[Sym(f"basis({d})", dofs=d) for n in self.snodes for d in n.dofs_s], qn_size=1)
        tn2bn = SymDict(lambda x: Sym(f"bn({x})", n_sets=x.nsets, dofs=list(x.dofs_s), basis_sets=[Sym("b", sigmaqn=Blob())] * x.nsets))
        self.ttns = TreeSym("ttns", tn2dofs=SymDict(lambda x: x.dofs_s), node_idx=SymDict(lambda x: x.idx), node_list=self.snodes, root=self.snodes[0], basis=basis, tn2bn=tn2bn)
        self.ttno = TreeSym("ttno", tn2dofs=SymDict(lambda x: x.dofs_o), node_idx=SymDict(lambda x: x.idx), node_list=self.onodes, root=self.onodes[0], basis=basis)
        self.ttne = TreeSym("ttne", tn2dofs_ttns=SymDict(lambda x: x.dofs_s), tn2dofs_ttno=SymDict(lambda x: self.onodes[x.idx].dofs_o), node_list=self.enodes, root=self.enodes[0])
        self.f = {
            "S": src.func(TREE, "TTNS.get_node_indices"),
            "O": src.func(TREE, "TTNO.get_node_indices"),
            "EC": src.func(TREE, "TTNEnviron.get_child_indices"),
            "EP": src.func(TREE, "TTNEnviron.get_parent_indices"),
        }
        self.methods = {
            "ttns": {"get_node_indices": self.f["S"], "to_contract_args": src.func(TREE, "TTNS.to_contract_args"), "merge_with_parent": src.func(TREE, "TTNS.merge_with_parent")},
            "ttno": {"get_node_indices": self.f["O"], "to_contract_args": src.func(TREE, "TTNO.to_contract_args")},
            "ttne": {"get_child_indices": self.f["EC"], "get_parent_indices": self.f["EP"]},
        }
        self.overrides = {}
        # any other method of the three classes is taken from the source (class hierarchy): helpers extracted by a refactoring are followed
        self._mro = {}
        for who, cname in (("ttns", "TTNS"), ("ttno", "TTNO"), ("ttne", "TTNEnviron")):
            try:
                self._mro[who] = src.mro(src.cls(TREE, cname))
            except Exception:      # noqa: BLE001 - class renamed: the explicit tables above still work
                self._mro[who] = []

        def resolver(recv, name):
            if isinstance(recv, T) and name in ("conj", "squeeze"):
                return getattr(recv, name)
            for who in ("ttns", "ttno", "ttne"):
                if recv is getattr(self, who):
                    if (who, name) in self.overrides:
                        return self.overrides[(who, name)]
                    if name in self.methods[who]:
                        return self.methods[who][name]
                    if not (isinstance(recv, Sym) and name in recv.__dict__):
                        for ci in self._mro[who]:
                            if name in ci.methods:
                                return ci.methods[name]
            if isinstance(recv, Sym) and name in recv.__dict__ and callable(recv.__dict__[name]):
                return recv.__dict__[name]
            if isinstance(recv, Sym) and not isinstance(recv, Node) and callable(getattr(type(recv), name, None)):
                return getattr(recv, name)
            return None
        b = {"get_skip_pidx": lambda node, ttns, ttno: list(self.skip.get(node._name, [])) if ttno is not None else [],
             "asxp_oe_args": lambda a: a, "asnumpy": lambda a: a, "asxp": lambda a: a}
        b.update(extra_builtins or {})
        self.interp = SymInterp(src, resolver, builtins=b)

    def o(self, node):
        return self.onodes[node.idx]

    def e(self, node):
        return self.enodes[node.idx]

    def S(self, node, **kw):
        return self.interp.call_function(self.f["S"], [self.ttns, node], kw)

    def O(self, node, **kw):
        return self.interp.call_function(self.f["O"], [self.ttno, self.o(node)], kw)

    def EC(self, node, i):
        return self.interp.call_function(self.f["EC"], [self.ttne, self.e(node), i, self.ttns, self.ttno])

    def EP(self, node):
        return self.interp.call_function(self.f["EP"], [self.ttne, self.e(node), self.ttns, self.ttno])


def bond(owner, parent_end, child_end, conj=False):
    pid = f"ID({owner!r})" + ("_conj" if conj else "")
    p = "root" if parent_end is None else str(parent_end)
    return (pid, p, str(child_end))


# ------------------------------------------------------------------------------------------------ network check
def split_args(args):
    """[T0, L0, T1, L1, ..., out] -> ([(T, L)], out or None)"""
    pairs = []
    i = 0
    while i + 1 < len(args) and isinstance(args[i], T):
        pairs.append((args[i], list(args[i + 1])))
        i += 2
    out = list(args[i]) if i < len(args) else None
    if i + 1 < len(args):
        raise AnalysisError("contraction argument list is not (tensor, labels)* [output]")
    return pairs, out


def check_network(pairs, out, direct=(), dangling_ok=()):
    """labels must be a one-to-one function of the leg identities.
    `direct`: set of (node, k) physical indices on which no operator acts: ket and bra physical legs are then the same index.
    `dangling_ok`: leg kinds that may appear only once (bonds of a bond-dimension-one operator that is not part of the network).
    Returns (problems, label->identity map)."""
    probs = []
    lab2id, id2lab = {}, {}
    count = {}

    def norm(leg):
        if leg[0] == "kphys" and (leg[1], leg[2]) in direct:
            return ("bphys",) + tuple(leg[1:])
        return leg
    for t, labs in pairs:
        if len(labs) != len(t.legs):
            probs.append(f"{t!r} has {len(t.legs)} axes but {len(labs)} labels")
            continue
        for leg, lab in zip(t.legs, labs):
            leg = norm(leg)
            lab = _h(lab)
            count[lab] = count.get(lab, 0) + 1
            if lab in lab2id and lab2id[lab] != leg:
                probs.append(f"label {lab} joins two different legs: {lab2id[lab]} and {leg} (on {t!r})")
            lab2id.setdefault(lab, leg)
            if leg in id2lab and id2lab[leg] != lab:
                probs.append(f"leg {leg} carries two labels: {id2lab[leg]} and {lab} (on {t!r}): the two tensors sharing it are not contracted with each other")
            id2lab.setdefault(leg, lab)
    out_ids = None
    if out is not None:
        out_ids = []
        for lab in out:
            lab = _h(lab)
            if lab not in lab2id:
                probs.append(f"output label {lab} is on no tensor")
                out_ids.append(None)
                continue
            count[lab] = count.get(lab, 0) + 1
            out_ids.append(lab2id[lab])
        for lab, c in count.items():
            if c != 2 and lab2id[lab][0] not in dangling_ok:
                probs.append(f"label {lab} (leg {lab2id[lab]}) occurs {c} time(s): every index is either contracted between two tensors or is an output")
    return probs, out_ids


def _h(lab):
    return tuple(_h(x) for x in lab) if isinstance(lab, (list, tuple)) else lab
