"""Normal form of a function modulo behaviour-preserving respellings, and substitution of the reference function.

Most rules are written against the shapes of the reference tree (the tree the rules were confirmed on by hand).  A respelling that cannot change
behaviour must not change a verdict.  Instead of teaching every rule every spelling, the source model compares, for every top-level function /
method, a *normal form* of the function with the normal form recorded for the reference tree (`reference_skeleton.json`).  If they are identical
the function is the reference function up to the respellings listed below, and the rules are given the reference function (re-parsed from the
recorded source, line numbers shifted to the function's place in the current file).  A function whose normal form differs is analysed as it is.

Respellings the normal form is invariant under (each is behaviour-preserving on its own, so any combination is):
  N1  names of local variables, comprehension variables excluded (scoped alpha-renaming, alpha.py)
  N2  doc strings, type annotations, messages of assert statements, `pass`, logging statements whose arguments call nothing
  N3  `if c: A else: B`  <->  `if not c: B else: A` (statements and conditional expressions); double negation, De Morgan and `not (a == b)` <->
      `a != b`, `not (a is b)`, `not (a in b)` inside tests
  N4  a comparison with a literal written the other way round (`x > 1` <-> `1 < x`, `x == 'qr'` <-> `'qr' == x`)
  N5  order of keyword arguments of a call
  N6  `t = e; return t` <-> `return e` when t is not used elsewhere
  N7  `t = e; S[t]` <-> `S[e]` when t is bound once, read once, in the next statement, at the position that is evaluated first there
  N8  `if c: ...; return x  else: B` <-> `if c: ...; return x` followed by B (also raise / continue / break, and the mirrored orientation)
  N9  `X.T.conj()` <-> `X.conj().T`
  N10 positional <-> keyword passing of an argument, for calls whose callee name has one parameter list in the whole package (and a few numpy functions)
Not covered (such a change is analysed as written): anything that reorders effects, changes an expression algebraically, restructures loops, or
moves code between functions."""
import ast
import copy
import hashlib

from . import alpha

_FLIP = {ast.Lt: ast.Gt, ast.Gt: ast.Lt, ast.LtE: ast.GtE, ast.GtE: ast.LtE, ast.Eq: ast.Eq, ast.NotEq: ast.NotEq}
_NEG = {ast.Eq: ast.NotEq, ast.NotEq: ast.Eq, ast.Is: ast.IsNot, ast.IsNot: ast.Is, ast.In: ast.NotIn, ast.NotIn: ast.In}


def _neg(t):
    """negation of a test already in negation normal form; _neg(_neg(t)) is t structurally"""
    if isinstance(t, ast.UnaryOp) and isinstance(t.op, ast.Not):
        return t.operand
    if isinstance(t, ast.BoolOp):
        return ast.BoolOp(op=ast.Or() if isinstance(t.op, ast.And) else ast.And(), values=[_neg(v) for v in t.values])
    if isinstance(t, ast.Compare) and len(t.ops) == 1 and type(t.ops[0]) in _NEG:
        return ast.Compare(left=t.left, ops=[_NEG[type(t.ops[0])]()], comparators=t.comparators)
    return ast.UnaryOp(op=ast.Not(), operand=t)


def _nnf(t):
    """negation normal form of an expression in test position"""
    if isinstance(t, ast.UnaryOp) and isinstance(t.op, ast.Not):
        return _neg(_nnf(t.operand))
    if isinstance(t, ast.BoolOp):
        return ast.BoolOp(op=t.op, values=[_nnf(v) for v in t.values])
    return t


def _key(t):
    s = ast.unparse(t)
    return (len(s), s)


def _pure_args(call):
    """arguments of a logging call that call nothing (attribute reads, names, literals, f-strings, arithmetic)"""
    for a in list(call.args) + [k.value for k in call.keywords]:
        for x in ast.walk(a):
            if isinstance(x, (ast.Call, ast.Await, ast.Yield, ast.YieldFrom, ast.NamedExpr)):
                return False
    return True


def _is_logging(st):
    return isinstance(st, ast.Expr) and isinstance(st.value, ast.Call) and isinstance(st.value.func, ast.Attribute) and isinstance(st.value.func.value, ast.Name) \
        and st.value.func.value.id in ("logger", "logging") and st.value.func.attr in ("debug", "info", "warning", "warn", "error") and _pure_args(st.value)


def _falls_through(stmts):
    """False when the last statement of the block always leaves it (return / raise / continue / break, or an if whose branches all do)"""
    if not stmts:
        return True
    last = stmts[-1]
    if isinstance(last, (ast.Return, ast.Raise, ast.Continue, ast.Break)):
        return False
    if isinstance(last, ast.If) and last.orelse:
        return _falls_through(last.body) or _falls_through(last.orelse)
    return True


def _first_evaluated(e):
    """the sub-expression evaluated first when e is evaluated (leftmost spine)"""
    while True:
        if isinstance(e, ast.Call):
            e = e.func
        elif isinstance(e, (ast.Attribute, ast.Subscript, ast.Starred)):
            e = e.value
        elif isinstance(e, ast.BinOp):
            e = e.left
        elif isinstance(e, ast.Compare):
            e = e.left
        elif isinstance(e, ast.UnaryOp):
            e = e.operand
        elif isinstance(e, (ast.Tuple, ast.List)) and e.elts:
            e = e.elts[0]
        else:
            return e


_NP_SIGS = {"tensordot": ["a", "b", "axes"], "moveaxis": ["a", "source", "destination"], "transpose": ["a", "axes"], "zeros": ["shape", "dtype"], "ones": ["shape", "dtype"],
            "array": ["object", "dtype"], "asarray": ["a", "dtype"], "allclose": ["a", "b", "rtol", "atol"], "isclose": ["a", "b", "rtol", "atol"], "concatenate": ["arrays", "axis"],
            "linspace": ["start", "stop", "num"], "arange": None, "reshape": ["a", "newshape"], "sum": ["a", "axis"], "argsort": ["a", "axis"]}
_STOP = {"copy", "dot", "conj", "reshape", "append", "get", "pop", "update", "format", "join", "split", "sum", "max", "min", "sort", "index", "insert", "extend", "astype", "transpose", "ravel",
         "flatten", "any", "all", "items", "keys", "values", "read", "write", "close", "load", "dump", "save", "array", "zeros", "ones", "scale", "norm", "real", "imag", "T"}


def collect_signatures(modules):
    """{function name: parameter list} for names defined exactly once in the package (or several times with the same parameter list); methods without their receiver"""
    seen = {}
    for mod in modules.values():
        for n in ast.walk(mod):
            if isinstance(n, ast.ClassDef):
                for m in n.body:
                    if isinstance(m, (ast.FunctionDef, ast.AsyncFunctionDef)):
                        m._nf_method = True
        for n in ast.walk(mod):
            if isinstance(n, (ast.FunctionDef, ast.AsyncFunctionDef)):
                a = n.args
                if a.vararg or a.kwarg or a.posonlyargs:
                    ps = None
                else:
                    ps = [x.arg for x in a.args]
                    static = any(isinstance(d, ast.Name) and d.id == "staticmethod" for d in n.decorator_list)
                    if getattr(n, "_nf_method", False) and not static and ps:
                        ps = ps[1:]
                    ps = tuple(ps + [x.arg for x in a.kwonlyargs]) if not a.kwonlyargs else None
                seen.setdefault(n.name, set()).add(ps)
    return {k: list(next(iter(v))) for k, v in seen.items() if len(v) == 1 and next(iter(v)) is not None and k not in _STOP and not k.startswith("__")}


class _Canon(ast.NodeTransformer):
    sigs = {}

    def __init__(self, fn):
        # load / store counts of plain names in the whole top-level function (nested scopes included: a name read there is never inlined)
        self.loads, self.stores = {}, {}
        for x in ast.walk(fn):
            if isinstance(x, ast.Name):
                d = self.loads if isinstance(x.ctx, ast.Load) else self.stores
                d[x.id] = d.get(x.id, 0) + 1
            elif isinstance(x, (ast.Global, ast.Nonlocal)):
                for n in x.names:
                    self.stores[n] = self.stores.get(n, 0) + 2
        # `t = e; return t` pairs per name: a name whose every store and every load belongs to such a pair is a return temporary (N6)
        self.retpairs = {}
        for x in ast.walk(fn):
            for fld in ("body", "orelse", "finalbody"):
                sub = getattr(x, fld, None)
                if isinstance(sub, list):
                    for s1, s2 in zip(sub, sub[1:]):
                        if isinstance(s1, ast.Assign) and len(s1.targets) == 1 and isinstance(s1.targets[0], ast.Name) and isinstance(s2, ast.Return) \
                                and isinstance(s2.value, ast.Name) and s2.value.id == s1.targets[0].id:
                            self.retpairs[s2.value.id] = self.retpairs.get(s2.value.id, 0) + 1
        a = fn.args
        for p in a.posonlyargs + a.args + a.kwonlyargs + ([a.vararg] if a.vararg else []) + ([a.kwarg] if a.kwarg else []):
            self.stores[p.arg] = self.stores.get(p.arg, 0) + 1

    # ---- N2
    def visit_FunctionDef(self, fn):
        fn.returns = None
        for p in fn.args.posonlyargs + fn.args.args + fn.args.kwonlyargs + ([fn.args.vararg] if fn.args.vararg else []) + ([fn.args.kwarg] if fn.args.kwarg else []):
            p.annotation = None
        self.generic_visit(fn)
        return fn

    visit_AsyncFunctionDef = visit_FunctionDef

    def visit_AnnAssign(self, n):
        self.generic_visit(n)
        if n.value is None:
            return None
        return ast.copy_location(ast.Assign(targets=[n.target], value=n.value), n)

    def visit_Assert(self, n):
        self.generic_visit(n)
        n.msg = None
        n.test = _nnf(n.test)
        return n

    # ---- N3
    def visit_If(self, n):
        self.generic_visit(n)
        t = _nnf(n.test)
        if n.orelse:
            nt = _neg(t)
            if _key(nt) < _key(t):
                t = nt
                n.body, n.orelse = n.orelse, n.body
        if n.orelse and len(n.body) == 1 and isinstance(n.body[0], ast.Pass):
            t, n.body, n.orelse = _neg(t), n.orelse, []
        n.test = t
        return n

    def visit_IfExp(self, n):
        self.generic_visit(n)
        t = _nnf(n.test)
        nt = _neg(t)
        if _key(nt) < _key(t):
            t = nt
            n.body, n.orelse = n.orelse, n.body
        n.test = t
        return n

    def visit_While(self, n):
        self.generic_visit(n)
        n.test = _nnf(n.test)
        return n

    def visit_comprehension(self, n):
        self.generic_visit(n)
        n.ifs = [_nnf(i) for i in n.ifs]
        return n

    # ---- N4
    def visit_Compare(self, n):
        self.generic_visit(n)
        if len(n.ops) == 1 and type(n.ops[0]) in _FLIP and isinstance(n.left, ast.Constant) and not isinstance(n.comparators[0], ast.Constant):
            n.left, n.comparators = n.comparators[0], [n.left]
            n.ops = [_FLIP[type(n.ops[0])]()]
        return n

    # ---- N5, N9
    def visit_Call(self, n):
        self.generic_visit(n)
        if isinstance(n.func, ast.Attribute) and n.func.attr == "conj" and not n.args and not n.keywords and isinstance(n.func.value, ast.Attribute) and n.func.value.attr == "T":
            inner = n.func.value.value
            return ast.Attribute(value=ast.Call(func=ast.Attribute(value=inner, attr="conj", ctx=ast.Load()), args=[], keywords=[]), attr="T", ctx=ast.Load())
        # N10: positional arguments of a call to a function with a known parameter list are written as keywords
        ps = None
        if isinstance(n.func, ast.Name):
            ps = self.sigs.get(n.func.id)
        elif isinstance(n.func, ast.Attribute):
            base = n.func.value
            if isinstance(base, ast.Name) and base.id in ("np", "xp", "numpy", "scipy"):
                ps = _NP_SIGS.get(n.func.attr)
            elif not (isinstance(base, ast.Name) and base.id in ("os", "math", "logging", "logger", "sp", "itertools", "functools")):
                ps = self.sigs.get(n.func.attr)
        if ps is not None and n.args and not any(isinstance(a, ast.Starred) for a in n.args) and all(k.arg is not None for k in n.keywords) and len(n.args) <= len(ps) \
                and not ({k.arg for k in n.keywords} & set(ps[:len(n.args)])) and all(k.arg in ps for k in n.keywords):
            keep = 1 if ps and len(n.args) >= 1 else 0          # the first argument stays positional (readability of the normal form only)
            n.keywords = n.keywords + [ast.keyword(arg=ps[i], value=a) for i, a in enumerate(n.args) if i >= keep]
            n.args = n.args[:keep]
        if len(n.keywords) > 1 and all(k.arg is not None for k in n.keywords):
            n.keywords = sorted(n.keywords, key=lambda k: k.arg)
        return n

    # ---- N2 (statement level), N6, N7
    def generic_visit(self, node):
        super().generic_visit(node)
        for fld in ("body", "orelse", "finalbody"):
            sub = getattr(node, fld, None)
            if isinstance(sub, list) and (not sub or isinstance(sub[0], ast.stmt)):
                setattr(node, fld, self._stmts(sub, keep_one=(fld == "body")))
        return node

    def _stmts(self, body, keep_one):
        out = []
        for k, st in enumerate(body):
            if isinstance(st, ast.Pass) or _is_logging(st):
                continue
            if isinstance(st, ast.Expr) and isinstance(st.value, ast.Constant) and isinstance(st.value.value, str):
                continue            # doc string / bare string statement
            out.append(st)
            # N8: the else branch of an `if` whose body cannot fall through is written after the `if` (and the mirrored form is turned round first)
            if isinstance(st, ast.If) and st.orelse:
                if not _falls_through(st.orelse) and _falls_through(st.body):
                    st.test, st.body, st.orelse = _neg(st.test), st.orelse, st.body
                if not _falls_through(st.body):
                    out.extend(st.orelse)
                    st.orelse = []
        # N6 / N7: single-use temporaries consumed by the next statement
        changed = True
        while changed:
            changed = False
            for k in range(len(out) - 1):
                a, b = out[k], out[k + 1]
                if not (isinstance(a, ast.Assign) and len(a.targets) == 1 and isinstance(a.targets[0], ast.Name)):
                    continue
                t = a.targets[0].id
                if isinstance(b, ast.Return) and isinstance(b.value, ast.Name) and b.value.id == t and \
                        self.retpairs.get(t, 0) == self.stores.get(t, 0) == self.loads.get(t, 0):
                    b.value = a.value
                    del out[k]
                    changed = True
                    break
                if self.stores.get(t, 0) != 1 or self.loads.get(t, 0) != 1:
                    continue
                if isinstance(b, ast.Return) and isinstance(b.value, ast.Name) and b.value.id == t:
                    b.value = a.value
                elif isinstance(b, (ast.Assign, ast.AugAssign, ast.Expr, ast.Return)) and b.value is not None:
                    first = _first_evaluated(b.value)
                    if not (isinstance(first, ast.Name) and first.id == t):
                        continue
                    b.value = _Subst(t, a.value).visit(b.value)
                else:
                    continue
                self.loads[t] = 0
                del out[k]
                changed = True
                break
        if not out and keep_one:
            out = [ast.Pass()]
        return out


class _Subst(ast.NodeTransformer):
    def __init__(self, name, value):
        self.name, self.value = name, value

    def visit_Name(self, n):
        return self.value if n.id == self.name and isinstance(n.ctx, ast.Load) else n

    def visit_Lambda(self, n):
        return n

    visit_FunctionDef = visit_ListComp = visit_SetComp = visit_DictComp = visit_GeneratorExp = visit_Lambda


def normal_form(fn, sigs=None):
    """text of the normal form of a top-level function node (the node is not modified); sigs = collect_signatures(...) of the tree the function belongs to"""
    node = copy.deepcopy(fn)
    node.decorator_list = list(node.decorator_list)
    c = _Canon(node)
    c.sigs = sigs or {}
    node = c.visit(node)
    ast.fix_missing_locations(node)
    t = alpha._Alpha(lambda depth, i, name: f"_{i}")
    node = t.visit(node)
    return ast.unparse(node)


def nf_hash(fn, sigs=None):
    return hashlib.sha1(normal_form(fn, sigs).encode()).hexdigest()


def substitute_reference(rel, mod, db, log, sigs=None):
    """replace every top-level function / method of one module whose normal form equals the reference's by the reference function"""
    def handle(container, idx, fn, qual):
        ref = db.get(f"{rel}::{qual}")
        if not ref or "nf" not in ref:
            return
        cur_txt = ast.unparse(fn)
        if cur_txt == ref["src"]:
            return
        try:
            h = nf_hash(fn, sigs)
        except RecursionError:
            return
        if h != ref["nf"]:
            return
        new = ast.parse(ref["src"]).body[0]
        ast.increment_lineno(new, fn.lineno - new.lineno)
        container[idx] = new
        log.append(f"{rel}::{qual}")
    for i, n in enumerate(mod.body):
        if isinstance(n, (ast.FunctionDef, ast.AsyncFunctionDef)):
            handle(mod.body, i, n, n.name)
        elif isinstance(n, ast.ClassDef):
            for j, m in enumerate(n.body):
                if isinstance(m, (ast.FunctionDef, ast.AsyncFunctionDef)):
                    handle(n.body, j, m, f"{n.name}.{m.name}")
