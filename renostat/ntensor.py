"""Abstract tensors for abstract runs of the chain code: a tensor is a list of legs, each leg an identity (or an ordered group of identities merged by a
reshape) with a concrete size.  Sizes are distinct primes chosen by the rule, so that a reshape can be read back unambiguously as a regrouping of
consecutive legs.  The numpy operations the chain code uses (tensordot, moveaxis, transpose, reshape, einsum with explicit output, conj, .T) are
implemented on leg lists; contractions are recorded as pairs of leg identities.  No values exist: what a rule compares is which legs were joined,
which survive, in which order, and how they were merged."""
from .syminterp import Sym
from .src import AnalysisError


class Leg:
    """one axis: an identity, or an ordered group of identities merged by a reshape (parts = [(identity, size), ...]); `cut` = the axis was sliced to its first `cut` entries;
    `scaled` = names of vectors the tensor was multiplied with along this axis"""
    __slots__ = ("parts", "conj", "cut", "scaled")

    def __init__(self, ids, dim, conj=False, cut=None, scaled=()):
        if isinstance(ids, list) and ids and isinstance(ids[0], tuple) and len(ids[0]) == 2 and isinstance(ids[0][1], int) and isinstance(ids[0][0], tuple):
            self.parts = [tuple(x) for x in ids]            # [(identity, size), ...]
        else:
            self.parts = [(ids, dim)]
        self.conj, self.cut, self.scaled = conj, cut, tuple(scaled)

    @property
    def ids(self):
        return tuple(p[0] for p in self.parts)

    @property
    def dim(self):
        if self.cut is not None:
            return self.cut
        d = 1
        for _, x in self.parts:
            d *= x
        return d

    @property
    def merged(self):
        return len(self.parts) > 1

    def key(self):
        return self.parts[0][0] if len(self.parts) == 1 else ("M",) + self.ids

    def copy(self, **kw):
        l = Leg(list(self.parts) if self.merged else self.parts[0][0], self.parts[0][1], self.conj, self.cut, self.scaled)
        for k, v in kw.items():
            setattr(l, k, v)
        return l

    def __repr__(self):
        s = ".".join(map(str, self.parts[0][0])) if len(self.parts) == 1 else "(" + " x ".join(".".join(map(str, i)) for i in self.ids) + ")"
        return s + ("*" if self.conj else "") + (f"[:{self.cut}]" if self.cut is not None else "") + ("".join(f"~{x}" for x in self.scaled))


class NT(Sym):
    """abstract tensor; `edges` is shared by all tensors derived in one run (list of frozenset({leg id, leg id}))"""
    def __init__(self, name, legs, edges=None, scale=()):
        super().__init__(name)
        self.legs = list(legs)
        self.edges = edges if edges is not None else []
        self.scale = tuple(scale)
        self._store = []                # blocks overwritten in place (shared by views)

    # ---- numpy attributes
    @property
    def shape(self):
        return tuple(l.dim for l in self.legs)

    @property
    def ndim(self):
        return len(self.legs)

    @property
    def array(self):
        return self

    @property
    def T(self):
        return self._new(self.legs[::-1])

    @property
    def size(self):
        p = 1
        for l in self.legs:
            p *= l.dim
        return p

    def keys(self):
        return [l.key() for l in self.legs]

    def _new(self, legs, name=None, scale=None):
        t = NT(name or self._name, legs, self.edges, self.scale if scale is None else scale)
        t._store = self._store          # axis permutations, regroupings and slices are views of the same storage
        return t

    def _fresh(self, legs, name=None, scale=None):
        """result of an arithmetic operation: a new array"""
        t = self._new(legs, name, scale)
        t._store = list(self._store)
        return t

    @property
    def patches(self):
        return tuple(self._store)

    def conj(self):
        return self._fresh([l.copy(conj=not l.conj) for l in self.legs])

    conjugate = conj

    def copy(self):
        t = self._new(list(self.legs))
        t._store = list(self._store)
        return t

    def astype(self, *a, **k):
        return self

    def any(self):
        return True

    def transpose(self, *axes):
        axes = list(axes[0]) if len(axes) == 1 and isinstance(axes[0], (list, tuple)) else list(axes)
        if not axes:
            return self.T
        axes = [a % self.ndim for a in axes]
        if sorted(axes) != list(range(self.ndim)):
            raise AnalysisError(f"transpose{tuple(axes)} of a rank-{self.ndim} tensor")
        return self._new([self.legs[a] for a in axes])

    def swapaxes(self, a, b):
        n = len(self.legs)
        order = list(range(n))
        order[a % n], order[b % n] = order[b % n], order[a % n]
        return self._new([self.legs[i] for i in order])

    def reshape(self, *shape):
        shape = list(shape[0]) if len(shape) == 1 and isinstance(shape[0], (list, tuple)) else list(shape)
        # elementary axes in order: a merged axis counts as its parts (a cut merged axis cannot be split)
        elems = []
        for l in self.legs:
            if l.merged and l.cut is None:
                elems.extend(Leg(i_, d_, l.conj, None, l.scaled) for i_, d_ in l.parts)
            else:
                elems.append(l)
        total = 1
        for l in elems:
            total *= l.dim
        if shape.count(-1) > 1:
            raise AnalysisError("reshape with more than one -1")
        if -1 in shape:
            known = 1
            for s_ in shape:
                if s_ != -1:
                    known *= s_
            if known == 0 or total % known:
                raise ValueError(f"cannot reshape array of size {total} into shape {tuple(shape)}")
            shape[shape.index(-1)] = total // known
        out, k = [], 0
        for s_ in shape:
            if not isinstance(s_, int):
                raise AnalysisError(f"reshape to a non-integer size {s_!r}")
            grp, p = [], 1
            while k < len(elems) and (p < s_ or (s_ == 1 and not grp and elems[k].dim == 1)):
                if s_ > 1 and elems[k].dim == 1:
                    k += 1          # an axis of size one disappears in a target axis of size > 1
                    continue
                grp.append(elems[k])
                p *= elems[k].dim
                k += 1
                if s_ == 1:
                    break
            if not grp and s_ == 1:
                out.append(Leg(("one",), 1))
                continue
            if p != s_:
                raise ValueError(f"cannot reshape array of shape {self.shape} into shape {tuple(shape)} (sizes are distinct primes: the target splits an axis or merges non-adjacent axes)")
            if len(grp) == 1:
                out.append(grp[0])
            else:
                if len({g.conj for g in grp}) != 1:
                    raise AnalysisError("reshape merges a conjugated with a plain axis")
                if any(g.cut is not None or g.merged for g in grp):
                    raise AnalysisError("reshape merges a truncated / already merged axis")
                out.append(Leg([(g.parts[0][0], g.parts[0][1]) for g in grp], s_, grp[0].conj, None, tuple(x for g in grp for x in g.scaled)))
        while k < len(elems) and elems[k].dim == 1:
            k += 1
        if k != len(elems):
            raise ValueError(f"cannot reshape array of shape {self.shape} into shape {tuple(shape)}")
        return self._new(out)

    def ravel(self):
        return self.reshape(-1)

    flatten = ravel

    def __getitem__(self, k):
        k = k if isinstance(k, tuple) else (k,)
        legs, out = list(self.legs), []
        if Ellipsis in k:
            i = k.index(Ellipsis)
            k = k[:i] + (slice(None),) * (len(legs) - len(k) + 1) + k[i + 1:]
        k = k + (slice(None),) * (len(legs) - len(k))
        for l, x in zip(legs, k):
            if isinstance(x, slice) and x == slice(None):
                out.append(l)
            elif isinstance(x, slice) and x.start in (None, 0) and x.step in (None, 1) and isinstance(x.stop, int):
                out.append(l.copy(cut=min(x.stop, l.dim)))          # a prefix of the axis
            elif isinstance(x, int):
                continue
            else:
                raise AnalysisError(f"index {x!r} of an abstract tensor is not modelled")
        return self._new(out)

    @property
    def pdim(self):
        return [l.dim for l in self.legs[1:-1]]

    @property
    def pdim_prod(self):
        p = 1
        for d in self.pdim:
            p *= d
        return p

    @property
    def nbytes(self):
        return 8 * self.size

    @property
    def base(self):
        return self

    @property
    def dtype(self):
        return "dtype"

    def __add__(self, o):
        """sum of two tensors over the same axes (identities and order must agree), or with the number zero of an accumulator"""
        if isinstance(o, (int, float)) and o == 0:
            return self
        if not isinstance(o, NT) or o.keys() != self.keys() or [l.conj for l in o.legs] != [l.conj for l in self.legs]:
            raise AnalysisError(f"sum of {self!r} and {o!r}: different axes")
        return self._fresh(self.legs, name=self._name if o._name == self._name else f"({self._name}+{o._name})")

    __radd__ = __add__
    __iadd__ = __add__

    def __setitem__(self, k, v):
        """a block of the tensor is overwritten: recorded, not interpreted; views (axis permutations, regroupings, slices) share the record, copies do not"""
        self._store.append((repr(k), repr(v), getattr(v, "scale", ())))

    def __mul__(self, o):
        if isinstance(o, NT):
            raise AnalysisError("elementwise product of abstract tensors is not modelled")
        return self._fresh(self.legs, scale=self.scale + (repr(o),))

    __rmul__ = __mul__

    def __truediv__(self, o):
        return self._fresh(self.legs, scale=self.scale + (f"1/{o!r}",))

    def __neg__(self):
        return self._fresh(self.legs, scale=self.scale + ("-1",))

    def __repr__(self):
        return f"{self._name}[" + ", ".join(repr(l) for l in self.legs) + "]"


def _axes_list(x, n):
    if isinstance(x, int):
        return [x % n]
    return [a % n for a in x]


def tensordot(a, b, axes=2):
    if not (isinstance(a, NT) and isinstance(b, NT)):
        raise AnalysisError(f"tensordot of {a!r} and {b!r}")
    if isinstance(axes, int):
        ax_a, ax_b = list(range(a.ndim - axes, a.ndim)), list(range(axes))
    else:
        ax_a, ax_b = _axes_list(axes[0], a.ndim), _axes_list(axes[1], b.ndim)
    if len(ax_a) != len(ax_b):
        raise ValueError("tensordot: axis lists of different length")
    edges = a.edges if a.edges is b.edges else a.edges
    if a.edges is not b.edges:
        a.edges.extend(b.edges)
    for i, j in zip(ax_a, ax_b):
        la, lb = a.legs[i], b.legs[j]
        if la.dim != lb.dim:
            raise ValueError(f"shape-mismatch for sum: axis {i} of {a!r} has size {la.dim}, axis {j} of {b!r} has size {lb.dim}")
        edges.append((la.key(), la.conj, lb.key(), lb.conj))
    legs = [l for k, l in enumerate(a.legs) if k not in ax_a] + [l for k, l in enumerate(b.legs) if k not in ax_b]
    return NT(f"({a._name}.{b._name})", legs, edges, a.scale + b.scale)


def moveaxis(a, source, destination):
    src_, dst_ = _axes_list(source, a.ndim), _axes_list(destination, a.ndim)
    if len(src_) != len(dst_):
        raise ValueError("moveaxis: source and destination of different length")
    order = [k for k in range(a.ndim) if k not in src_]
    for d, s_ in sorted(zip(dst_, src_)):
        order.insert(d, s_)
    return a.transpose(order)


def swapaxes(a, i, j):
    return a.swapaxes(i, j)


def transpose(a, axes=None):
    return a.T if axes is None else a.transpose(axes)


def einsum(spec, *ops):
    spec = spec.replace(" ", "")
    if "->" not in spec:
        raise AnalysisError("einsum without explicit output is not modelled")
    ins, out = spec.split("->")
    ins = ins.split(",")
    if len(ins) != len(ops):
        raise ValueError("einsum: operand count")
    where, edges = {}, ops[0].edges
    for term, t in zip(ins, ops):
        if len(term) != t.ndim:
            raise ValueError(f"einsum: operand {t!r} has {t.ndim} axes, subscript {term!r}")
        if t.edges is not edges:
            edges.extend(t.edges)
        for ch, l in zip(term, t.legs):
            where.setdefault(ch, []).append(l)
    legs = []
    for ch, ls in where.items():
        if len({l.dim for l in ls}) != 1:
            raise ValueError(f"einsum: index {ch} has sizes {[l.dim for l in ls]}")
        if ch not in out:
            if len(ls) != 2:
                raise AnalysisError(f"einsum index {ch} summed over {len(ls)} operands")
            edges.append((ls[0].key(), ls[0].conj, ls[1].key(), ls[1].conj))
        elif len(ls) != 1:
            # kept and shared: multiplication of a tensor along one axis by a vector (diagonal scaling)
            vec = [t for term, t in zip(ins, ops) if term == ch and t.ndim == 1]
            oth = [l for term, t in zip(ins, ops) for c2, l in zip(term, t.legs) if c2 == ch and t.ndim > 1]
            if len(ls) != 2 or len(vec) != 1 or len(oth) != 1:
                raise AnalysisError(f"einsum index {ch} is both shared and kept: only scaling by a vector is modelled")
            where[ch] = [oth[0].copy(scaled=oth[0].scaled + (vec[0]._name,))]
    for ch in out:
        legs.append(where[ch][0])
    return NT("einsum", legs, edges, sum((t.scale for t in ops if t.ndim > 1), ()))


def np_namespace(**extra):
    """stand-in for the numpy / backend module in an abstract run over NT tensors"""
    from .syminterp import OpenSym, Blob
    ns = OpenSym("np", make=lambda t: Blob(t), tensordot=tensordot, moveaxis=moveaxis, swapaxes=swapaxes, transpose=transpose, einsum=einsum, asarray=lambda x, *a, **k: x, array=lambda x, *a, **k: x,
                 conj=lambda x: x.conj(), conjugate=lambda x: x.conj(), ascontiguousarray=lambda x: x, reshape=lambda x, s: x.reshape(s), ndarray="np.ndarray")
    ns.__dict__.update(extra)
    return ns


def edge_set(nt):
    """contracted pairs as a set of frozensets of (leg key, conjugated?)"""
    return {frozenset([(a, ca), (b, cb)]) for a, ca, b, cb in nt.edges}
