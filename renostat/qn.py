"""QN - quantum-number bookkeeping rules (DESIGN.md 3.4): centre alignment before combining bond labels,
label / total-charge co-transformation, svd-mode typestate, co-truncation, label co-update."""
import ast

from .src import AnalysisError, unparse, norm_stmt, walk_no_nested, kwarg

MP = "renormalizer/mps/mp.py"
MPS = "renormalizer/mps/mps.py"
MPO = "renormalizer/mps/mpo.py"
MPDM = "renormalizer/mps/mpdm.py"
TREE = "renormalizer/tn/tree.py"
LIB = "renormalizer/mps/lib.py"
CONFIGS = "renormalizer/utils/configs.py"
CHAIN_MODULES = [MP, MPS, MPO, MPDM]


def stmts_in_order(fn):
    """statements of a function in source order (flattened)"""
    out = []

    def rec(body):
        for s in body:
            out.append(s)
            for sub in (getattr(s, "body", None), getattr(s, "orelse", None), getattr(s, "finalbody", None)):
                if isinstance(sub, list):
                    rec(sub)
            for h in getattr(s, "handlers", []) or []:
                rec(h.body)

    rec(fn.body)
    return out


# ---------------------------------------------------------------------------------------------- qn writers
def classify_qn_writer(value):
    """Classify the right-hand side of `X.qn = <value>`: returns (form, operands) or None if it does not read another .qn"""
    reads = [n for n in ast.walk(value) if isinstance(n, ast.Attribute) and n.attr == "qn"]
    if isinstance(value, ast.ListComp) and len(value.generators) == 1:
        g = value.generators[0]
        it = g.iter
        elt = value.elt
        srcs = []
        if isinstance(it, ast.Call) and unparse(it.func) == "zip":
            srcs = [unparse(a) for a in it.args]
        else:
            srcs = [unparse(it)]
        et = unparse(elt).replace(" ", "")
        if "concatenate" in et:
            return "direct-sum", srcs
        if "add_outer" in et or "add.outer" in et:
            order = []
            for c in ast.walk(elt):
                if isinstance(c, ast.Call) and unparse(c.func).endswith("add_outer"):
                    order = [unparse(a) for a in c.args]
                    break
            return "outer-sum", srcs + ["|"] + order
        if isinstance(elt, ast.Call) and isinstance(elt.func, ast.Attribute) and elt.func.attr == "copy" and not elt.args:
            return "copy", srcs
        neg = any(isinstance(x, ast.UnaryOp) and isinstance(x.op, ast.USub) for x in ast.walk(elt))
        if neg:
            return "negate", srcs
        if isinstance(elt, ast.Call) and unparse(elt.func) in ("np.zeros", "np.zeros_like"):
            return "zeros", srcs
        if not reads:
            return None            # a list built from something that is not a label list of an object (e.g. restored from an archive): not a combination of labels
        return "unknown", srcs
    if not reads:
        return None
    if isinstance(value, ast.Attribute) and value.attr == "qn":
        return "alias", [unparse(value)]
    return "unknown", [unparse(r) for r in reads]


def qn_writers(src, rels):
    """all assignments `<obj>.qn = <expr reading another .qn or a comprehension>` in the given modules"""
    out = []
    for rel in rels:
        for fi in src.funcs_in(rel):
            if fi.parent is not None:
                continue
            for n in walk_no_nested(fi.node):
                if isinstance(n, ast.Assign) and len(n.targets) == 1 and isinstance(n.targets[0], ast.Attribute) and n.targets[0].attr == "qn":
                    c = classify_qn_writer(n.value)
                    if c is not None and c[0] != "zeros":
                        out.append((fi, n, c[0], c[1]))
    return out


def local_alias(fn, name):
    """resolve a local Name to the text of its single defining expression (one level)"""
    defs = [s for s in walk_no_nested(fn) if isinstance(s, ast.Assign) and len(s.targets) == 1 and isinstance(s.targets[0], ast.Name)
            and s.targets[0].id == name]
    if len(defs) == 1:
        return unparse(defs[0].value)
    return None


def check_alignment(fi, assign, srcs):
    """centre alignment for a writer that zips two label lists.  Returns (ok, how)."""
    fn = fi.node
    objs = []
    for s in srcs:
        if s == "|":
            break
        if s.endswith(".qn"):
            objs.append(s[:-3])
        else:
            al = local_alias(fn, s)
            objs.append(("LOCAL", s, al))
    if len(objs) != 2:
        return None, "single source"
    # centre-invariant operand
    for o in objs:
        if isinstance(o, tuple):
            if o[2] is not None and ("dummy_qn" in o[2] or "zeros" in o[2]):
                return True, f"operand {o[1]} = {o[2]} is centre-invariant (all-zero labels)"
            return False, f"operand {o[1]} is a local list of unknown centre"
    a, b = objs
    order = stmts_in_order(fn)
    pos = order.index(assign)
    aligned = None
    for s in order[:pos]:
        for c in ast.walk(s):
            if isinstance(c, ast.Call) and isinstance(c.func, ast.Attribute) and c.func.attr == "move_qnidx" and c.args:
                recv = unparse(c.func.value)
                arg = unparse(c.args[0])
                if recv in (a, b):
                    other = b if recv == a else a
                    aligned = (recv, arg, arg == other + ".qnidx")
            if isinstance(c, ast.Assert):
                t = unparse(c.test).replace(" ", "")
                if t in (f"{a}.qnidx=={b}.qnidx", f"{b}.qnidx=={a}.qnidx"):
                    return True, "assert of equal centres"
    for s in order[:pos]:
        if isinstance(s, ast.Assert):
            t = unparse(s.test).replace(" ", "")
            if t in (f"{a}.qnidx=={b}.qnidx", f"{b}.qnidx=={a}.qnidx"):
                return True, "assert of equal centres"
    if aligned is None:
        return False, f"labels of {a} and {b} are combined but neither was re-centred to the other's centre"
    if aligned[2]:
        return True, f"{aligned[0]}.move_qnidx({aligned[1]}) precedes the combination"
    return False, f"last re-centring before the combination is {aligned[0]}.move_qnidx({aligned[1]}), not to the other operand's centre"


def check_charge(fi, assign, form, srcs):
    """total-charge co-transformation.  Returns (ok, found)."""
    fn = fi.node
    tgt = unparse(assign.targets[0].value)
    text = [unparse(s).replace(" ", "") for s in stmts_in_order(fn)]
    if form == "copy":
        return True, "copy"
    if form == "alias":
        return True, "alias"
    if form == "negate":
        ok = any(t in (f"{tgt}.qntot=-{tgt}.qntot", f"{tgt}.qntot*=-1", f"{tgt}.qntot=-self.qntot", f"{tgt}.qntot=-1*{tgt}.qntot") for t in text)
        return ok, "qntot negated" if ok else "bond labels negated, qntot left unchanged"
    if form == "direct-sum":
        objs = [s[:-3] for s in srcs if s.endswith(".qn")]
        asserted = any(isinstance(s, ast.Assert) and "qntot" in unparse(s.test) and "==" in unparse(s.test) for s in stmts_in_order(fn))
        return asserted, "equal totals asserted" if asserted else "direct sum of labels without asserting equal total charge"
    if form == "outer-sum":
        ops = srcs[:srcs.index("|")] if "|" in srcs else srcs
        other = [o for o in ops if not o.startswith(tgt + ".")]
        # operand with zero labels
        for o in ops:
            if not o.endswith(".qn"):
                al = local_alias(fn, o)
                if al and ("dummy_qn" in al or "zeros" in al):
                    return True, f"{o} = {al} carries no charge"
        for o in other:
            base = o[:-3] if o.endswith(".qn") else o
            if any(t == f"{tgt}.qntot+={base}.qntot" or t == f"{tgt}.qntot={tgt}.qntot+{base}.qntot" for t in text):
                return True, f"{tgt}.qntot += {base}.qntot"
        return False, "outer sum of bond labels without adding the operand's total charge"
    return None, "unclassifiable"


# ---------------------------------------------------------------------------------------------- svd sites
class SvdSite:
    def __init__(self, fi, call, assign):
        self.fi, self.call, self.assign = fi, call, assign
        self.kind = "eigh" if unparse(call.func).endswith("eigh_qn") else "svd"
        fm = kwarg(call, "full_matrices")
        qr = kwarg(call, "QR")
        self.qr = isinstance(qr, ast.Constant) and qr.value is True
        if self.kind == "eigh":
            self.mode = "economic-unsorted"
        elif fm is None:
            self.mode = "full"
        elif isinstance(fm, ast.Constant) and fm.value is False:
            self.mode = "economic"
        elif isinstance(fm, ast.Constant) and fm.value is True:
            self.mode = "full"
        else:
            self.mode = "unknown"
        self.targets = []
        if assign is not None and isinstance(assign.targets[0], ast.Tuple):
            self.targets = [t.id if isinstance(t, ast.Name) else None for t in assign.targets[0].elts]

    def roles(self):
        """names by role: u, s (list), qnl, v, qnr"""
        t = self.targets
        if self.kind == "eigh" and len(t) == 3:
            return {"u": t[0], "s": [t[1]], "qnl": t[2], "v": None, "qnr": t[2]}
        if self.qr and len(t) == 4:
            return {"u": t[0], "s": [], "qnl": t[1], "v": t[2], "qnr": t[3]}
        if not self.qr and len(t) == 6:
            return {"u": t[0], "s": [t[1], t[4]], "qnl": t[2], "v": t[3], "qnr": t[5]}
        return None


def svd_sites(src, rels):
    out = []
    for rel in rels:
        if not src.has_module(rel):
            continue
        for fi in src.funcs_in(rel):
            if fi.parent is not None:
                continue
            for n in ast.walk(fi.node):
                if isinstance(n, ast.Assign) and isinstance(n.value, ast.Call):
                    f = unparse(n.value.func)
                    if f in ("svd_qn", "svd_qn.svd_qn", "eigh_qn", "svd_qn.eigh_qn"):
                        out.append(SvdSite(fi, n.value, n))
    return out


def misuse_of_unsorted(site):
    """uses of singular values / vectors of a blocked (unsorted) decomposition that assume global sorting"""
    r = site.roles()
    if r is None:
        raise AnalysisError(f"{site.fi.where}: svd_qn result unpacking not understood (line {site.call.lineno})")
    names = {n for n in [r["u"], r["v"], r["qnl"], r["qnr"]] + r["s"] if n}
    bad = []
    fn = site.fi.node
    for n in ast.walk(fn):
        if isinstance(n, ast.Subscript) and isinstance(n.value, ast.Name) and n.value.id in names and isinstance(n.ctx, ast.Load):
            sl = n.slice
            parts = sl.elts if isinstance(sl, ast.Tuple) else [sl]
            for p in parts:
                if isinstance(p, ast.Slice) and (p.upper is not None or p.lower is not None):
                    bad.append((n.lineno, f"prefix/suffix slice {unparse(n)}"))
        if isinstance(n, ast.Call):
            cn = unparse(n.func)
            if cn.endswith("_update_ms") or cn.endswith("truncate_tensors"):
                for a in list(n.args) + [k.value for k in n.keywords]:
                    for x in ast.walk(a):
                        if isinstance(x, ast.Name) and x.id in names:
                            bad.append((n.lineno, f"{cn}(... {x.id} ...) truncates by prefix"))
    return bad


# ---------------------------------------------------------------------------------------------- co-truncation
def prefix_slices(fn, names):
    """{name: set of upper-bound texts} for prefix slices on the given names; also unsliced reads"""
    bounds = {}
    for n in ast.walk(fn):
        if isinstance(n, ast.Subscript) and isinstance(n.value, ast.Name) and n.value.id in names:
            sl = n.slice
            parts = sl.elts if isinstance(sl, ast.Tuple) else [sl]
            for p in parts:
                if isinstance(p, ast.Slice) and p.upper is not None and p.lower is None:
                    bounds.setdefault(n.value.id, set()).add(unparse(p.upper))
    return bounds
