"""Obligation ledger, evidence writer, exit protocol (DESIGN.md 2.1)."""
import json
import os
import sys
import time

VERIF = os.path.dirname(os.path.dirname(os.path.abspath(__file__)))
EVIDENCE_DIR = os.path.join(VERIF, "evidence")
KNOWN_FILE = os.path.join(VERIF, "known_findings.json")


class Ob:
    """One rule instance (an obligation) with its verdict."""
    __slots__ = ("rule", "key", "ok", "where", "found", "expected", "detail", "line")

    def __init__(self, rule, key, ok, where="", found="", expected="", detail="", line=None):
        self.rule, self.key, self.ok = rule, key, bool(ok)
        self.where, self.found, self.expected, self.detail, self.line = where, found, expected, detail, line

    def fkey(self):
        return f"{self.rule}|{self.key}"

    def as_dict(self):
        d = {"rule": self.rule, "key": self.key, "ok": self.ok, "where": self.where}
        if self.line is not None:
            d["line"] = self.line
        if self.found != "":
            d["found"] = _j(self.found)
        if self.expected != "":
            d["expected"] = _j(self.expected)
        if self.detail:
            d["detail"] = self.detail
        return d


def _j(x):
    try:
        json.dumps(x)
        return x
    except TypeError:
        return repr(x)


class Check:
    """Collects obligations of one property run."""

    def __init__(self, pid, src, tier="quick", repo="/repo"):
        self.pid, self.src, self.tier, self.repo = pid, src, tier, repo
        self.obs = []
        self.rules = {}      # rule -> text
        self.tables = {}     # frozen tables printed in evidence
        self.floors = {}     # rule -> minimum instance count
        self.notes = []
        self.assumptions = []
        self.explanation = ""
        self.level = "other"
        self.extra = {}
        self.t0 = time.time()

    # -- declaring
    def rule(self, name, text, floor=0):
        self.rules[name] = text
        self.floors[name] = floor

    def table(self, name, value):
        self.tables[name] = value

    def ob(self, rule, key, ok, where="", found="", expected="", detail="", line=None):
        if rule not in self.rules:
            raise RuntimeError(f"undeclared rule {rule}")
        o = Ob(rule, key, ok, where, found, expected, detail, line)
        self.obs.append(o)
        return o.ok

    def note(self, txt):
        self.notes.append(txt)

    # -- concluding
    def count(self, rule):
        return sum(1 for o in self.obs if o.rule == rule)

    def check_floors(self):
        from .src import AnalysisError
        for r, fl in self.floors.items():
            n = self.count(r)
            if n < fl:
                raise AnalysisError(f"rule {r}: only {n} instances found, hand-confirmed floor is {fl} "
                                    f"(an anchor moved or the extractor no longer recognises a form)")


def load_known():
    if not os.path.exists(KNOWN_FILE):
        return []
    return json.load(open(KNOWN_FILE))["findings"]


def partial(chk, out=sys.stdout):
    """the analysis stopped (ANALYSIS-ERROR) after some rules had run: violations found so far are still violations and are reported; no evidence file, no floors.
    Returns the number of violations printed."""
    known = {f'{k["rule"]}|{k["key"]}' for k in load_known() if k["property"] == chk.pid and k.get("status") == "known"}
    seen = {}
    for o in chk.obs:
        if not o.ok and o.fkey() not in known:
            seen.setdefault(o.fkey(), o)
    os.makedirs(os.path.join(EVIDENCE_DIR, "replay"), exist_ok=True)
    for i, o in enumerate(seen.values()):
        rp = os.path.join(EVIDENCE_DIR, "replay", f"{chk.pid}-{i}.json")
        rec = o.as_dict()
        rec.update({"property": chk.pid, "rule_text": chk.rules.get(o.rule, ""), "repo": chk.repo, "partial_run": True})
        with open(rp, "w") as fh:
            json.dump(rec, fh, indent=1)
        loc = f"{o.where}" + (f":{o.line}" if o.line else "")
        print(f"  {chk.pid} {o.rule} [{o.key}] @ {loc}: found {o.found!r}; expected {o.expected!r}. {o.detail}", file=out)
        print(f"VIOLATION property={chk.pid} replay={rp}", file=out)
    return len(seen)


def finish(chk, seed=0, out=sys.stdout, write=True):
    """Apply known-findings, print protocol lines, write evidence.  Returns exit status."""
    chk.check_floors()
    known = [k for k in load_known() if k["property"] == chk.pid and k.get("status") == "known"]
    known_keys = {f'{k["rule"]}|{k["key"]}': k for k in known}
    failed = [o for o in chk.obs if not o.ok]
    # one finding per key
    seen = {}
    for o in failed:
        seen.setdefault(o.fkey(), o)
    violations, matched = [], []
    for fk, o in seen.items():
        if fk in known_keys:
            matched.append((o, known_keys[fk]))
        else:
            violations.append(o)
    os.makedirs(os.path.join(EVIDENCE_DIR, "replay"), exist_ok=True)
    # stale replays of this property are removed so that a path printed today is of today
    for f in os.listdir(os.path.join(EVIDENCE_DIR, "replay")):
        if f.startswith(chk.pid + "-"):
            try:
                os.remove(os.path.join(EVIDENCE_DIR, "replay", f))
            except OSError:
                pass
    for o, k in matched:
        print(f"KNOWN-FINDING: property={chk.pid} {o.rule} {o.key}: {k.get('what', o.detail)}", file=out)
    for i, o in enumerate(violations):
        rp = os.path.join(EVIDENCE_DIR, "replay", f"{chk.pid}-{i}.json")
        rec = o.as_dict()
        rec.update({"property": chk.pid, "rule_text": chk.rules.get(o.rule, ""), "repo": chk.repo})
        with open(rp, "w") as fh:
            json.dump(rec, fh, indent=1)
        loc = f"{o.where}" + (f":{o.line}" if o.line else "")
        print(f"  {chk.pid} {o.rule} [{o.key}] @ {loc}: found {o.found!r}; expected {o.expected!r}. {o.detail}", file=out)
        print(f"VIOLATION property={chk.pid} replay={rp}", file=out)
    n_ob = len(chk.obs)
    n_ok = sum(1 for o in chk.obs if o.ok)
    per_rule = {}
    for o in chk.obs:
        d = per_rule.setdefault(o.rule, {"instances": 0, "ok": 0, "floor": chk.floors.get(o.rule, 0)})
        d["instances"] += 1
        d["ok"] += int(o.ok)
    distinct = len({o.fkey() for o in chk.obs})
    samples = [o.as_dict() for o in failed[:10]]
    # a readable spread of instances: first two of every rule
    cnt = {}
    for o in chk.obs:
        if o.ok and cnt.get(o.rule, 0) < 2:
            cnt[o.rule] = cnt.get(o.rule, 0) + 1
            samples.append(o.as_dict())
    cov = {
        "explanation": chk.explanation,
        "evaluations": max(n_ob, 1),
        "distinct_nontrivial": distinct,
        "rule": "every obligation is one rule instance decided on /repo's current source "
                "(distinct = distinct (rule, construct) keys; an instance is non-trivial because it names "
                "a construct found in the source, never a constant)",
        "obligations": n_ob,
        "discharged": n_ok,
        "samples": samples,
        "per_rule": per_rule,
        "rules": chk.rules,
        "frozen_tables": chk.tables,
        "analysed": dict(chk.src.stats(), digest=chk.src.digest()) if chk.src is not None else {},
        "known_findings_matched": [o.fkey() for o, _ in matched],
        "all_instances": [f"{o.rule}|{o.key}|{'ok' if o.ok else 'FAIL'}" for o in chk.obs],
        "exhaustive": True,
        "notes": chk.notes,
    }
    cov.update(chk.extra)
    if chk.level == "proof":
        cov.setdefault("checker_cmd", f"/venv/bin/python -m renostat check {chk.pid}")
        cov.setdefault("trusted_base", [])
    ev = {
        "property_id": chk.pid, "tier": chk.tier, "seed": int(seed), "level": chk.level,
        "coverage": cov, "assumptions": chk.assumptions,
        "wall_s": round(time.time() - chk.t0, 3), "violations": len(violations),
    }
    if write:
        os.makedirs(EVIDENCE_DIR, exist_ok=True)
        with open(os.path.join(EVIDENCE_DIR, f"{chk.pid}.json"), "w") as fh:
            json.dump(ev, fh, indent=1, default=repr)
    print(f"{chk.pid}: {n_ok}/{n_ob} obligations discharged over {len(per_rule)} rules; "
          f"{len(violations)} violation(s), {len(matched)} known finding(s); "
          f"{ev['wall_s']}s [{chk.tier}]", file=out)
    return 1 if violations else 0
