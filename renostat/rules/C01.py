"""C01 - automatic MPO construction: structural necessary conditions (offset sign and row, algorithm dispatch, narrowing casts,
factor dtype, site-tensor axis layout written by the builder = layout read by the consumers, intra-site operator order)."""
import ast

import sympy as sp

from ..src import AnalysisError, unparse, norm_stmt, walk_no_nested
from ..axes import Tracker
from . import C09

SYM = "renormalizer/mps/symbolic_mpo.py"
MPO = "renormalizer/mps/mpo.py"
MPS = "renormalizer/mps/mps.py"
OPF = "renormalizer/model/op.py"
BIP = "renormalizer/lib/bipartite_matching/bipartite_matching.py"
DOCUMENTED_ALGOS = {"qr", "Hopcroft-Karp", "Hungarian"}


def small_eval(e, env):
    """evaluate list/range/slice arithmetic on ints (for the axis permutation of the builder)"""
    if isinstance(e, ast.Constant):
        return e.value
    if isinstance(e, ast.Name):
        return env[e.id]
    if isinstance(e, ast.Attribute) and unparse(e) in env:
        return env[unparse(e)]
    if isinstance(e, ast.BinOp):
        a, b = small_eval(e.left, env), small_eval(e.right, env)
        return {ast.Add: lambda: a + b, ast.Sub: lambda: a - b, ast.Mult: lambda: a * b}[type(e.op)]()
    if isinstance(e, ast.UnaryOp) and isinstance(e.op, ast.USub):
        return -small_eval(e.operand, env)
    if isinstance(e, ast.List):
        return [small_eval(x, env) for x in e.elts]
    if isinstance(e, ast.Call) and unparse(e.func) in ("list", "range"):
        args = [small_eval(a, env) for a in e.args]
        return list(range(*args)) if unparse(e.func) == "range" else list(args[0])
    if isinstance(e, ast.Subscript):
        v = small_eval(e.value, env)
        s = e.slice
        if isinstance(s, ast.Slice):
            lo = small_eval(s.lower, env) if s.lower else None
            hi = small_eval(s.upper, env) if s.upper else None
            return v[lo:hi]
        return v[small_eval(s, env)]
    raise AnalysisError(f"axis permutation expression outside the fragment: {unparse(e)}")



def _perm_of_moveaxis(n, a, b):
    order = list(range(n))
    x = order.pop(a % n)
    order.insert(b % n, x)
    return order



def narrow_arith_rule(chk, src):
    """the term table is stored as 16-bit unsigned integers: arithmetic on its entries wraps around silently; entries may only be compared, copied, indexed with,
    or converted to a wider type before any arithmetic"""
    TABLE_NAMES = {"table", "table_row", "table_col", "term_row", "term_col", "new_table"}
    n = 0
    for rel in (SYM, "renormalizer/tn/symbolic_ttno.py"):
        for fi in src.funcs_in(rel):
            if fi.parent is not None:
                continue
            params = set(fi.params()) & TABLE_NAMES
            u16 = {unparse(st.targets[0]) for st in ast.walk(fi.node) if isinstance(st, ast.Assign) and "uint16" in unparse(st.value) and isinstance(st.targets[0], ast.Name)}
            # a table converted by np.array(table) without dtype / int64 is wide: names rebound that way are not tainted afterwards (flow-insensitively: only if every binding is wide)
            wide = {unparse(st.targets[0]) for st in ast.walk(fi.node) if isinstance(st, ast.Assign) and isinstance(st.targets[0], ast.Name) and isinstance(st.value, ast.Call)
                    and unparse(st.value.func) in ("np.array", "np.asarray") and not any(k.arg == "dtype" for k in st.value.keywords) and isinstance(st.value.args[0], ast.Name)
                    and st.value.args[0].id == unparse(st.targets[0]) and st.value.args[0].id not in fi.params()}
            tainted = (params | u16) - wide
            if not tainted:
                continue

            def value_use(e):
                """does expression e read *entries* of a tainted table (not its shape / length)?"""
                for x in ast.walk(e):
                    if isinstance(x, ast.Name) and x.id in tainted:
                        return True
                return False

            def strip_meta(e):
                """replace len(t), t.shape, t.ndim, t.size by constants so that only entry reads remain"""
                class R(ast.NodeTransformer):
                    def visit_Call(self, c):
                        if unparse(c.func) == "len":
                            return ast.Constant(0)
                        if isinstance(c.func, ast.Attribute) and c.func.attr == "astype" and c.args and unparse(c.args[0]) in ("int", "np.int64", "np.int32", "np.uint32", "np.uint64", "'int64'", "float"):
                            return ast.Constant(0)
                        if unparse(c.func) in ("int", "np.int64", "np.int32", "np.uint32", "np.uint64", "float"):
                            return ast.Constant(0)
                        return self.generic_visit(c)

                    def visit_Attribute(self, a):
                        if a.attr in ("shape", "ndim", "size", "dtype"):
                            return ast.Constant(0)
                        return self.generic_visit(a)
                import copy
                return R().visit(copy.deepcopy(e))
            for b in ast.walk(fi.node):
                if isinstance(b, ast.BinOp) and isinstance(b.op, (ast.Mult, ast.Add, ast.Sub, ast.LShift, ast.Pow)):
                    def is_list(x):
                        return isinstance(x, (ast.List, ast.Tuple, ast.ListComp)) or (isinstance(x, ast.Call) and unparse(x.func) in ("list", "tuple"))
                    if isinstance(b.op, ast.Add) and (is_list(b.left) or is_list(b.right)):
                        continue      # concatenation of Python lists, not arithmetic on entries
                    l, r = strip_meta(b.left), strip_meta(b.right)
                    if value_use(l) or value_use(r):
                        n += 1
                        chk.ob("narrow-arith", f"{fi.qual}: {unparse(b)[:60]}", False, fi.where, unparse(b)[:80], "comparison / indexing only, or .astype(np.int64) first", line=b.lineno,
                               detail=f"{fi.qual} does arithmetic on entries of the 16-bit term table: the result wraps modulo 65536 without any warning once (bond dimension) x (number of "
                                      "elementary operators) reaches that size, merging distinct rows")
            chk.ob("narrow-arith", f"{fi.qual}: no arithmetic on table entries", True, fi.where, sorted(tainted), "")
            n += 1
    return n


def term_table_rule(chk, src):
    """abstract run of _terms_to_table on symbolic terms: row i of the table and entry i of the factor list are those of term i.  Two of the
    terms are the same operator string (same symbol, same degrees of freedom, same elementary operators) with different coefficients and a third
    shares one elementary operator with them, so that any memoisation keyed on less than the whole term shows up."""
    from ..syminterp import SymInterp, Sym, OpenSym, Blob
    fi = src.func(SYM, "_terms_to_table")
    problems = []
    for const in (0, 0.37):
        ident = {}

        def identity(dof, qn_size=None, _ident=ident):
            return _ident.setdefault(dof, Sym(f"I({dof})", dofs=[dof], symbol="I", factor=1.0))
        sites = {"a": 0, "b": 1, "c": 2, "c2": 2}
        basis = [Sym("basis0", multi_dof=False, dof="a"), Sym("basis1", multi_dof=False, dof="b"), Sym("basis2", multi_dof=True, dof=["c", "c2"])]
        model = Sym("model", basis=basis, dof_to_siteidx=sites, qn_size=1)
        xa, zb, yc = Sym("X(a)", dofs=["a"], symbol="X"), Sym("Z(b)", dofs=["b"], symbol="Z"), Sym("Y(c2)", dofs=["c2"], symbol="Y")
        spec = [("t0", "X Z", ["a", "b"], [xa, zb], "f0"), ("t1", "X Z", ["a", "b"], [xa, zb], "f1"), ("t2", "X Y", ["a", "c2"], [xa, yc], "f2"), ("t3", "Y", ["c2"], [yc], "f3")]
        terms = [Sym(n, symbol=sy, dofs=list(d), factor=f + "(unsplit)", qn_list=[0] * len(d), split_elementary=(lambda m, _e=e, _f=f: (list(_e), _f))) for n, sy, d, e, f in spec]
        got = {}

        class _Arr(Sym):
            def __init__(self, data):
                super().__init__("array")
                self.data = data
                self.shape = (len(data),) + ((len(data[0]),) if data and isinstance(data[0], list) else ())

        def dedup(table, factor):
            got["table"], got["factor"] = table, factor
            return table, factor
        it = SymInterp(src, None, {"np": OpenSym("np", array=lambda x, dtype=None: _Arr(x), iinfo=lambda t: Sym("iinfo", max=10 ** 9), uint16="uint16", uint32="uint32"),
                                   "logger": OpenSym("logger"), "Op": Sym("Op", identity=identity), "_deduplicate_table": dedup})
        try:
            res = it.call_function(fi, [model, terms, const])
        except AnalysisError:
            raise               # the stand-ins cannot follow the code: no verdict
        except Exception as e:  # noqa: BLE001 - an exception of the interpreted code is a finding of the rule
            problems.append(f"const={const}: {type(e).__name__}: {e}")
            continue
        if not (isinstance(res, tuple) and len(res) == 3 and "table" in got and isinstance(got["table"], _Arr) and isinstance(got["factor"], _Arr)):
            problems.append(f"const={const}: the table and the factor list do not reach _deduplicate_table / the result")
            continue
        prim = res[1]
        rows, facs = got["table"].data, got["factor"].data
        want_f = [f for *_x, f in spec] + ([const] if const != 0 else [])
        if facs != want_f:
            problems.append(f"const={const}: factor list {facs}, expected {want_f} (entry i = coefficient returned by term i's own split_elementary, the constant last)")
        want_rows = []
        for n, sy, d, e, f in spec:
            r = [identity("a"), identity("b"), identity("c")]
            for x in e:
                r[sites[x.dofs[0]]] = x
            want_rows.append(r)
        if const != 0:
            want_rows.append([identity("a"), identity("b"), identity("c")])
        try:
            have_rows = [[prim[k] for k in r] for r in rows]
        except (IndexError, TypeError) as e:
            have_rows = f"{type(e).__name__}: {e}"
        if have_rows != want_rows:
            problems.append(f"const={const}: table rows resolve to {have_rows}, expected {want_rows}")
        if len(set(map(id, prim))) != len(prim):
            problems.append(f"const={const}: a primary operator is registered twice: {prim}")
    chk.ob("term-table", "row i and coefficient i of the operator table come from term i (terms with equal operator strings keep their own coefficient)", not problems, fi.where,
           problems[:2] or "as expected", "as expected", line=fi.node.lineno,
           detail="the table handed to the decomposition must hold, per term, the indices of that term's own elementary operators and that term's own coefficient; " + (problems[0] if problems else "")
                  + " - otherwise the built operator is the sum of different terms than the ones given")


def split_elementary_rule(chk, src, rule):
    """abstract run of Op.split_elementary (helper methods from source) on operators whose elementary factors are tagged, with `Op(...)` and `Op.product` as recorders:
    factors are grouped by the site of their degree of freedom, inside a site they keep the order in which they were written (operators on one site do not commute), the
    per-site products come out with the sites ascending, every factor appears exactly once with its own symbol, degree of freedom and quantum number, the scalar factor is
    returned beside them unchanged; an unknown degree of freedom is rejected"""
    from ..syminterp import SymInterp, Sym, Blob, SymRaise
    from .chain_rules import class_resolver
    fi = src.func(OPF, "Op.split_elementary")
    resolve = class_resolver(src, {"Op": OPF})
    made = []

    class OpNS(Sym):
        def __call__(self, symbol, dofs=None, factor=1.0, qn=None):
            o = Sym("elem", symbol=symbol, dofs=dofs, qn=qn, factor=factor, kind="elem")
            made.append(o)
            return o

        def product(self, ops):
            return Sym("product", parts=list(ops), kind="product")
    cases = [
        ("five factors on two sites, interleaved", ["s0", "s1", "s2", "s3", "s4"], ["d3", "d1", "d3", "d2", "d1"], {"d1": 0, "d2": 0, "d3": 1}, [[1, 3, 4], [0, 2]]),
        ("sites given in descending order", ["s0", "s1", "s2"], ["d9", "d5", "d1"], {"d9": 7, "d5": 4, "d1": 2}, [[2], [1], [0]]),
        ("all factors on one site", ["s0", "s1", "s2"], ["a", "b", "a"], {"a": 3, "b": 3}, [[0, 1, 2]]),
    ]
    for name, syms, dofs, mapping, want in cases:
        del made[:]
        me = Sym("op", symbol=" ".join(syms), split_symbol=list(syms), dofs=list(dofs), qn_list=[f"qn{k}" for k in range(len(syms))], _factor="the factor", factor="the factor")
        me._cls = "Op"
        it = SymInterp(src, resolve, {"Op": OpNS("Op"), "logger": Blob("logger")})
        it.max_depth = 8
        probs = []
        try:
            res = it.call_function(fi, [me, dict(mapping)])
        except SymRaise as e:
            res = None
            probs.append(f"raises {e}")
        if res is not None:
            if not (isinstance(res, tuple) and len(res) == 2 and isinstance(res[0], list)):
                probs.append(f"returns {res!r}; expected (list of per-site operators, factor)")
            else:
                ops, fac = res
                if fac != "the factor":
                    probs.append(f"factor {fac!r}; expected the operator's factor unchanged")
                got = []
                for o in ops:
                    parts = o.parts if getattr(o, "kind", None) == "product" else [o]
                    idxs = []
                    for e_ in parts:
                        k_ = syms.index(e_.symbol) if getattr(e_, "symbol", None) in syms else None
                        if k_ is None or e_.dofs != dofs[k_] or e_.qn != f"qn{k_}":
                            probs.append(f"elementary factor ({getattr(e_, 'symbol', e_)!r}, {getattr(e_, 'dofs', None)!r}, {getattr(e_, 'qn', None)!r}) is not one of the operator's factors with its own degree of freedom and quantum number")
                        idxs.append(k_)
                    got.append(idxs)
                if got != want:
                    probs.append(f"per-site products {got} (indices of the factors as written); expected {want}: sites ascending, written order inside a site")
        chk.ob(rule, f"split_elementary[{name}]", not probs, fi.where, probs[:3] or "grouped by site, written order kept", "grouped by site, written order kept", line=fi.node.lineno,
               detail="operators on one site do not commute: their order inside a term must be kept when the term is split by site, and the sites must come out ascending: " + (probs[0] if probs else ""))
    # single factor: returned as it is; unknown degree of freedom: rejected
    del made[:]
    me = Sym("op", symbol="s0", split_symbol=["s0"], dofs=["d1"], qn_list=["qn0"], _factor="the factor", factor="the factor")
    me._cls = "Op"
    it = SymInterp(src, resolve, {"Op": OpNS("Op"), "logger": Blob("logger")})
    res = it.call_function(fi, [me, {"d1": 0}])
    ok1 = isinstance(res, tuple) and len(res) == 2 and res[1] == "the factor" and isinstance(res[0], list) and len(res[0]) == 1 and getattr(res[0][0], "symbol", None) == "s0" \
        and res[0][0].dofs in (["d1"], "d1") and res[0][0].qn in (["qn0"], "qn0")
    chk.ob(rule, "split_elementary[single factor]", ok1, fi.where, repr(res)[:120], "([the factor's operator], factor)", line=fi.node.lineno)
    me = Sym("op", symbol="s0 s1", split_symbol=["s0", "s1"], dofs=["d1", "nowhere"], qn_list=["qn0", "qn1"], _factor="the factor", factor="the factor")
    me._cls = "Op"
    it = SymInterp(src, resolve, {"Op": OpNS("Op"), "logger": Blob("logger")})
    try:
        res = it.call_function(fi, [me, {"d1": 0}])
        rejected = False
    except (SymRaise, KeyError) as e:
        res, rejected = str(e), True
    chk.ob(rule, "split_elementary[unknown degree of freedom] is rejected", rejected, fi.where, repr(res)[:100], "an exception", line=fi.node.lineno,
           detail="a term on a degree of freedom the model does not have must not be dropped or put on some site silently")


def deduplicate_rule(chk, src, rule):
    """abstract run of _deduplicate_table on exact data (rows as tuples, coefficients as exact rationals, the numpy / scipy operations it plausibly uses as operations on
    lists): equal rows are merged by adding their coefficients, each distinct row appears once with the sum, and a merged row is dropped only when its *merged*
    coefficient is negligible against the largest *merged* coefficient (cancelling duplicates of any size must not take small genuine terms with them)"""
    from fractions import Fraction as Fr
    from ..syminterp import SymInterp, Sym, Blob, OpenSym, SymRaise
    fi = src.func(SYM, "_deduplicate_table")

    class Vec(Sym):
        """exact vector"""
        def __init__(self, v):
            super().__init__("vector")
            self.v = [x if isinstance(x, bool) else Fr(x) for x in v]
            self.shape = (len(self.v),)

        def __len__(self):
            return len(self.v)

        def __iter__(self):
            return iter(self.v)

        def __getitem__(self, k):
            if isinstance(k, Vec):
                if k.v and all(isinstance(x, bool) for x in k.v):
                    return Vec([a_ for a_, m in zip(self.v, k.v) if m])
                return Vec([self.v[int(i)] for i in k.v])
            if isinstance(k, slice):
                return Vec(self.v[k])
            return self.v[int(k)]

        def _cmp(self, o, f):
            ov = o.v if isinstance(o, Vec) else [o] * len(self.v)
            return Vec([bool(f(a_, Fr(b_))) for a_, b_ in zip(self.v, ov)])

        def __gt__(self, o):
            return self._cmp(o, lambda a_, b_: a_ > b_)

        def __ge__(self, o):
            return self._cmp(o, lambda a_, b_: a_ >= b_)

        def __lt__(self, o):
            return self._cmp(o, lambda a_, b_: a_ < b_)

        def __mul__(self, o):
            return Vec([a_ * Fr(o) for a_ in self.v])

        __rmul__ = __mul__

        def __truediv__(self, o):
            return Vec([a_ / Fr(o) for a_ in self.v])

        def __invert__(self):
            return Vec([not a_ for a_ in self.v])

        def astype(self, *a, **k):
            return self

    class Tab(Sym):
        def __init__(self, rows):
            super().__init__("table")
            self.rows = [tuple(r) for r in rows]
            self.shape = (len(self.rows), len(self.rows[0]) if self.rows else 0)

        def __len__(self):
            return len(self.rows)

        def __iter__(self):
            return iter(self.rows)

        def __getitem__(self, k):
            if isinstance(k, Vec):
                if k.v and all(isinstance(x, bool) for x in k.v):
                    return Tab([r for r, m in zip(self.rows, k.v) if m])
                return Tab([self.rows[int(i)] for i in k.v])
            if isinstance(k, tuple) and len(k) == 2 and k[0] == slice(None) and hasattr(k[1], "__index__"):
                return Vec([r[int(k[1])] for r in self.rows])
            if hasattr(k, "__index__"):
                return self.rows[int(k)]
            raise AnalysisError(f"table index {k!r} is not modelled")

    def unique(t, axis=None, return_inverse=False, return_index=False, return_counts=False):
        rows = sorted(set(t.rows))
        out = [Tab(rows)]
        if return_index:
            out.append(Vec([t.rows.index(r) for r in rows]))
        if return_inverse:
            out.append(Vec([rows.index(r) for r in t.rows]))
        if return_counts:
            out.append(Vec([t.rows.count(r) for r in rows]))
        return out[0] if len(out) == 1 else tuple(out)

    class Sparse(Sym):
        def __init__(self, data, rows, cols):
            super().__init__("sparse")
            self.ent = list(zip([int(x) for x in rows], [int(x) for x in cols], [Fr(x) for x in data]))

        def dot(self, vec):
            n = max(r for r, _, _ in self.ent) + 1
            out = [Fr(0)] * n
            for r, c, d_ in self.ent:
                out[r] += d_ * vec.v[c]
            return Vec(out)

        __matmul__ = dot

    def csr(arg, shape=None, **k):
        data, (rows, cols) = arg
        return Sparse(list(data), list(rows), list(cols))

    def np_array(x, *a, **k):
        if isinstance(x, (Tab, Vec)):
            return x
        x = list(x)
        if x and isinstance(x[0], (list, tuple)):
            return Tab(x)
        return Vec(x)

    def bincount(idx, weights=None, minlength=0):
        n = max(max(int(i) for i in idx) + 1, minlength)
        out = [Fr(0)] * n
        for i, w_ in zip(idx, weights.v if weights is not None else [1] * len(idx)):
            out[int(i)] += Fr(w_)
        return Vec(out)

    def add_at(target, idx, vals):
        for i, v_ in zip(idx, vals):
            target.v[int(i)] += Fr(v_)
    npx = OpenSym("np", make=lambda t: Blob(t), unique=unique, array=np_array, asarray=np_array, ones=lambda n_, *a, **k: Vec([1] * int(n_)), zeros=lambda n_, *a, **k: Vec([0] * int(n_)),
                  abs=lambda v: Vec([abs(x) for x in v.v]), absolute=lambda v: Vec([abs(x) for x in v.v]), max=lambda v: max(v.v), amax=lambda v: max(v.v), arange=lambda n_: Vec(range(int(n_))),
                  iinfo=lambda t: Sym("iinfo", max=10 ** 12), uint32="uint32", uint16="uint16", bincount=bincount, add=Sym("add", at=add_at), nonzero=lambda m: (Vec([i for i, x in enumerate(m.v) if x]),),
                  flatnonzero=lambda m: Vec([i for i, x in enumerate(m.v) if x]), logical_not=lambda m: Vec([not x for x in m.v]), isclose=None)
    A, B, C, D = (0, 1), (0, 2), (1, 1), (2, 0)
    big = 10 ** 15
    cases = [
        ("duplicates merged, order irrelevant", [A, B, A, C], [2, 3, 5, 7], {A: 7, B: 3, C: 7}),
        ("exact cancellation removes the row", [A, B, A], [4, 1, -4], {B: 1}),
        ("large cancelling duplicates next to a unit term", [A, B, A, C], [big, 1, -big, 2], {B: 1, C: 2}),
        ("three-way cancellation next to small couplings", [D, A, D, D, B], [4 * 10 ** 10, Fr(1, 10 ** 5), -10 ** 10, -3 * 10 ** 10, Fr(2, 10 ** 5)], {A: Fr(1, 10 ** 5), B: Fr(2, 10 ** 5)}),
        ("a genuinely negligible merged term is dropped", [A, B], [1, Fr(1, 10 ** 17)], {A: 1}),
    ]
    for name, rows, facs, want in cases:
        it = SymInterp(src, None, {"np": npx, "scipy": Sym("scipy", sparse=Sym("sparse", csr_matrix=csr, coo_matrix=csr)), "logger": Blob("logger"), "float": Fr, "len": len})
        it.max_depth = 6
        it.exact = True
        probs = []
        try:
            res = it.call_function(fi, [Tab(rows), Vec(facs)])
        except SymRaise as e:
            res = None
            probs.append(f"raises {e}")
        if res is not None:
            if not (isinstance(res, tuple) and len(res) == 2 and isinstance(res[0], Tab) and isinstance(res[1], Vec) and len(res[0]) == len(res[1])):
                probs.append(f"returns {str(res)[:80]}; expected (table, coefficients) of equal length")
            else:
                got = {}
                for r, f_ in zip(res[0].rows, res[1].v):
                    if r in got:
                        probs.append(f"row {r} appears twice in the result")
                    got[r] = f_
                if got != {k_: Fr(v_) for k_, v_ in want.items()}:
                    probs.append(f"result {dict((k_, str(v_)) for k_, v_ in got.items())}; expected {dict((k_, str(v_)) for k_, v_ in want.items())}")
        chk.ob(rule, f"_deduplicate_table[{name}]", not probs, fi.where, probs[:2] or "merged", "equal rows merged by summing; negligibility judged on the merged coefficients", line=fi.node.lineno,
               detail="terms with the same operator string are one term whose coefficient is the sum: a threshold taken from the unmerged coefficients drops genuine small terms whenever "
                      "large duplicates cancel: " + (probs[0] if probs else ""))


def factor_dtype_rule(chk, src):
    """arrays that receive term factors / operator matrices take their dtype from them (a fixed real dtype drops imaginary parts with a warning only)"""
    init = src.func(MPO, "Mpo.__init__")
    CREATORS = {"np.zeros", "np.empty", "np.ones", "np.full", "np.zeros_like", "np.empty_like"}
    for rel in (SYM, MPO):
        for fi in src.funcs_in(rel):
            if fi.parent is not None:
                continue
            names = {p for p in fi.params() if p in ("factor", "const", "new_factor")}
            tainted = set(names)
            has = bool(names) or any(isinstance(n, ast.Name) and n.id in ("factor", "op_mat") for n in ast.walk(fi.node)) or "op_mat" in unparse(fi.node)
            if not has:
                continue
            changed = True
            while changed:
                changed = False
                for n in walk_no_nested(fi.node):
                    if isinstance(n, ast.Assign) and isinstance(n.targets[0], ast.Name):
                        if n.targets[0].id not in tainted and any(isinstance(x, ast.Name) and x.id in tainted for x in ast.walk(n.value)) or \
                                (n.targets[0].id not in tainted and "op_mat(" in unparse(n.value)):
                            tainted.add(n.targets[0].id)
                            changed = True
                # a loop over (zip / enumerate of) tainted sequences taints its targets
                for n in walk_no_nested(fi.node):
                    if isinstance(n, (ast.For, ast.comprehension)) and any(isinstance(x, ast.Name) and x.id in tainted for x in ast.walk(n.iter)):
                        for x in ast.walk(n.target):
                            if isinstance(x, ast.Name) and x.id not in tainted:
                                tainted.add(x.id)
                                changed = True
            created = {}
            for n in walk_no_nested(fi.node):
                if isinstance(n, ast.Assign) and isinstance(n.targets[0], ast.Name) and isinstance(n.value, ast.Call) and unparse(n.value.func) in CREATORS:
                    created[n.targets[0].id] = n.value
            for n in walk_no_nested(fi.node):
                tgt = None
                val = None
                if isinstance(n, ast.Assign) and isinstance(n.targets[0], ast.Subscript) and isinstance(n.targets[0].value, ast.Name):
                    tgt, val = n.targets[0].value.id, n.value
                if isinstance(n, ast.AugAssign) and isinstance(n.target, ast.Subscript) and isinstance(n.target.value, ast.Name):
                    tgt, val = n.target.value.id, n.value
                if tgt in created and val is not None and (any(isinstance(x, ast.Name) and x.id in tainted for x in ast.walk(val)) or "op_mat(" in unparse(val)):
                    cr = created[tgt]
                    dt = [k.value for k in cr.keywords if k.arg == "dtype"]
                    fixed_real = (not dt and unparse(cr.func) not in ("np.zeros_like", "np.empty_like")) or \
                        (dt and unparse(dt[0]) in ("float", "np.float64", "np.float32", "int", "np.int64", "'float'", "backend.real_dtype"))
                    chk.ob("factor-dtype", f"{fi.qual}: {tgt} = {norm_stmt(cr, 50)}", not fixed_real, fi.where, unparse(dt[0]) if dt else "default float64", "dtype taken from the factors",
                           line=cr.lineno, detail=f"{fi.qual} writes term factors / operator matrices into an array of fixed real dtype: imaginary parts of complex prefactors are dropped "
                                                  f"(only a ComplexWarning), so complex Hamiltonians give a wrong operator")
    mi = [n for n in ast.walk(init.node) if isinstance(n, ast.Assign) and unparse(n.targets[0]) == "self.dtype"]
    chk.ob("factor-dtype", "Mpo.__init__: dtype of the operator = dtype of the factors", len(mi) == 1 and unparse(mi[0].value) == "factor.dtype", init.where, [unparse(x.value) for x in mi], "factor.dtype",
           line=init.node.lineno)


def run(chk):
    src = chk.src
    chk.explanation = (
        "Decides structural necessary conditions of C01 (clause-only): (1) the constant offset reaches the factor vector exactly negated and on "
        "the all-identity row; (2) the algorithm dispatch is total over the three documented names, unknown names reach `assert False`, every "
        "default is a documented name; (3) every narrowing cast to uint16 of a freshly computed count is guarded by an assertion against "
        "iinfo(uint16).max in the same function; (4) arrays that receive term factors take their dtype from the factors (a fixed real dtype "
        "silently drops imaginary parts); (5) the numeric site tensor is laid out (left bond, row, column, right bond) by the builder and read "
        "that way by apply / todense; the symbolic site matrix is indexed [incoming bond][outgoing bond]; (6) splitting a term into per-site "
        "operators keeps the intra-site order and ascending site order, duplicate rows are merged by summing factors; (7) the two one-site "
        "decompositions, interpreted as whole functions on small exact coefficient tables (11 bipartite patterns x both matchings with the vertex "
        "cover computed from the matching module's own source; 9 rational coefficient matrices with scipy's pivoted QR as an oracle), return out "
        "operators, table and factors that reproduce the table given entry by entry. Not decided: exactness of the decomposition for all term "
        "tables (the cases are a finite set of small patterns), validity of the oracle's contract for scipy, swap exactness, floating point.")
    chk.assumptions = ["Quantity.as_au() is sign preserving", "numpy creates float64 arrays when no dtype is given",
                       "scipy.linalg.qr(a, mode='economic', pivoting=True) returns (q, r, p) with a[:, p] = q r, q with orthonormal columns, r upper triangular with non-increasing |diagonal|",
                       "numpy / scipy.sparse index semantics as modelled in renostat/xnp.py (an operation outside the model stops the analysis)"]
    chk.rule("offset-sign", "offset -> constant of the term table: exactly one negation on the way (the table side is decided by term-table)", 2)
    chk.rule("algo-dispatch", "dispatch total over {qr, Hopcroft-Karp, Hungarian}; unknown -> assert False; defaults documented", 5)
    chk.rule("narrow-cast", "uint16 construction from a computed count is guarded by an assert against iinfo(uint16).max", 3)
    chk.rule("narrow-arith", "no arithmetic on entries of the uint16 term table before widening", 4)
    narrow_arith_rule(chk, src)
    chk.rule("factor-dtype", "arrays receiving factor-derived values do not have a fixed real dtype", 2)
    chk.rule("layout", "site tensor layout (left, row, column, right): builder permutation and provenance of the local matrices (abstract run), dense readers, symbolic matrix indexing", 4)
    chk.rule("qr-shortcut-shape", "_decompose_qr on single-column and single-row coefficient matrices (abstract runs on exact data): the result reproduces every coefficient, "
             "so the branch that skips the QR factorisation is taken for one column only", 4)
    chk.rule("decomposition-exact", "_decompose_graph (both matchings) and _decompose_qr (scipy's factorisation as an exact oracle) on small exact coefficient tables: out operators x new table x "
             "new factors reproduce the table given, entry by entry", 20)
    from . import decompose_rules as DR
    DR.qr_rule(chk, src, "decomposition-exact", rule_shortcut="qr-shortcut-shape")
    DR.graph_rule(chk, src, "decomposition-exact")
    chk.rule("builder-exact", "_construct_symbolic_mpo as a whole (graph decompositions, 2-5 sites, term tables with shared prefixes / suffixes, long-range pairs, the identity term) on exact data: "
             "the expanded product of the bond operators is the term table with its coefficients; quantum numbers attached to the bond operators are those of their strings", 12)
    DR.chain_builder_rule(chk, src, "builder-exact")
    DR.one_term_rule(chk, src, "builder-exact")
    chk.rule("term-validation", "Model.check_operator_terms (abstract run, shared with C15): every term with a non-zero factor - however small - reaches the table; sums are flattened in order", 2)
    from .C15 import term_validation_rule
    term_validation_rule(chk, src)
    chk.rule("split-order", "Op.split_elementary keeps intra-site symbol order, sites ascending; duplicates merged by summing factors", 4)
    chk.rule("term-table", "_terms_to_table: row i and coefficient i are those of term i; constant last, only when non-zero (abstract run on terms with equal operator strings)", 1)
    s = sp.Symbol("s")
    # ---- offset: abstract run of Mpo.__init__ up to the call of _terms_to_table (a recorder bound to that function's own signature)
    init = src.func(MPO, "Mpo.__init__")
    from ..syminterp import SymInterp as _SI, Sym as _Sym, Blob as _Blob
    from .chain_rules import class_resolver as _resolver
    s_au, s_val = sp.Symbol("offset_in_atomic_units"), sp.Symbol("offset_bare_number")

    class _Stop(Exception):
        pass
    ttt = src.func(SYM, "_terms_to_table")
    seen = {}

    def _rec(*a_, **k_):
        ps = ttt.params()
        bound = {ps[i]: v for i, v in enumerate(a_) if i < len(ps)}
        bound.update(k_)
        seen.update(bound)
        raise _Stop()
    quantity = _Sym("Quantity")
    off = _Sym("offset", as_au=lambda: s_au, value=s_val, unit="some unit")
    terms_in = [_Sym("term0"), _Sym("term1")]
    model = _Sym("model", ham_terms=terms_in, check_operator_terms=lambda t_: list(t_), basis=[], nsite=0)
    me = _Sym("mpo", _cls="Mpo")
    it0 = _SI(src, _resolver(src, {"Mpo": MPO}), {"_terms_to_table": _rec, "Quantity": quantity, "isinstance": lambda x, t_: (x is off) if t_ is quantity else (isinstance(x, t_) if isinstance(t_, type) else False),
                                                "super": lambda *a_: _Sym("super", __init__=lambda *a2, **k2: None), "logger": _Blob("logger"), "Op": _Sym("Op"), "Mpo": _Sym("Mpo")})
    try:
        it0.call_function(init, [me, model, None, off])
        raise AnalysisError(f"{init.where}: Mpo.__init__ finished without calling _terms_to_table")
    except _Stop:
        pass
    const_name = ttt.params()[2] if len(ttt.params()) > 2 else None
    v = seen.get(const_name)
    stored = getattr(me, "offset", None)
    chk.ob("offset-sign", "Mpo.__init__: self.offset = offset.as_au()", stored == s_au, init.where, str(stored), "the offset in atomic units", line=init.node.lineno,
           detail="the requested offset is a quantity with a unit: the stored offset and the constant of the table are its value in atomic units, whatever unit it was given in")
    chk.ob("offset-sign", "Mpo.__init__ passes -offset as the constant", v is not None and sp.simplify(sp.sympify(v) + s_au) == 0, init.where, str(v), "-(offset in atomic units)", line=init.node.lineno,
           detail="the operator must be sum_k c_k O_k MINUS the offset; the sign only matters for non-zero offsets, the unit only for offsets not given in atomic units")
    # that the constant is appended unchanged, last, on an all-identity row and only when non-zero is decided by the abstract run of _terms_to_table (term-table)
    # ---- dispatch
    one = src.func(SYM, "_construct_symbolic_mpo_one_site")
    # abstract run of the one-site dispatcher: which decomposition gets the table, and with what
    from ..syminterp import SymInterp, Sym, Blob, OpenSym

    class _Row(Sym):
        def tobytes(self):
            return self._name.encode()

    class _Tab(Sym):
        def __init__(self, name, rows, width):
            super().__init__(name)
            self.rows, self.shape = rows, (len(rows), width)

        def __iter__(self):
            return iter(self.rows)

        def __len__(self):
            return len(self.rows)

        def __getitem__(self, k_):
            return self.rows[k_]
    deferred = []
    for algo_ in ("qr", "Hopcroft-Karp", "Hungarian"):
        called = []
        rows = [_Row(x) for x in ("A", "B", "A", "C", "B")]
        t_col = _Tab("table_col", rows, 3)
        t_row = _Tab("table_row", [_Row(f"r{q}") for q in range(5)], 2)
        coo = []

        def unique(t, axis=None, return_inverse=False):
            u = _Tab("unique(" + t._name + ")", t.rows, t.shape[1])
            return (u, f"inverse({t._name})") if return_inverse else u

        def coo_matrix(arg, **k_):
            coo.append(arg)
            return Sym("coo", tocsr=lambda: Sym("non_red"))
        npx = OpenSym("np", make=lambda t_: Blob(t_), unique=unique, arange=lambda n_: _Ar(f"arange({n_})"))

        class _Ar(Sym):
            def __add__(self, o):
                return _Ar(f"{self._name}+{o}")
        it1 = SymInterp(src, None, {"np": npx, "scipy": Sym("scipy", sparse=Sym("sparse", coo_matrix=coo_matrix)),
                                    "_decompose_graph": lambda *a: called.append(("graph", a)) or ("out_ops", "table", "factor"),
                                    "_decompose_qr": lambda *a: called.append(("qr", a)) or ("out_ops", "table", "factor"), "len": lambda x: 5 if x == "factor" else len(x)})
        it1.max_depth = 8
        try:
            res1 = it1.call_function(one, [t_row, t_col, ["in_ops"], "factor", "primary_ops", algo_, 1])
        except (TypeError, KeyError, IndexError, AttributeError, ValueError) as e_:
            # the stand-ins of this run do not model the operation: the other rules report first, the run's incapacity is raised at the end
            deferred.append(AnalysisError(f"{one.where}[{algo_}]: abstract run of the one-site dispatcher: {type(e_).__name__}: {e_}"))
            continue
        want_kind = "qr" if algo_ == "qr" else "graph"
        probs1 = []
        if [c[0] for c in called] != [want_kind]:
            probs1.append(f"decompositions called: {[c[0] for c in called]}, expected {[want_kind]}")
        else:
            a_ = called[0][1]
            col_ids = [r._name for r in a_[1]] if isinstance(a_[1], list) else None
            if len(a_) != 8 or not isinstance(a_[0], _Tab) or a_[0]._name != "unique(table_row)" or col_ids != ["A", "B", "C"] or getattr(a_[2], "_name", None) != "non_red" \
                    or list(a_[3:]) != [["in_ops"], "factor", "primary_ops", algo_, 1]:
                probs1.append(f"arguments {[getattr(x, '_name', x) for x in a_]}; expected (unique rows of the row part, unique rows of the column part in first-seen order, the sparse table, in_ops_list, factor, primary_ops, algo, k)")
            if len(coo) != 1 or not (isinstance(coo[0], tuple) and len(coo[0]) == 2 and getattr(coo[0][0], "_name", None) == "arange(5)+1" and coo[0][1][0] == "inverse(table_row)" and list(coo[0][1][1]) == [0, 1, 0, 2, 1]):
                probs1.append(f"sparse table built from {coo}; expected entries 1..n_terms at (row class, column class) of every term")
            if res1 != ("out_ops", "table", "factor"):
                probs1.append("the decomposition's result is not returned")
        chk.ob("algo-dispatch", f"one-site dispatcher[{algo_}]", not probs1, one.where, probs1[:2] or f"{want_kind} decomposition of the (row class x column class) table", f"{want_kind} decomposition of the (row class x column class) table",
               line=one.node.lineno, detail="names starting with 'qr' go to the QR decomposition, every other documented name to the bipartite-graph decomposition: " + (probs1[0] if probs1 else ""))
    bvc = src.func(BIP, "bipartite_vertex_cover")
    names = []
    reject = False
    for n in ast.walk(bvc.node):
        if isinstance(n, ast.If) and "algo" in unparse(n.test):
            cur = n
            while True:
                if isinstance(cur.test, ast.Compare) and isinstance(cur.test.comparators[0], ast.Constant):
                    names.append(cur.test.comparators[0].value)
                if len(cur.orelse) == 1 and isinstance(cur.orelse[0], ast.If):
                    cur = cur.orelse[0]
                else:
                    reject = any(isinstance(x, ast.Assert) and unparse(x.test) == "False" or isinstance(x, ast.Raise) for x in cur.orelse)
                    break
            break
    chk.ob("algo-dispatch", "graph algorithms handled", set(names) == DOCUMENTED_ALGOS - {"qr"}, bvc.where, names, sorted(DOCUMENTED_ALGOS - {"qr"}), line=bvc.node.lineno)
    chk.ob("algo-dispatch", "unknown algorithm rejected", reject, bvc.where, reject, True, line=bvc.node.lineno)
    for rel, qual in ((MPO, "Mpo.__init__"), (SYM, "construct_symbolic_mpo"), (MPO, "Mpo.try_swap_site"), (SYM, "swap_site"), (BIP, "bipartite_vertex_cover")):
        fi = src.func(rel, qual)
        a = fi.node.args
        allp = a.posonlyargs + a.args
        d = dict(zip([p.arg for p in allp[len(allp) - len(a.defaults):]], a.defaults))
        if "algo" in d:
            val = d["algo"].value if isinstance(d["algo"], ast.Constant) else None
            chk.ob("algo-dispatch", f"default of {qual}", val in DOCUMENTED_ALGOS, fi.where, val, sorted(DOCUMENTED_ALGOS), line=fi.node.lineno)
    # ---- narrow casts
    n_cast = 0
    for fi in src.funcs_in(SYM):
        if fi.parent is not None:
            continue
        for c in walk_no_nested(fi.node):
            if isinstance(c, ast.Call) and any(k.arg == "dtype" and unparse(k.value) in ("np.uint16", "numpy.uint16", "'uint16'") for k in c.keywords):
                data = c.args[0] if c.args else None
                if data is None:
                    continue
                def lens_of(e, depth=0, fi=fi):
                    """containers whose length enters the expression, also through local names with one definition"""
                    from ..src import defs_of
                    out = {unparse(x.args[0]) for x in ast.walk(e) if isinstance(x, ast.Call) and unparse(x.func) == "len" and x.args}
                    if depth < 2:
                        for x in ast.walk(e):
                            if isinstance(x, ast.Name) and isinstance(x.ctx, ast.Load):
                                d = [y for y in defs_of(fi.node, x.id) if isinstance(y, ast.expr)]
                                if len(d) == 1:
                                    out |= lens_of(d[0], depth + 1)
                    return out
                lens = lens_of(data)
                # the table of primary-operator indices: bounded by the number of primary operators
                if not lens and isinstance(data, ast.Name):
                    src_names = {data.id}
                    if data.id == "table":
                        lens = {"primary_ops"}
                if not lens:
                    continue
                guards = []

                def is_u16_max(e, depth=0, fi=fi):
                    """the expression is the largest 16-bit unsigned value, possibly through local or module-level names"""
                    t_ = unparse(e).replace(" ", "")
                    if t_ in ("np.iinfo(np.uint16).max", "numpy.iinfo(numpy.uint16).max", "np.iinfo('uint16').max", "65535", "2**16-1", "(1<<16)-1", "0xffff"):
                        return True
                    if isinstance(e, ast.Name) and depth < 3:
                        from ..src import defs_of
                        d = [x for x in defs_of(fi.node, e.id) if isinstance(x, ast.expr)]
                        if len(d) == 1:
                            return is_u16_max(d[0], depth + 1)
                        if not d:
                            md = [st.value for st in src.modules[fi.rel].body if isinstance(st, ast.Assign) and len(st.targets) == 1 and unparse(st.targets[0]) == e.id]
                            if len(md) == 1:
                                return is_u16_max(md[0], depth + 1)
                    return False
                for a_ in walk_no_nested(fi.node):
                    if isinstance(a_, ast.Assert) and isinstance(a_.test, ast.Compare) and len(a_.test.ops) == 1:
                        op_, lo, hi = a_.test.ops[0], a_.test.left, a_.test.comparators[0]
                        if isinstance(op_, (ast.Gt, ast.GtE)):
                            lo, hi = hi, lo
                        elif not isinstance(op_, (ast.Lt, ast.LtE)):
                            continue
                        lo_t = unparse(lo).replace(" ", "")
                        if any(f"len({L})" in lo_t for L in lens) and is_u16_max(hi):
                            guards.append(unparse(a_.test))
                n_cast += 1
                chk.ob("narrow-cast", f"{fi.qual}: {norm_stmt(c, 70)}", bool(guards), fi.where, guards or "no assertion", f"assert len({sorted(lens)[0]}) <(=) np.iinfo(np.uint16).max",
                       line=c.lineno, detail=f"{fi.qual} stores a count into a 16-bit table without checking it fits: beyond 65535 operators the indices wrap around silently")
    factor_dtype_rule(chk, src)
    # ---- layout: abstract run of the two builder functions on symbolic operands (two consecutive runs share module-level names)
    from ..syminterp import SymInterp, Sym
    from .tree_rules import _BasisSym, _OpMat, _MoSym, _Cell
    nm = src.func(SYM, "symbolic_mo_to_numeric_mo")
    it = SymInterp(src, None, {})
    problems, got_axes = [], None
    terms = [Sym(f"term{q}") for q in range(3)]
    for run_ in (1, 2):
        basis = _BasisSym(f"basis@run{run_}", "BasisSHO", "p")
        mo = _MoSym([((0, 0), [terms[0], terms[1]]), ((1, 0), [terms[2]]), ((1, 1), [])], ndim=2, shape=("in", "out"))

        class _Mat(Sym):
            def __init__(self, shape):
                super().__init__("mo_mat")
                self.shape, self.cells = list(shape), {}

            def __getitem__(self, i):
                return _Cell(list(self.cells.get(i, [])))

            def __setitem__(self, i, v):
                self.cells[i] = v.items

            def transpose(self, *axes):
                ax = list(axes[0]) if len(axes) == 1 and isinstance(axes[0], (list, tuple)) else list(axes)
                return ("transposed", self, ax)
        made = []
        it.builtins["np"] = Sym("np", zeros=lambda shape, dtype=None: made.append(_Mat(shape)) or made[-1], ndenumerate=lambda m: list(m.entries),
                                moveaxis=lambda t, a_, b_: ("transposed", t, _perm_of_moveaxis(len(t.shape), a_, b_)))
        res = it.call_function(nm, [basis, mo, "dtype"])
        if not (isinstance(res, tuple) and res[0] == "transposed" and res[1] is made[-1]):
            problems.append(f"run {run_}: the function does not return the permuted accumulation array")
            continue
        mat, ax = res[1], res[2]
        got_axes = ax
        if mat.shape != ["in", "out", "p", "p"] or ax != [0, 2, 3, 1]:
            problems.append(f"run {run_}: array of shape {mat.shape} permuted by {ax}; expected (in, out, row, col) -> (in, row, col, out) = [0, 2, 3, 1]")
        for idx, ts in mo.entries:
            have = [(x.basis._name, x.symbol._name) if isinstance(x, _OpMat) else repr(x) for x in mat.cells.get(idx, [])]
            want = [(basis._name, t._name) for t in ts]
            if have != want:
                problems.append(f"run {run_}: entry {idx} accumulates {have}, expected {want}")
    chk.ob("layout", "builder: (in, out, row, col) -> (in, row, col, out), entries = sum of this basis set's op_mat(term)", not problems, nm.where, problems[:2] or {"axes": got_axes}, {"axes": [0, 2, 3, 1]},
           line=nm.node.lineno, detail="the numeric site tensor must be (left bond, row, column, right bond) with entry [in][out] the sum of the local matrices of its terms for *this* basis set: " +
                                     (problems[0] if problems else "") + " - another permutation transposes the operator or exchanges bonds")
    cs = src.func(SYM, "compose_symbolic_mo")

    class _Grid(Sym):
        def __init__(self, shape):
            super().__init__("grid")
            self.shape = tuple(shape)
            self.cells = {(i, j): None for i in range(shape[0]) for j in range(shape[1])}

        def __getitem__(self, k):
            if isinstance(k, tuple):
                return self.cells[k]
            return [self.cells[(k, j)] for j in range(self.shape[1])]

        def __setitem__(self, k, v):
            self.cells[k] = v

    class _Fac(Sym):
        def __mul__(self, o):
            return (self._name, o)
    import itertools as _it

    def _ndindex(*shape):
        shape = tuple(shape[0]) if len(shape) == 1 and isinstance(shape[0], (tuple, list)) else tuple(shape)
        return list(_it.product(*[range(n_) for n_ in shape]))
    it2 = SymInterp(src, None, {"np": Sym("np", full=lambda shape, fill=None, dtype=None: _Grid(shape), empty=lambda shape, dtype=None: _Grid(shape), zeros=lambda shape, dtype=None: _Grid(shape),
                                          ndenumerate=lambda g: [(k, g.cells[k]) for k in sorted(g.cells)], ndindex=_ndindex)})
    prim = [f"prim{j}" for j in range(4)]
    in_ops = ["in0", "in1", "in2"]
    out_ops = [[Sym("c00", symbol=(0, 1), factor=_Fac("f00")), Sym("c01", symbol=(2, 3), factor=_Fac("f01"))], [Sym("c10", symbol=(1, 0), factor=_Fac("f10"))]]
    try:
        g = it2.call_function(cs, [in_ops, out_ops, prim])
    except (KeyError, IndexError) as e:
        g = Sym(f"{type(e).__name__}: {e} (an entry is addressed outside the [incoming][outgoing] grid)", cells={})
    want = {(i, j): [] for i in range(3) for j in range(2)}
    want[(0, 0)].append(("f00", "prim1"))
    want[(2, 0)].append(("f01", "prim3"))
    want[(1, 1)].append(("f10", "prim0"))
    okg = isinstance(g, _Grid) and g.shape == (3, 2) and g.cells == want
    chk.ob("layout", "symbolic site matrix indexed [incoming][outgoing], entry = factor * primary operator", okg, cs.where, {str(k): v for k, v in getattr(g, "cells", {}).items() if v},
           {str(k): v for k, v in want.items() if v}, line=cs.node.lineno, detail="composed symbol = (incoming bond index, primary operator index); the entry of outgoing operator j goes to [symbol[0]][j]")
    for rel, qual, ranks in ((MPO, "Mpo.todense", (4, 4)), (MPS, "Mps.todense", (3, 3))):
        fi = src.func(rel, qual)
        from ..src import inline_adjacent_temps
        loop = [n for n in ast.walk(inline_adjacent_temps(fi.node)) if isinstance(n, ast.For)]
        # the accumulation statement: <acc> = tensordot(<acc>, <site>...)... inside the loop over the sites (names are free)
        asg = [s_ for l in loop for s_ in l.body if isinstance(s_, ast.Assign) and isinstance(s_.targets[0], ast.Name) and "tensordot" in unparse(s_.value)
               and any(isinstance(x, ast.Name) and x.id == s_.targets[0].id for x in ast.walk(s_.value))]
        if len(asg) != 1:
            raise AnalysisError(f"{fi.where}: accumulation statement not found")
        acc = asg[0].targets[0].id
        site = [unparse(l.target) for l in loop if asg[0] in l.body][0]
        tr = Tracker({acc: [("res", k) for k in range(ranks[0])], site: [("mt", k) for k in range(ranks[1])]})
        e = asg[0].value
        # the reshape uses locals dim1.. : strip it and look at the leg order before the reshape
        inner = e.func.value if isinstance(e, ast.Call) and isinstance(e.func, ast.Attribute) and e.func.attr == "reshape" else e
        txt = unparse(inner).replace("np.tensordot", "tensordot")
        legs = tr.ev(ast.parse(txt, mode="eval").body)
        if ranks[0] == 4:
            want = [("res", 0), ("res", 1), ("mt", 1), ("res", 2), ("mt", 2), ("mt", 3)]
        else:
            want = [("res", 0), ("res", 1), ("mt", 1), ("mt", 2)]
        edges = {frozenset(x) for x in tr.edges}
        chk.ob("layout", f"{qual}: accumulated (rows), (columns) order", legs == want and edges == {frozenset([("res", ranks[0] - 1), ("mt", 0)])}, fi.where,
               [f"{a}.{b}" for a, b in legs], [f"{a}.{b}" for a, b in want], line=asg[0].lineno,
               detail=f"{qual} must chain the bond and keep (row of previous sites, row of this site), (column ..) adjacent before merging")
    term_table_rule(chk, src)
    # ---- split order / dedup
    split_elementary_rule(chk, src, "split-order")
    deduplicate_rule(chk, src, "split-order")
    if deferred:
        raise deferred[0]


META = {
    "category": "other",
    "engine": "FLOW + TNA(axis tracking) + whole-function interpretation on exact data",
    "technique": "abstract interpretation (own ast interpreter, nothing of /repo is executed) of the MPO builder on symbolic terms, tables and operands: term table, one-site dispatcher, site-tensor layout, Op.split_elementary; whole-function interpretation of _deduplicate_table, _decompose_graph and _decompose_qr on small exact tables (exact array model, scipy's QR as an oracle) with the coefficient table reconstructed from the result; def-use / dtype / narrow-integer dataflow lints on the remaining readers",
    "text": "Structural necessary conditions (offset sign and row, total algorithm dispatch, guarded 16-bit casts, factor dtype, axis layout agreement between the builder and "
            "apply/todense, intra-site order) plus a bounded exactness statement: the two one-site decompositions, the chain builder as a whole (graph algorithms; 2-5 sites) and the "
            "one-term short cut, interpreted from source on a finite set of small exact term tables (shared prefixes / suffixes, long-range pairs, hubs, rank deficiency, coefficients far "
            "below the code's tolerances; scipy's pivoted QR as an oracle), return operators that expand to the term table with its coefficients. Not decided: exactness for every term "
            "table (the tables are a finite set), the QR algorithm inside the whole builder, floating point, swap exactness.",
    "note": "The apply() contraction side of the layout is decided in C03 (merge-order rule), the contraction kernels in C07/C08.",
    "design_ref": "DESIGN.md 3.5, 3.2 (R4), 4 (C01); as built: 9.1, 9.3, 9.8",
}
