"""C02 - TTNO construction is exact and independent of the tree topology: the parts whose truth is in the shape of the code."""
from . import tree_rules as TR


def run(chk):
    src = chk.src
    chk.explanation = (
        "Decides the topology-sensitive bookkeeping of the TTNO builder by abstract interpretation of the source on symbolic trees "
        "(nothing is executed): (1) the post-order table-column rolling hands every node exactly its children's bond columns, in child "
        "order, followed by its own physical columns, for chains, binary, ternary, multi-basis and inner-dummy-like topologies; (2) the "
        "numeric node tensors are laid out (children, (row, column) per basis set, parent) and the label producer of the operator names "
        "the axes in exactly that order with up = row; (3) the symbolic construction, the numeric conversion and the connectivity copy "
        "traverse the tree in one order; (4) TTNO.todense contracts every node tensor over its bonds and returns rows then columns in "
        "the requested order; (5) the tree constructors keep every basis set exactly once for every list length up to N. The algebra of "
        "the one-site decomposition itself (shared with the MPO builder) is the subject of C01; numerical equality with the dense sum is "
        "not decided.")
    chk.assumptions = ["_construct_symbolic_mpo_one_site(table_row, table_col, in_ops_list, ..., k) consumes the row columns as (one per incoming bond..., k physical) - decided for the chain case in C01",
                       "opt_einsum semantics of named indices"]
    TR.builder_columns(chk, src)
    TR.ttno_layout(chk, src)
    TR.label_schema(chk, src, which=("O",))
    TR.state_networks(chk, src, which=("todense_o",), floor=3)
    TR.tree_constructors(chk, src, nmax=14 if chk.tier == "quick" else 40)


META = {
    "category": "other",
    "engine": "LABEL (symbolic interpreter on symbolic trees)",
    "technique": "abstract interpretation of the builder / label producers / constructors on symbolic trees and symbolic term tables (column identities, axis identities); finite enumeration of list lengths for the constructors",
    "text": "Decides, for the enumerated symbolic topologies (arity 0-3, several basis sets per node, nested sub-trees), that the builder's "
            "column bookkeeping, the numeric axis layout, the operator's label schema, the traversal pairing and todense are mutually "
            "consistent, and (bounded, list length <= N) that tree constructors neither drop nor duplicate a basis set. Exactness of the "
            "resulting operator additionally needs the one-site decomposition (C01) and is not decided numerically.",
    "note": "Symbolic trees are a finite set of shapes chosen to cover every branch of the code (leaf / inner / root, first / middle / last child, 1-3 basis sets); "
            "the code under analysis branches only on these shape attributes.",
    "design_ref": "DESIGN.md 3.3, 4 (C02)",
}
