"""C02 - TTNO construction is exact and independent of the tree topology: the parts whose truth is in the shape of the code."""
from . import tree_rules as TR


def terminal_cover_rule(chk, src):
    """construct_symbolic_ttno keeps, after every node, only the new table and hands the running coefficient vector on; after the root nothing
    consumes it.  A row cover leaves the coefficient in that vector (out-operator factor 1.0), a column cover absorbs it into the node.  So at a table
    with a single remaining column - which is what the root sees - the vertex cover chosen by _decompose_graph must be the column, for one or several
    rows and for both matching algorithms.  Decided by an abstract run of _decompose_graph's cover selection with bipartite_vertex_cover run from its own
    source on r x 1 tables (the sparse matrix and scipy's matching are replaced by list-based stand-ins)."""
    from ..syminterp import SymInterp, Sym, OpenSym, Blob
    SYMF, BM = "renormalizer/mps/symbolic_mpo.py", "renormalizer/lib/bipartite_matching/bipartite_matching.py"
    chk.rule("terminal-cover", "a table with one remaining column (the root of a TTNO) is covered by that column, so no coefficient is left in the discarded running vector", 6)
    fi, bv = src.func(SYMF, "_decompose_graph"), src.func(BM, "bipartite_vertex_cover")
    tt = src.func("renormalizer/tn/symbolic_ttno.py", "construct_symbolic_ttno")

    class Stop(Exception):
        pass

    class CSR(Sym):
        def __init__(self, shape, rows):
            super().__init__("non_red")
            self.shape, self.rows = shape, rows
            self.indices = [c for r in rows for c in r]
            self.indptr = [0]
            for r in rows:
                self.indptr.append(self.indptr[-1] + len(r))

        def tocsc(self):
            t = CSR((self.shape[1], self.shape[0]), [[i for i, r in enumerate(self.rows) if c in r] for c in range(self.shape[1])])
            t.shape = self.shape
            return t

        def tocsr(self):
            return self

    class Graph(Sym):
        def __init__(self, adj):
            super().__init__("graph")
            self.adj, self.shape = adj, (len(adj), max([max(a, default=-1) for a in adj]) + 1)

    class Coord(Sym):
        def __init__(self, c):
            super().__init__("coord")
            self.c, self.shape = c, (len(c), 2)

        def __getitem__(self, k):
            return [x[k[1]] for x in self.c]

    def csr_matrix(arg, **k):
        _data, (ri, ci) = arg
        adj = [[] for _ in range(max(ri) + 1)]
        for a, b in zip(ri, ci):
            adj[a].append(b)
        return Graph(adj)

    def matching(graph, perm_type=None):
        # any maximum matching of the tiny graph (augmenting paths); match[v] = u or -1, as scipy's maximum_bipartite_matching(perm_type='row')
        match = [-1] * graph.shape[1]

        def aug(u, seen):
            for v in graph.adj[u]:
                if v not in seen:
                    seen.add(v)
                    if match[v] == -1 or aug(match[v], seen):
                        match[v] = u
                        return True
            return False
        for u in range(len(graph.adj)):
            aug(u, set())
        return match
    # premise: the running coefficient vector is not read after the loop over the nodes (otherwise a leftover coefficient may be legitimately consumed there)
    import ast
    loops = [n for n in tt.node.body if isinstance(n, ast.For) and any(isinstance(c, ast.Call) and getattr(c.func, "id", "") == "_construct_symbolic_mpo_one_site" for c in ast.walk(n))]
    if len(loops) != 1:
        from ..src import AnalysisError
        raise AnalysisError(f"{tt.where}: the loop calling _construct_symbolic_mpo_one_site was not found")
    asg = [a for a in ast.walk(loops[0]) if isinstance(a, ast.Assign) and isinstance(a.value, ast.Call) and getattr(a.value.func, "id", "") == "_construct_symbolic_mpo_one_site"][0]
    vec = asg.targets[0].elts[2].id if isinstance(asg.targets[0], ast.Tuple) and len(asg.targets[0].elts) == 3 and isinstance(asg.targets[0].elts[2], ast.Name) else None
    after = tt.node.body[tt.node.body.index(loops[0]) + 1:]
    consumed = vec is None or any(isinstance(x, ast.Name) and x.id == vec and isinstance(x.ctx, ast.Load) for st in after for x in ast.walk(st))
    chk.table("terminal_cover_premise", [f"{tt.where}: running coefficient vector `{vec}` " + ("is read after the node loop: the rule does not apply" if consumed else "is not read after the node loop")])
    for algo in ("Hopcroft-Karp", "Hungarian"):
        for r in (1, 2, 3):
            if consumed:
                chk.ob("terminal-cover", f"_decompose_graph[{r} x 1 table, {algo}]", True, fi.where, "leftover coefficients are consumed after the root", "n/a", line=fi.node.lineno)
                continue
            seen = []
            it = SymInterp(src, None, {})

            def nonzero(b, seen=seen):
                seen.append([bool(x) for x in b])
                if len(seen) == 2:
                    raise Stop()
                return ([i for i, x in enumerate(b) if x],)
            npx = OpenSym("np", array=lambda x, **k: Coord(x) if x and isinstance(x[0], tuple) else list(x), ones=lambda n: [1] * n, nonzero=nonzero, amax=max)
            it.builtins.update({"bipartite_vertex_cover": lambda bigraph, algo="Hopcroft-Karp", it=it: it.call_function(bv, [[list(x) for x in bigraph]], {"algo": algo}),
                                "np": npx, "csr_matrix": csr_matrix, "maximum_bipartite_matching": matching})
            try:
                it.call_function(fi, [[f"row{j}" for j in range(r)], ["col0"], CSR((r, 1), [[0] for _ in range(r)]), Blob("in_ops"), Blob("factor"), Blob("primary_ops"), algo])
            except Stop:
                pass
            ok = len(seen) == 2 and not any(seen[0]) and seen[1] == [True]
            chk.ob("terminal-cover", f"_decompose_graph[{r} x 1 table, {algo}]", ok, fi.where, {"row cover": seen[0] if seen else None, "column cover": seen[1] if len(seen) > 1 else None},
                   {"row cover": [False] * r, "column cover": [True]}, line=fi.node.lineno,
                   detail=f"a {r} x 1 table covered through a row: the row's out-operator gets factor 1.0 and the coefficient stays in the running vector, which {tt.where} "
                          "discards after the root - the tree operator then carries coefficient 1 for that term while the chain builder (sentinel column) stays exact")


def run(chk):
    src = chk.src
    chk.explanation = (
        "Decides the topology-sensitive bookkeeping of the TTNO builder by abstract interpretation of the source on symbolic trees "
        "(nothing is executed): (1) the post-order table-column rolling hands every node exactly its children's bond columns, in child "
        "order, followed by its own physical columns, for chains, binary, ternary, multi-basis and inner-dummy-like topologies; (2) the "
        "numeric node tensors are laid out (children, (row, column) per basis set, parent) and the label producer of the operator names "
        "the axes in exactly that order with up = row; (3) the symbolic construction, the numeric conversion and the connectivity copy "
        "traverse the tree in one order; (4) TTNO.todense contracts every node tensor over its bonds and returns rows then columns in "
        "the requested order; (5) the tree constructors keep every basis set exactly once for every list length up to N. The algebra of "
        "the one-site decomposition itself (shared with the MPO builder) is the subject of C01; numerical equality with the dense sum is "
        "not decided.")
    chk.assumptions = ["_construct_symbolic_mpo_one_site(table_row, table_col, in_ops_list, ..., k) consumes the row columns as (one per incoming bond..., k physical) - decided for the chain case in C01",
                       "opt_einsum semantics of named indices"]
    TR.builder_columns(chk, src)
    terminal_cover_rule(chk, src)
    TR.ttno_layout(chk, src)
    TR.label_schema(chk, src, which=("O",))
    TR.state_networks(chk, src, which=("todense_o",), floor=3)
    TR.tree_constructors(chk, src, nmax=14 if chk.tier == "quick" else 40)


META = {
    "category": "other",
    "engine": "LABEL (symbolic interpreter on symbolic trees)",
    "technique": "abstract interpretation of the builder / label producers / constructors on symbolic trees and symbolic term tables (column identities, axis identities); finite enumeration of list lengths for the constructors",
    "text": "Decides, for the enumerated symbolic topologies (arity 0-3, several basis sets per node, nested sub-trees), that the builder's "
            "column bookkeeping, the numeric axis layout, the operator's label schema, the traversal pairing and todense are mutually "
            "consistent, and (bounded, list length <= N) that tree constructors neither drop nor duplicate a basis set. Exactness of the "
            "resulting operator additionally needs the one-site decomposition (C01) and is not decided numerically.",
    "note": "Symbolic trees are a finite set of shapes chosen to cover every branch of the code (leaf / inner / root, first / middle / last child, 1-3 basis sets); "
            "the code under analysis branches only on these shape attributes.",
    "design_ref": "DESIGN.md 3.3, 4 (C02); as built: 9.1, 9.3, 9.8",
}
