"""C02 - TTNO construction is exact and independent of the tree topology: the parts whose truth is in the shape of the code."""
from . import tree_rules as TR


def terminal_cover_rule(chk, src):
    """construct_symbolic_ttno keeps, after every node, only the new table and hands the running coefficient vector on; after the root nothing
    consumes it.  A row cover leaves the coefficient in that vector (out-operator factor 1.0), a column cover absorbs it into the node.  So at a table
    with a single remaining column - which is what the root sees - the vertex cover chosen by _decompose_graph must be the column, for one or several
    rows and for both matching algorithms.  Decided by an abstract run of the whole of _decompose_graph on exact r x 1 tables (decompose_rules.graph_rule; bipartite_vertex_cover is run
    from its own source, the sparse matrix and scipy's matching are replaced by exact stand-ins): no coefficient other than 1 may come back in the new factor vector."""
    SYMF = "renormalizer/mps/symbolic_mpo.py"
    chk.rule("terminal-cover", "a table with one remaining column (the root of a TTNO) is covered by that column, so no coefficient is left in the discarded running vector", 6)
    fi = src.func(SYMF, "_decompose_graph")
    tt = src.func("renormalizer/tn/symbolic_ttno.py", "construct_symbolic_ttno")

    # premise: the running coefficient vector is not read after the loop over the nodes (otherwise a leftover coefficient may be legitimately consumed there)
    import ast
    loops = [n for n in tt.node.body if isinstance(n, ast.For) and any(isinstance(c, ast.Call) and getattr(c.func, "id", "") == "_construct_symbolic_mpo_one_site" for c in ast.walk(n))]
    if len(loops) != 1:
        from ..src import AnalysisError
        raise AnalysisError(f"{tt.where}: the loop calling _construct_symbolic_mpo_one_site was not found")
    asg = [a for a in ast.walk(loops[0]) if isinstance(a, ast.Assign) and isinstance(a.value, ast.Call) and getattr(a.value.func, "id", "") == "_construct_symbolic_mpo_one_site"][0]
    vec = asg.targets[0].elts[2].id if isinstance(asg.targets[0], ast.Tuple) and len(asg.targets[0].elts) == 3 and isinstance(asg.targets[0].elts[2], ast.Name) else None
    after = tt.node.body[tt.node.body.index(loops[0]) + 1:]
    consumed = vec is None or any(isinstance(x, ast.Name) and x.id == vec and isinstance(x.ctx, ast.Load) for st in after for x in ast.walk(st))
    chk.table("terminal_cover_premise", [f"{tt.where}: running coefficient vector `{vec}` " + ("is read after the node loop: the rule does not apply" if consumed else "is not read after the node loop")])
    from . import decompose_rules as DR
    DR.graph_rule(chk, src, None, rule_terminal="terminal-cover", premise_consumed=consumed, where_tt=tt.where)


def run(chk):
    src = chk.src
    chk.explanation = (
        "Decides the topology-sensitive bookkeeping of the TTNO builder by abstract interpretation of the source on symbolic trees "
        "(nothing is executed): (1) the post-order table-column rolling hands every node exactly its children's bond columns, in child "
        "order, followed by its own physical columns, for chains, binary, ternary, multi-basis and inner-dummy-like topologies; (2) the "
        "numeric node tensors are laid out (children, (row, column) per basis set, parent) and the label producer of the operator names "
        "the axes in exactly that order with up = row; (3) the symbolic construction, the numeric conversion and the connectivity copy "
        "traverse the tree in one order; (4) TTNO.todense contracts every node tensor over its bonds and returns rows then columns in "
        "the requested order; (5) the tree constructors keep every basis set exactly once for every list length up to N. The algebra of "
        "the one-site decomposition itself (shared with the MPO builder) is the subject of C01; numerical equality with the dense sum is "
        "not decided.")
    chk.assumptions = ["_construct_symbolic_mpo_one_site(table_row, table_col, in_ops_list, ..., k) consumes the row columns as (one per incoming bond..., k physical) - decided for the chain case in C01",
                       "opt_einsum semantics of named indices"]
    TR.builder_columns(chk, src)
    terminal_cover_rule(chk, src)
    chk.rule("tree-builder-exact", "construct_symbolic_ttno as a whole (graph decompositions) on seven small trees (chain, root in the middle, binary, ternary with a two-set node, dummy inner node, "
             "dummy root, two-set root) x exact term tables: the root's single operator, expanded over the tree, is the term table with its coefficients - the same operator on every topology", 40)
    from . import decompose_rules as DR
    DR.tree_builder_rule(chk, src, "tree-builder-exact")
    TR.ttno_layout(chk, src)
    TR.label_schema(chk, src, which=("O",))
    TR.state_networks(chk, src, which=("todense_o",), floor=3)
    TR.tree_constructors(chk, src, nmax=14 if chk.tier == "quick" else 40)


META = {
    "category": "other",
    "engine": "LABEL (symbolic interpreter on symbolic trees) + whole-function interpretation on exact data",
    "technique": "abstract interpretation of the builder / label producers / constructors on symbolic trees and symbolic term tables (column identities, axis identities); whole-function interpretation of _decompose_graph on exact r x 1 tables (root case) and of construct_symbolic_ttno on small trees x exact term tables; finite enumeration of list lengths for the constructors",
    "text": "Decides, for the enumerated symbolic topologies (arity 0-3, several basis sets per node, nested sub-trees), that the builder's "
            "column bookkeeping, the numeric axis layout, the operator's label schema, the traversal pairing and todense are mutually "
            "consistent, and (bounded, list length <= N) that tree constructors neither drop nor duplicate a basis set; and, bounded, that the symbolic tree operator is exact and "
            "topology independent: construct_symbolic_ttno interpreted as a whole (graph algorithms) on eight small trees (chain, root in the middle, binary, ternary with a two-set "
            "node, dummy inner node, dummy root, two-set root, short and long branch) x exact term tables expands to the term table with its coefficients on every one of them. Not "
            "decided: exactness for all trees and tables, the QR algorithm inside the whole builder, numeric conversion beyond its layout.",
    "note": "Symbolic trees are a finite set of shapes chosen to cover every branch of the code (leaf / inner / root, first / middle / last child, 1-3 basis sets); "
            "the code under analysis branches only on these shape attributes.",
    "design_ref": "DESIGN.md 3.3, 4 (C02); as built: 9.1, 9.3, 9.8",
}
