"""C03 - state/operator arithmetic in any gauge: quantum-number centre alignment, label/total-charge co-transformation,
merged-bond order of tensors vs labels, prefactor handling of add/distance/conj/scale."""
import ast

from ..src import AnalysisError, unparse, norm_stmt, walk_no_nested
from .. import qn as Q
from ..axes import Tracker

MP, MPS, MPO, MPDM, TREE = Q.MP, Q.MPS, Q.MPO, Q.MPDM, Q.TREE


# ------------------------------------------------------------------------------------------ shared rule runners
PRODUCT_RUN = ("Mpo.apply", "MpDm.apply")


def run_align_and_charge(chk, src, floor_align=3, floor_charge=5):
    chk.rule("qn-align", "a function that combines the bond-label lists of two objects reads both lists at the same quantum-number centre "
             "(R.move_qnidx(X.qnidx) on one of the two operands before the combination, a centre-invariant operand, or an assert of equal centres)", floor_align)
    chk.rule("qn-charge", "labels and total charge receive the same linear form: negate => qntot negated; outer sum with X => qntot += X.qntot "
             "(or X carries no charge); direct sum => equal totals asserted; copy => copy", floor_charge)
    writers = Q.qn_writers(src, Q.CHAIN_MODULES)
    chk.table("qn_writer_sites", [f"{fi.qual}: {form} {srcs}" for fi, n, form, srcs in writers])
    for fi, n, form, srcs in writers:
        key = f"{fi.qual}: {form}"
        if form == "outer-sum" and fi.qual in PRODUCT_RUN:
            continue        # centre alignment and total charge of the chain products are decided by the abstract run (chain_rules.product_rule), however the labels are spelled
        if form == "unknown":
            raise AnalysisError(f"{fi.where}: assignment to .qn of unclassifiable form: {norm_stmt(n)}")
        if form in ("direct-sum", "outer-sum"):
            ok, how = Q.check_alignment(fi, n, srcs)
            if ok is None:
                raise AnalysisError(f"{fi.where}: {how}")
            chk.ob("qn-align", key, ok, fi.where, how, "both label lists read at one centre", line=n.lineno,
                   detail=f"{fi.qual} combines bond quantum numbers of two objects ({norm_stmt(n, 100)}) taken at different centres: "
                          f"the result's labels are wrong when the operands' centres differ, and the damage shows after a later canonicalise()")
        ok, found = Q.check_charge(fi, n, form, srcs)
        if ok is None:
            raise AnalysisError(f"{fi.where}: {found}")
        chk.ob("qn-charge", key, ok, fi.where, found, {"negate": "qntot negated", "outer-sum": "qntot += operand's qntot", "direct-sum": "assert equal qntot",
                                                        "copy": "copy", "alias": "alias"}[form], line=n.lineno,
               detail=f"{fi.qual}: bond labels and total charge are transformed differently ({found})")
    # tree: root label is the total charge
    add = src.func(TREE, "TTNS.add")
    root_assert = any(isinstance(c, ast.Call) and unparse(c.func).endswith("assert_allclose") and "qn" in unparse(c) for c in ast.walk(add.node))
    chk.ob("qn-charge", "TTNS.add: root label (= total charge) asserted equal", root_assert, add.where, root_assert, True, line=add.node.lineno)
    cat = [n for n in ast.walk(add.node) if isinstance(n, ast.Call) and unparse(n.func) == "np.concatenate" and "qn" in unparse(n)]
    chk.ob("qn-charge", "TTNS.add: non-root labels concatenated in operand order", len(cat) == 1 and unparse(cat[0].args[0]).replace(" ", "") == "[node1.qn,node2.qn]",
           add.where, [unparse(c) for c in cat], "np.concatenate([node1.qn, node2.qn])", line=add.node.lineno)


def tensor_merge_orders(fi, loop, ranks):
    """axis-track the body of `for i, (A, B) in enumerate(zip(X, Y))`: returns (names, final legs of the stored tensor)"""
    tgt = loop.target
    names = [x.id for x in ast.walk(tgt) if isinstance(x, ast.Name)]
    pair = names[-2:]
    env = {pair[0]: [(pair[0], k) for k in range(ranks[0])], pair[1]: [(pair[1], k) for k in range(ranks[1])]}
    tr = Tracker(env)
    stored = None
    for s in loop.body:
        if isinstance(s, ast.Assign) and len(s.targets) == 1:
            t = s.targets[0]
            if isinstance(t, ast.Name):
                tr.env[t.id] = tr.ev(s.value)
            elif isinstance(t, ast.Subscript):
                stored = tr.ev(s.value)
        elif isinstance(s, ast.Assert) or isinstance(s, ast.Expr):
            continue
    if stored is None:
        raise AnalysisError(f"{fi.where}: no site-tensor store found in the product loop")
    return pair, stored, tr.edges


def label_order(fi, objects):
    """operand order of the add_outer that builds the merged labels, mapped to the tensor-side objects"""
    fn = fi.node
    for n in walk_no_nested(fn):
        if isinstance(n, ast.Assign) and isinstance(n.targets[0], ast.Attribute) and n.targets[0].attr == "qn" and isinstance(n.value, ast.ListComp):
            comp = n.value
            call = None
            for c in ast.walk(comp.elt):
                if isinstance(c, ast.Call) and unparse(c.func).endswith("add_outer"):
                    call = c
                    break
            if call is None:
                continue
            g = comp.generators[0]
            if not (isinstance(g.iter, ast.Call) and unparse(g.iter.func) == "zip" and isinstance(g.target, ast.Tuple)):
                raise AnalysisError(f"{fi.where}: merged-label comprehension of unexpected shape")
            var2src = {t.id: unparse(a) for t, a in zip(g.target.elts, g.iter.args)}
            order = []
            for a in call.args:
                nm = [x.id for x in ast.walk(a) if isinstance(x, ast.Name) and x.id in var2src]
                if len(nm) != 1:
                    raise AnalysisError(f"{fi.where}: add_outer operand {unparse(a)} not attributable")
                s = var2src[nm[0]]
                # resolve to a tensor-side object
                obj = None
                seen = 0
                cur = s
                while obj is None and seen < 4:
                    seen += 1
                    head = cur.split(".")[0]
                    if head in objects:
                        obj = head
                        break
                    al = Q.local_alias(fn, head)
                    if al is None:
                        break
                    tree = ast.parse(al, mode="eval").body
                    hit = [o for o in objects if any(isinstance(x, ast.Name) and x.id == o for x in ast.walk(tree))]
                    if len(hit) > 1 and isinstance(tree, ast.Call) and isinstance(tree.func, ast.Attribute):
                        # a helper method applied to data: the data flows from the arguments, not from the receiver
                        argn = {x.id for a_ in list(tree.args) + [k.value for k in tree.keywords] for x in ast.walk(a_) if isinstance(x, ast.Name)}
                        hit = [o for o in hit if o in argn]
                    if len(hit) == 1:
                        obj = hit[0]
                        break
                    cur = al
                if obj is None:
                    raise AnalysisError(f"{fi.where}: label source {s} cannot be mapped to a tensor operand")
                order.append(obj)
            return order, n
    raise AnalysisError(f"{fi.where}: merged-label assignment not found")


def run_merge_order(chk, src, floor=3):
    chk.rule("merge-order", "when two bonds are merged by reshape (operator x state), the order of the merged tensor legs equals the order of the "
             "operands of the add_outer that builds the merged labels (tensor index a*dim_b + b <-> label qn_a[a] + qn_b[b])", floor)
    # chain products: abstract run (chain_rules.product_rule)
    from .chain_rules import product_rule
    product_rule(chk, src, "merge-order", rule_align="qn-align", rule_charge="qn-charge")
    # tree: the operator x state product of the tree classes is decided by the abstract run on symbolic trees (tree_rules.state_networks, rule `state-network`):
    # merged (state, operator) bond pairs and their labels in one order, for every node of every topology, whatever the convention
    from . import tree_rules as TR
    TR.state_networks(chk, src, which=("apply",), floor=20)


def run_label_freshness(chk, src):
    """in-place updates of the total charge (`X.qntot += ...`) are only sound if copies do not share the array"""
    from . import C13
    chk.rule("label-freshness", "metacopy gives the copy its own bond-label and total-charge arrays (Mpo.apply updates qntot in place on a copy)", 4)
    inplace = []
    for rel in Q.CHAIN_MODULES:
        for fi in src.funcs_in(rel):
            for n in walk_no_nested(fi.node):
                if isinstance(n, ast.AugAssign) and isinstance(n.target, ast.Attribute) and n.target.attr in ("qntot", "qn"):
                    inplace.append(f"{fi.qual}: {norm_stmt(n, 60)}")
    chk.table("in_place_label_updates", inplace)
    # the copies themselves are decided by the abstract run of the copy family (C13.copy_complete): metacopy() of every chain class on objects with tagged attribute values
    class _Capture:
        def __init__(self):
            self.obs = []

        def ob(self, rule, key, ok, where, found, want, line=None, detail=""):
            self.obs.append((key, ok, where, found, want, line, detail))

        def table(self, *a, **k):
            pass

        def rule(self, *a, **k):
            pass
    cap = _Capture()
    C13.copy_complete(cap, src)
    import re as _re
    got = [o for o in cap.obs if _re.match(r"^(MatrixProduct|Mps|Mpo|MpDm)\.metacopy:(qn|qntot) fresh$", o[0])]
    missing = [o for o in cap.obs if _re.match(r"^(MatrixProduct|Mps|Mpo|MpDm)\.metacopy:(qn|qntot)$", o[0]) and not o[1]]
    if len(got) + len(missing) < 8:
        raise AnalysisError(f"label-freshness: the copy run produced {len(got)} verdicts about qn / qntot of the four chain classes, 8 expected")
    for key, ok, where, found, want, line, detail in got + missing:
        chk.ob("label-freshness", key.replace(" fresh", ""), ok, where, found, "fresh copy" if not ok else want, line=line,
               detail=f"metacopy shares the label arrays with the source while {inplace[:1] or 'an operator application'} updates them in place on the copy: applying a charged "
                      f"operator silently changes the total charge / labels of the operand and of every copy of it. " + (detail or ""))



def adjoint_rule(chk, src):
    """abstract run of Mpo.conj_trans and MatrixProduct.conj: every site of the result is the complex conjugate of the source site (with row and column axes exchanged
    for the adjoint), labels and total charge negated for the adjoint"""
    from ..syminterp import SymInterp, Sym, OpenSym

    from .. import ntensor as NTm
    from ..ntensor import NT, Leg

    def Site(i):
        """site tensor (left bond, row, column, right bond) with distinct sizes"""
        return NT(f"site{i}", [Leg(("S", i, "l"), 2 + i), Leg(("S", i, "up"), 11), Leg(("S", i, "down"), 13), Leg(("S", i, "r"), 3 + i)])

    def adjoint_of(t, i):
        return isinstance(t, NT) and t.keys() == [("S", i, "l"), ("S", i, "down"), ("S", i, "up"), ("S", i, "r")] and all(l.conj for l in t.legs)

    def conj_of(t, i):
        return isinstance(t, NT) and t.keys() == [("S", i, "l"), ("S", i, "up"), ("S", i, "down"), ("S", i, "r")] and all(l.conj for l in t.legs)

    class Q(Sym):
        def __init__(self, name, sign=1):
            super().__init__(("-" if sign < 0 else "") + name)
            self.base, self.sign = name, sign

        def __neg__(self):
            return Q(self.base, -self.sign)

    N = 3

    class MPSym(Sym):
        def __init__(self, name, sites):
            super().__init__(name)
            self.sites = dict(sites)
            self.site_num = N
            self.qn = [[Q(f"q{b}.{k}") for k in range(2)] for b in range(N + 1)]
            self.qntot = Q("qntot")

        def __getitem__(self, i):
            return self.sites[i]

        def __setitem__(self, i, v):
            self.sites[i] = v

        def __iter__(self):
            return iter([self.sites[i] for i in range(N)])

        def metacopy(self):
            m = MPSym("meta(" + self._name + ")", {})
            return m

        def conj(self):
            return MPSym("conj(" + self._name + ")", {i: s_.conj() for i, s_ in self.sites.items()})
    ct = src.func(MPO, "Mpo.conj_trans")
    me = MPSym("O", {i: Site(i) for i in range(N)})
    npx = NTm.np_namespace()
    it = SymInterp(src, None, {"moveaxis": NTm.moveaxis, "np": npx, "xp": npx, "transpose": NTm.transpose, "einsum": NTm.einsum})
    out = it.call_function(ct, [me])
    probs = []
    for i in range(N):
        s_ = out.sites.get(i) if isinstance(out, MPSym) else None
        if not adjoint_of(s_, i):
            probs.append(f"site {i}: {s_!r}")
    okq = isinstance(out, MPSym) and all(getattr(x, "sign", 1) == -1 for row in out.qn for x in row) and getattr(out.qntot, "sign", 1) == -1
    chk.ob("adjoint", "Mpo.conj_trans: site tensors conjugated with row / column exchanged", not probs and isinstance(out, MPSym) and out is not me, ct.where, probs or "every site = conj(swap rows/columns)",
           "axes (left, column, row, right) of the conjugated site", line=ct.node.lineno,
           detail="the adjoint of an operator is the conjugate transpose: without the conjugation it is the plain transpose, which differs for every operator with complex entries (complex hopping, "
                  "i * operator); real operators do not see the difference: " + (probs[0] if probs else ""))
    chk.ob("adjoint", "Mpo.conj_trans: bond labels and total charge negated", okq, ct.where, {"qn": [repr(x) for x in out.qn[1]] if isinstance(out, MPSym) else None, "qntot": repr(getattr(out, "qntot", None))}, "all negated", line=ct.node.lineno)
    cj = src.func(MP, "MatrixProduct.conj")
    for cplx in (True, False):
        me2 = MPSym("A", {i: Site(i) for i in range(N)})
        me2.__dict__.update(is_complex=cplx, dtype="complex" if cplx else "real")
        out2 = SymInterp(src, None, {"np": OpenSym("np")}).call_function(cj, [me2])
        ok2 = isinstance(out2, MPSym) and out2 is not me2 and all(conj_of(out2.sites.get(i), i) for i in range(N)) and all(not any(l.conj for l in s_.legs) for s_ in me2.sites.values())
        chk.ob("adjoint", f"MatrixProduct.conj [{'complex' if cplx else 'real'} operand]: a new object, every site conjugated, source untouched", ok2, cj.where,
               "the operand itself" if out2 is me2 else {i: repr(v) for i, v in getattr(out2, "sites", {}).items()}, "a new object with new[i] = self[i].conj()", line=cj.node.lineno,
               detail="the conjugate is an object of its own also for real operands: in-place arithmetic on it (scale, normalize, compress, the coefficient folding of add) must not reach the operand")



def chain_direct_sum_rule(chk, src):
    """abstract run of MatrixProduct.add on 4 symbolic sites (state and operator form): first site joined along the right bond, last site along the left bond, middle sites
    block-diagonal, always with `self` in the leading block, labels concatenated in the same order"""
    from ..syminterp import SymInterp, Sym, OpenSym, Blob
    fi = src.func(MP, "MatrixProduct.add")
    N = 4

    class BA(Sym):
        """array known by its blocks: shape (concrete sizes) and the regions that hold (all of) a named operand tensor; everything else is zero"""
        _is_ndarray = True

        def __init__(self, shape, blocks=()):
            super().__init__("array")
            self.shape, self.blocks = tuple(int(x) for x in shape), list(blocks)

        @property
        def ndim(self):
            return len(self.shape)

        @property
        def dtype(self):
            return "dt"

        def _ranges(self, k):
            k = k if isinstance(k, tuple) else (k,)
            if Ellipsis in k:
                i = k.index(Ellipsis)
                k = k[:i] + (slice(None),) * (len(self.shape) - len(k) + 1) + k[i + 1:]
            k = k + (slice(None),) * (len(self.shape) - len(k))
            if len(k) != len(self.shape):
                raise IndexError(f"too many indices for an array of {len(self.shape)} axes")
            out = []
            for x, n in zip(k, self.shape):
                if not isinstance(x, slice):
                    raise AnalysisError(f"index {x!r} in a block assignment is not modelled")
                st, sp, step = x.indices(n)
                if step != 1:
                    raise AnalysisError("strided block assignment")
                out.append((st, max(st, sp)))
            return tuple(out)

        def __setitem__(self, k, v):
            rg = self._ranges(k)
            if not isinstance(v, BA):
                raise AnalysisError(f"block assignment of {v!r}")
            if tuple(b_ - a_ for a_, b_ in rg) != v.shape:
                raise ValueError(f"could not broadcast input array from shape {v.shape} into shape {tuple(b_ - a_ for a_, b_ in rg)}")
            for vr, src_ in v.blocks:
                self.blocks.append((tuple((a_ + x0, a_ + x1) for (a_, _), (x0, x1) in zip(rg, vr)), src_))

        def __getitem__(self, k):
            try:
                if self._ranges(k) == tuple((0, n) for n in self.shape):
                    return self
            except AnalysisError:
                pass
            raise AnalysisError(f"reading a part of a site tensor ({k!r}) is not modelled in this run")

    def join(parts, axis):
        parts = list(parts)
        nd = parts[0].ndim
        axis = axis % nd
        for p_ in parts:
            if not isinstance(p_, BA) or p_.ndim != nd or any(p_.shape[j] != parts[0].shape[j] for j in range(nd) if j != axis):
                raise ValueError(f"all the input array dimensions except for the concatenation axis must match exactly: {[getattr(q, 'shape', q) for q in parts]}")
        shape = list(parts[0].shape)
        shape[axis] = sum(p_.shape[axis] for p_ in parts)
        out, off = BA(shape), 0
        for p_ in parts:
            for rg, src_ in p_.blocks:
                out.blocks.append((tuple((a_ + off, b_ + off) if j == axis else (a_, b_) for j, (a_, b_) in enumerate(rg)), src_))
            off += p_.shape[axis]
        return out
    SIZES = {"self": [1, 2, 3, 5, 1], "other": [1, 7, 11, 13, 1]}
    PHYS = [17, 19, 23, 29]
    PHYS2 = [31, 37, 41, 43]

    def site(who, i, rank):
        shape = (SIZES[who][i],) + ((PHYS[i],) if rank == 3 else (PHYS[i], PHYS2[i])) + (SIZES[who][i + 1],)
        return BA(shape, [(tuple((0, n) for n in shape), f"{who}[{i}]")])
    for form, rank in (("mps", 3), ("mpo", 4)):
        A = [site("self", i, rank) for i in range(N)]
        B = [site("other", i, rank) for i in range(N)]
        new_sites = {}

        class New(Sym):
            def __setitem__(self, i, v):
                new_sites[i % N] = v
        calls = []
        new = New("new", dtype="dt", qn=[Sym(f"selfqn{b}", shape=("n", "q")) for b in range(N + 1)], compress_config=Sym("cc", update=lambda c: None))
        new.__dict__["move_qnidx"] = lambda idx: calls.append(("move_qnidx", idx))
        new.__dict__["to_complex"] = lambda inplace=False: None

        class Me(Sym):
            def __getitem__(self, i):
                return (A if self._name == "self" else B)[i]
        me = Me("self", qntot="qt", site_num=N, dtype="dt", is_complex=False, is_mps=form == "mps", is_mpo=form == "mpo", is_mpdm=False, compress_config="cc", metacopy=lambda: new,
                qn=[Sym(f"labels-of-self-at-its-own-centre{b}", shape=("n", "q")) for b in range(N + 1)], qnidx="self.qnidx", to_right="self.to_right")
        other = Me("other", qntot="qt", site_num=N, dtype="dt", qnidx="other.qnidx", to_right="other.to_right", qn=[Sym(f"otherqn{b}") for b in range(N + 1)])
        class Cat(Sym):
            def __init__(self, parts):
                super().__init__("concat(" + ",".join(parts) + ")")
                self.parts, self.shape = list(parts), ("n", "q")
        it = SymInterp(src, None, {"np": OpenSym("np", all=lambda x: True, concatenate=lambda l, axis=None: Cat([repr(x) for x in l]), zeros=lambda shape, dtype=None: Sym("zero-label", shape=("one", "q"))),
                                   "backend": Blob("backend"), "dstack": lambda l: join(l, 2), "vstack": lambda l: join(l, 0), "hstack": lambda l: join(l, 1),
                                   "concatenate": lambda l, axis=0: join(l, axis), "zeros": lambda shape, dtype=None: BA(shape)})
        out = it.call_function(fi, [me, other])
        probs = []
        for i in range(N):
            got = new_sites.get(i)
            la, lb, ra, rb = A[i].shape[0], B[i].shape[0], A[i].shape[-1], B[i].shape[-1]
            phys = A[i].shape[1:-1]
            full = tuple((0, n) for n in phys)
            if i == 0:
                want_shape, want = (la,) + phys + (ra + rb,), {f"self[{i}]": ((0, la),) + full + ((0, ra),), f"other[{i}]": ((0, lb),) + full + ((ra, ra + rb),)}
            elif i == N - 1:
                want_shape, want = (la + lb,) + phys + (ra,), {f"self[{i}]": ((0, la),) + full + ((0, ra),), f"other[{i}]": ((la, la + lb),) + full + ((0, rb),)}
            else:
                want_shape, want = (la + lb,) + phys + (ra + rb,), {f"self[{i}]": ((0, la),) + full + ((0, ra),), f"other[{i}]": ((la, la + lb),) + full + ((ra, ra + rb),)}
            if not isinstance(got, BA):
                probs.append(f"site {i}: {got!r}")
                continue
            blocks = {}
            for rg, src_ in got.blocks:
                blocks.setdefault(src_, []).append(rg)
            if got.shape != want_shape or {k_: v_ for k_, v_ in blocks.items()} != {k_: [v_] for k_, v_ in want.items()}:
                probs.append(f"site {i}: shape {got.shape}, blocks {blocks}; expected shape {want_shape}, blocks {want}")
        qn = getattr(out, "qn", None)
        okq = isinstance(qn, list) and len(qn) == N + 1 and all(getattr(qn[b], "parts", None) == [f"selfqn{b}", f"otherqn{b}"] for b in range(1, N)) and repr(qn[0]) == "zero-label" and repr(qn[-1]) == "zero-label"
        okc = calls == [("move_qnidx", "other.qnidx")] and getattr(out, "to_right", None) == "other.to_right" and out is new
        chk.ob("chain-direct-sum", f"MatrixProduct.add [{form}]: tensors", not probs, fi.where, probs[:2] or "first / middle / last sites as specified", "self in the leading block of every bond", line=fi.node.lineno,
               detail="a + b as a matrix product: the two operands occupy diagonal blocks of every bond, in the same order on both sides of each site: " + (probs[0] if probs else ""))
        chk.ob("chain-direct-sum", f"MatrixProduct.add [{form}]: labels and centre", okq and okc, fi.where, {"qn[1]": repr(qn[1]) if isinstance(qn, list) and len(qn) > 1 else repr(qn), "calls": calls},
               "labels of self (moved to other's centre) followed by other's; boundary labels reset; centre and direction of other", line=fi.node.lineno)



def overlap_rule(chk, src):
    """abstract run of MatrixProduct.dot on two symbolic 3-site chains (tensors = lists of leg identities with distinct prime sizes): the result is the closed network
    <self, other> - bonds of `self` joined along `self`, bonds of `other` along `other`, every physical (and ancilla) index of a site of `self` with the same index of
    the same site of `other`, nothing conjugated, nothing left open but the two right boundary bonds"""
    from .. import ntensor as NTm
    from ..ntensor import NT, Leg
    from ..syminterp import SymInterp, Sym, Blob
    fi = src.func(MP, "MatrixProduct.dot")
    n = 3
    for rank in (3, 4):
        edges = []
        sb, ob, ph, qh = [1, 2, 3, 1], [1, 5, 7, 1], [11, 13, 17], [19, 23, 29]

        def site(tag, i, bonds):
            legs = [Leg((tag, i, 0), bonds[i]), Leg((tag, i, 1), ph[i])] + ([Leg((tag, i, 2), qh[i])] if rank == 4 else []) + [Leg((tag, i, rank - 1), bonds[i + 1])]
            return NT(f"{tag}{i}", legs, edges)

        class Ch(Sym):
            def __init__(self, name, sites):
                super().__init__(name)
                self.sites = sites

            def __len__(self):
                return len(self.sites)

            def __iter__(self):
                return iter(self.sites)

            def __getitem__(self, k):
                return self.sites[k]
        me, other = Ch("self", [site("S", i, sb) for i in range(n)]), Ch("other", [site("O", i, ob) for i in range(n)])
        eye = lambda a_, b_=None, **k: NT("eye", [Leg(("E", 0), a_), Leg(("E", 1), a_ if b_ is None else b_)], edges)    # noqa: E731
        npx = NTm.np_namespace(eye=eye, ones=lambda shape, **k: NT("ones", [Leg(("E", q), d) for q, d in enumerate(shape if isinstance(shape, (list, tuple)) else [shape])], edges))
        it = SymInterp(src, None, {"np": npx, "xp": npx, "tensordot": NTm.tensordot, "moveaxis": NTm.moveaxis, "complex": lambda x: x, "float": lambda x: x, "logger": Blob("logger"),
                                   "asnumpy": lambda x: x, "asxp": lambda x: x})
        problems = []
        try:
            res = it.call_function(fi, [me, other])
        except ValueError as e:
            res = None
            problems.append(f"ValueError: {e}")
        got = {frozenset([(a, ca), (b, cb)]) for a, ca, b, cb in edges}
        want = set()
        for i in range(n):
            for ax in range(1, rank - 1):
                want.add(frozenset([(("S", i, ax), False), (("O", i, ax), False)]))
            if i + 1 < n:
                want.add(frozenset([(("S", i, rank - 1), False), (("S", i + 1, 0), False)]))
                want.add(frozenset([(("O", i, rank - 1), False), (("O", i + 1, 0), False)]))
        boundary = {frozenset(x for x in e) for e in got if any(k[0][0] == "E" for k in e)}
        inner = got - boundary
        if not problems:
            if inner != want:
                problems.append(f"contractions missing {sorted(map(sorted, want - inner))[:2]}, unexpected {sorted(map(sorted, inner - want))[:2]}")
            bl = sorted(sorted(k[0] for k in e) for e in boundary)
            if bl != [[("E", 0), ("O", 0, 0)], [("E", 1), ("S", 0, 0)]] and bl != [[("E", 0), ("S", 0, 0)], [("E", 1), ("O", 0, 0)]]:
                problems.append(f"the starting matrix is joined as {bl}; expected one axis with the left boundary of each chain")
            if isinstance(res, NT) and res.legs:
                problems.append(f"the result keeps open axes {res.legs}")
        chk.ob("overlap-network", f"MatrixProduct.dot [rank {rank} sites]", not problems, fi.where, problems[:2] or "closed <self, other> network", "closed <self, other> network", line=fi.node.lineno,
               detail="the overlap is built by one transfer step per site: " + (problems[0] if problems else "") + " - joining a bond of `self` with a bond of `other`, skipping a physical index, or "
                      "feeding the transposed matrix into the next step gives a number that is not the inner product")


def run(chk):
    src = chk.src
    chk.explanation = (
        "Decides the gauge/bookkeeping clauses of C03 that are visible in the shape of the code: (1) wherever bond quantum numbers of two "
        "operands are combined (add: direct sum, apply: outer sum) both lists are read at one centre; (2) labels and total charge are "
        "transformed by the same linear form (sum, negation, direct sum); (3) the reshape that merges operator and state bonds orders the "
        "tensor legs like the add_outer that builds the merged labels, the contraction pairs operator column with operand row, and the "
        "open legs keep (row, column) order; (4) prefactor handling: Mps.add/distance fold both prefactors completely, Mps.conj conjugates "
        "the prefactor, scale multiplies exactly one site tensor, distance uses <a|a> + <b|b> - <a|b> - conj(<a|b>), subtraction is "
        "addition of the (-1)-scaled operand. Not decided: numerical agreement with dense algebra.")
    chk.assumptions = ["add_outer(a, b)[i, j] = a[i] + b[j] flattened i-major (svd_qn.add_outer), reshape is C-ordered",
                       "move_qnidx re-expresses the labels of one object at another centre (mp.py)"]
    run_align_and_charge(chk, src)
    run_merge_order(chk, src)
    run_label_freshness(chk, src)
    # operands of the arithmetic are brought to a common label centre by (partial) canonicalisation sweeps: the centre an object claims must be where its labels have it
    from .C06 import sweep_centre_rule
    sweep_centre_rule(chk, src)
    chk.rule("chain-direct-sum", "abstract run of MatrixProduct.add (state and operator form)", 4)
    chain_direct_sum_rule(chk, src)
    chk.rule("overlap-network", "transfer-matrix step of MatrixProduct.dot", 2)
    overlap_rule(chk, src)
    chk.rule("adjoint", "complex conjugate / adjoint act site by site (abstract run)", 3)
    adjoint_rule(chk, src)
    chk.rule("prefactor", "scalar prefactor kept separately from tensors is folded / conjugated / applied consistently (abstract runs on algebraic states)", 9)
    from .chain_rules import prefactor_rule
    prefactor_rule(chk, src, "prefactor")


META = {
    "category": "other",
    "engine": "QN + TNA(axis tracking)",
    "technique": "abstract interpretation of add / apply / dot / conj_trans / scale on chains of abstract tensors (axis identities with distinct prime sizes, algebraic prefactor states); ast rules on quantum-number bookkeeping (centre alignment, label / charge co-transformation); tree product by the symbolic-tree run",
    "text": "Decides the structural clauses of C03 that make arithmetic correct in *any gauge*: labels of two operands are combined at one "
            "centre, labels and total charge transform together, merged bonds are ordered like their labels, prefactors are folded/conjugated "
            "consistently. These only bite when operands have different centres or operators carry charge, and only after a later "
            "canonicalisation - which is why tests miss them. Numerical agreement with dense algebra is not decided.",
    "note": "The forms of .qn writers (copy / negate / outer sum / direct sum) are classified syntactically; an unclassifiable writer stops the "
            "analysis (exit 2). Axis tracking handles literal axes only.",
    "design_ref": "DESIGN.md 3.4, 3.2 (R5), 4 (C03); as built: 9.1, 9.3, 9.8",
}
