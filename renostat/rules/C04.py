"""C04 - canonicalisation / lossless compression: economic decompositions on every gauge path (no bond can grow),
system/direction agreement of every blocked decomposition, absorb direction of _update_ms, ensure_* bookkeeping."""
import ast

from ..src import AnalysisError, unparse, norm_stmt, walk_no_nested
from .. import qn as Q
from ..axes import Tracker

MP, MPS, TREE = Q.MP, Q.MPS, Q.TREE

FULL_ALLOWED = {
    "MatrixProduct._update_mps": "renormalised-basis update: full_matrices=True on purpose 'to enable increase the bond dimension' (source comment); "
                                 "the spectrum goes to select_basis, which sorts (C05)",
    "TTNS.update_2site": "tree counterpart of _update_mps (two-site update may grow the bond up to the limit)",
}


def svd_mode_rule(chk, src, rule="svd-mode"):
    sites = Q.svd_sites(src, [MP, MPS, TREE])
    chk.table("svd_sites", [f"{s.fi.qual}:{s.kind}:{'QR' if s.qr else 'SVD'}:{s.mode}" for s in sites])
    chk.table("full_matrices_allowed", FULL_ALLOWED)
    for i, s in enumerate(sites):
        if s.mode == "unknown":
            raise AnalysisError(f"{s.fi.where}: full_matrices argument of svd_qn is not a literal (line {s.call.lineno})")
        n_same = sum(1 for t in sites[:i] if t.fi is s.fi)
        key = f"{s.fi.qual}#{n_same}"
        if s.fi.qual in FULL_ALLOWED:
            ok = True
            found = f"{s.mode} (allowed: bond growth is intended here)"
        else:
            ok = s.mode.startswith("economic")
            found = s.mode
        chk.ob(rule, key, ok, s.fi.where, found, "economic (full_matrices=False)", line=s.call.lineno,
               detail=f"{s.fi.qual} decomposes with full matrices on a canonicalise/compress/evolution path: the new bond gets max(rows, cols) "
                      f"instead of min(rows, cols) vectors, so a bond can grow beyond what the neighbouring dimensions allow")
    return sites



def variational_operand_rule(chk, src):
    """variational_compress builds its initial guess from *copies* of the operator and the state: the sweeps that follow contract with the untouched operands"""
    fi = src.func(MP, "MatrixProduct.variational_compress")
    ps = fi.params()      # self, mpo, guess
    for operand, label in ((ps[1], "operator"), ("self", "state")):
        chains = []
        from ..src import defs_of
        for st in ast.walk(fi.node):
            if isinstance(st, ast.Assign) and isinstance(st.value, ast.Call):
                # walk down the method chain to its root, through locals that are assigned exactly once
                names, cur = [], st.value
                hops = 0
                while True:
                    while isinstance(cur, ast.Call) and isinstance(cur.func, ast.Attribute):
                        names.append(cur.func.attr)
                        cur = cur.func.value
                    if isinstance(cur, ast.Name) and cur.id not in fi.params() and hops < 6:
                        d = defs_of(fi.node, cur.id)
                        if len(d) == 1 and isinstance(d[0], ast.Call):
                            cur = d[0]
                            hops += 1
                            continue
                    break
                if isinstance(cur, ast.Name) and cur.id == operand and any(n in ("canonicalise", "compress") for n in names):
                    chains.append(list(reversed(names)))
        ok = bool(chains) and all(c[0] == "copy" for c in chains)
        chk.ob("variational-operand", f"initial guess: the {label} is canonicalised / compressed on a copy", ok, fi.where, chains, [["copy", "canonicalise", "compress"]], line=fi.node.lineno,
               detail=f"variational_compress truncates the {label} to the guess bond dimension while building its initial guess; done in place, the sweeps converge to (truncated operand) and "
                      "the caller's object stays truncated - invisible while the operand's bond dimension is below the guess limit")


def system_side_rule(chk, src, rule):
    """every blocked decomposition of the chain code that derives its system side from a sweep-direction flag: the `system` argument is evaluated (symbolic interpreter, the
    expression itself, the assignments of the names it uses along the branch that is live for the flag value, helper methods from source) for both values of the flag and
    must be 'L' for a sweep to the right and 'R' for a sweep to the left. Literal sides are fixed by design and belong to other rules."""
    from ..syminterp import SymInterp, Sym, Blob
    from .chain_rules import class_resolver
    resolve = class_resolver(src, {"MatrixProduct": MP, "Mps": MPS})
    n_sites = 0
    for rel in (MP, MPS):
        for fi in src.funcs_in(rel):
            calls = []
            for n in walk_no_nested(fi.node):
                if isinstance(n, ast.Call) and unparse(n.func).split(".")[-1] in ("svd_qn", "eigh_qn"):
                    e = next((k_.value for k_ in n.keywords if k_.arg == "system"), None)
                    if e is None and unparse(n.func).endswith("svd_qn") and len(n.args) >= 6:
                        e = n.args[5]
                    if e is not None and not isinstance(e, ast.Constant):
                        calls.append((n, e))
            if not calls:
                continue
            owners = sorted({unparse(a.value) for a in ast.walk(fi.node) if isinstance(a, ast.Attribute) and a.attr == "to_right" and isinstance(a.value, ast.Name)})
            if not owners:
                raise AnalysisError(f"{fi.where}: a computed system side, but no <object>.to_right is read in the function")
            cls = fi.qual.split(".")[0] if "." in fi.qual else None

            def value(e, val, depth=0):
                it = SymInterp(src, resolve, {"logger": Blob("logger")})
                it.max_depth = 6
                objs = {}
                for o in owners:
                    objs[o] = Sym(o, to_right=val)
                    objs[o]._cls = cls if o == "self" and cls in ("MatrixProduct", "Mps") else "Mps"
                env = it.new_env(fi, **objs)

                def ev(x, d):
                    if isinstance(x, ast.Name) and x.id not in objs and d < 4:
                        vals = set()
                        for a in walk_no_nested(fi.node):
                            if isinstance(a, ast.Assign) and len(a.targets) == 1 and isinstance(a.targets[0], ast.Name) and a.targets[0].id == x.id:
                                live = True
                                for g in walk_no_nested(fi.node):
                                    if isinstance(g, ast.If):
                                        inb = any(y is a for b_ in g.body for y in ast.walk(b_))
                                        ino = any(y is a for b_ in g.orelse for y in ast.walk(b_))
                                        if inb or ino:
                                            try:
                                                t = it.ev(g.test, env)
                                            except AnalysisError:
                                                continue
                                            if isinstance(t, bool) and t != inb:
                                                live = False
                                if live:
                                    vals.add(ev(a.value, d + 1))
                        if len(vals) == 1:
                            return vals.pop()
                        raise AnalysisError(f"{fi.where}: the system side `{x.id}` has {len(vals)} live definitions under to_right={val}")
                    if isinstance(x, ast.IfExp):
                        return ev(x.body if it.ev(x.test, env) else x.orelse, d)
                    return it.ev(x, env)
                return ev(e, depth)
            seen = set()
            for n, e in calls:
                key = unparse(e)
                if key in seen:
                    continue
                seen.add(key)
                got = (value(e, True), value(e, False))
                n_sites += 1
                chk.ob(rule, f"{fi.qual}: system={key}", got == ("L", "R"), fi.where, f"to_right=True -> {got[0]!r}, to_right=False -> {got[1]!r}", "to_right=True -> 'L', False -> 'R'", line=n.lineno,
                       detail=f"{fi.qual} derives the system side from the sweep direction with the opposite mapping: the isometry is produced on the wrong "
                              f"side of the bond and the canonical form is silently lost")
    return n_sites


def run(chk):
    src = chk.src
    chk.explanation = (
        "Decides structural necessary conditions of C04: (1) every symmetry-blocked decomposition on a canonicalise / compress / evolution "
        "path runs in economic mode, hence a bond never exceeds min(rows, cols) of the block it came from (the 'no bond has grown' clause); "
        "(2) every site derives the system side ('L'/'R') from the sweep direction with one and the same mapping; (3) _update_ms stores the "
        "isometry on the current site and absorbs the remainder into the neighbour in the sweep direction (axis-level); (4) ensure_left/right_"
        "canonical set (centre, direction) to a pair that canonicalise's entry assertion accepts and that ends in the advertised form; "
        "(5) tree: push_cano_* = decompose then merge on the same node/child. Not decided: that the represented object is preserved and "
        "that tensors are isometries up to rounding (numerical).")
    chk.assumptions = ["scipy qr/rq/svd in economic mode return min(m, n) vectors", "svd_qn passes full_matrices through to them (read in svd_qn.py)"]
    chk.rule("variational-operand", "variational compression leaves its operands intact", 2)
    variational_operand_rule(chk, src)
    chk.rule("direction", "sweep site lists and the direction switch (abstract run on a 5-site chain)", 2)
    from .mini_specs import direction_bookkeeping
    direction_bookkeeping(chk, src, "direction")
    chk.rule("svd-mode", "every svd_qn/eigh_qn call outside the two intended bond-growing updates is economic (full_matrices=False)", 10)
    chk.rule("system-direction", "the system side handed to a blocked decomposition, evaluated for both values of the sweep-direction flag: 'L' to the right, 'R' to the left", 4)
    chk.rule("absorb-direction", "_update_ms (abstract run): isometry restored on the site, remainder contracted into the neighbour on the sweep side, one cut, singular values once, labels and centre follow", 8)
    chk.rule("ensure-consistency", "ensure_left/right_canonical (abstract runs with canonicalise from source, 24 start configurations each on 2 and 4 sites): advertised form, label centre and direction flag on return; no sweep assertion fails", 4)
    chk.rule("tree-push", "push_cano_to_parent/child (abstract runs with recorders): decompose_to_* once, then merge_to_* with the same node (and child index) and the remainder that decomposition returned", 2)
    svd_mode_rule(chk, src)
    chk.rule("svd-blocks", "svd_qn (abstract run with column provenance, shared with C05): every allowed sector's block is decomposed, columns on the rows of their sector with its label, and "
                           "the result does not depend on the magnitude of the entries (the scalar prefactor may live in them)", 3)
    from .chain_rules import svd_qn_rule
    svd_qn_rule(chk, src, "svd-blocks")
    # lossless compression with per-bond limits at the Schmidt ranks needs the limit of the bond that is being cut (rule shared with C05)
    chk.rule("bond-index", "the kept-count limit looked up for a truncation is the limit of the bond being truncated (explicit list and configuration path agree)", 6)
    from .C05 import bond_index_rule
    bond_index_rule(chk, src, "bond-index")
    from . import tree_rules as TR
    TR.decomposition_axes(chk, src, topologies=("generic",))
    from .C06 import sweep_centre_rule
    sweep_centre_rule(chk, src)
    # ---- pass-through of full_matrices inside svd_qn
    sq = src.func("renormalizer/mps/svd_qn.py", "svd_qn")
    def flag_value(e, flag, val, depth=0):
        """value of a small expression under flag = val: constants, conditional expressions / if-statements on the flag, names with such definitions"""
        if isinstance(e, ast.Constant):
            return e.value
        if isinstance(e, ast.Name) and e.id == flag:
            return val
        if isinstance(e, ast.UnaryOp) and isinstance(e.op, ast.Not):
            v = flag_value(e.operand, flag, val, depth)
            return None if v is None else (not v)
        if isinstance(e, ast.IfExp):
            t = flag_value(e.test, flag, val, depth)
            return None if t is None else flag_value(e.body if t else e.orelse, flag, val, depth)
        if isinstance(e, ast.Name) and depth < 3:
            vals = set()
            for n in ast.walk(sq.node):
                if isinstance(n, ast.Assign) and len(n.targets) == 1 and unparse(n.targets[0]) == e.id:
                    # which way of the enclosing `if <flag>` (if any) is this assignment on?
                    guard = None
                    for g in ast.walk(sq.node):
                        if isinstance(g, ast.If) and unparse(g.test).replace("not ", "").strip("()") == flag:
                            tv = val if unparse(g.test) == flag else (not val)
                            if any(x is n for b_ in g.body for x in ast.walk(b_)):
                                guard = bool(tv)
                            elif any(x is n for b_ in g.orelse for x in ast.walk(b_)):
                                guard = not bool(tv)
                    if guard is False:
                        continue
                    vals.add(flag_value(n.value, flag, val, depth + 1))
            return vals.pop() if len(vals) == 1 else None
        return None
    qr = [c for c in ast.walk(sq.node) if isinstance(c, ast.Call) and unparse(c.func).endswith("linalg.qr")]
    modes = []
    for c in qr:
        m_ = [k.value for k in c.keywords if k.arg == "mode"]
        modes.append((flag_value(m_[0], "full_matrices", True), flag_value(m_[0], "full_matrices", False)) if m_ else ("full", "full"))
    ok = bool(qr) and all(m_ == ("full", "economic") for m_ in modes)
    chk.ob("svd-mode", "svd_qn: QR mode follows full_matrices", ok, sq.where, [f"full_matrices=True -> {a!r}, False -> {b!r}" for a, b in modes], "'full' if full_matrices else 'economic'", line=sq.node.lineno)
    osv = [n for n in ast.walk(sq.node) if isinstance(n, ast.Call) and unparse(n.func) == "optimized_svd"]
    # the argument bound to optimized_svd's parameter `full_matrices` (by keyword or by position in that function's own signature) is svd_qn's flag
    osp = [f_ for (r_, q_), f_ in src.funcs.items() if q_ == "optimized_svd" and f_.parent is None]
    pos = osp[0].params().index("full_matrices") if osp and "full_matrices" in osp[0].params() else None
    ok = len(osv) == 1 and (any(k.arg == "full_matrices" and unparse(k.value) == "full_matrices" for k in osv[0].keywords)
                            or (pos is not None and len(osv[0].args) > pos and not any(isinstance(a_, ast.Starred) for a_ in osv[0].args[:pos + 1]) and unparse(osv[0].args[pos]) == "full_matrices"))
    chk.ob("svd-mode", "svd_qn: SVD receives full_matrices", ok, sq.where, [unparse(c)[:80] for c in osv], "optimized_svd(block, full_matrices=full_matrices, ...)")
    # ---- system / direction
    system_side_rule(chk, src, "system-direction")
    # ---- _update_ms: abstract run on abstract tensors (chain_rules.update_ms_rule)
    from .chain_rules import update_ms_rule
    update_ms_rule(chk, src, "absorb-direction")
    # ---- canonical-form checks and ensure_*: abstract runs on chains with per-site orthogonality states (chain_rules.canonical_typestate_rule)
    chk.rule("check-mirror", "check_left/right_canonical (abstract runs on chains with at most one defective site): verdict = definition, sites 0..n-2 / mirror image 1..n-1", 6)
    from .chain_rules import canonical_typestate_rule
    canonical_typestate_rule(chk, src, "check-mirror", "ensure-consistency")
    # ---- tree push
    from ..syminterp import SymInterp, Sym
    for nm, dec, mer, extra in (("push_cano_to_parent", "decompose_to_parent", "merge_to_parent", []), ("push_cano_to_child", "decompose_to_child", "merge_to_child", ["ichild"])):
        fi = src.func(TREE, f"TTNS.{nm}")
        events = []
        remainder = Sym("remainder of the decomposition")
        node = Sym("node", parent=Sym("parent"), children=[Sym("child0"), Sym("child1")])
        me = Sym("ttns")
        me.__dict__[dec] = lambda *a, **k: events.append(("decompose", a, tuple(sorted(k.items())))) or remainder
        me.__dict__[mer] = lambda *a, **k: events.append(("merge", a, tuple(sorted(k.items()))))
        SymInterp(src, None, {}).call_function(fi, [me, node] + ([1] if extra else []))
        want = [("decompose", (node,) + ((1,) if extra else ()), ()), ("merge", (node,) + ((1,) if extra else ()) + (remainder,), ())]
        # keyword spellings of the same calls are the same calls
        norm = [(k_, a_ + tuple(v_ for _, v_ in kw_), ()) for k_, a_, kw_ in events]
        chk.ob("tree-push", nm, norm == want, fi.where, [(k_, [repr(x) for x in a_]) for k_, a_, _ in norm], f"{dec}(node..) once, then {mer}(node.., its result)", line=fi.node.lineno,
               detail="the centre is pushed by decomposing the node towards the neighbour and merging the remainder of *that* decomposition into *that* neighbour")


META = {
    "category": "other",
    "engine": "QN (svd-mode typestate) + axis tracking",
    "technique": "abstract interpretation: typestate runs of the canonical-form checks and ensure_* on chains with per-site orthogonality states, _update_ms / _update_mps / compress / svd_qn on abstract tensors and column-provenance matrices, system side evaluated for both flag values, tree decompositions on symbolic trees; typestate on the literal mode of the remaining decomposition call sites",
    "text": "Clause-only: decides 'no bond dimension has grown' (every decomposition on gauge paths is economic, so a bond is bounded by "
            "min(rows, cols) of its block) and the direction/centre bookkeeping that canonical form depends on (system side from sweep "
            "direction, absorb direction, ensure_* start configuration). Preservation of the represented object and isometry are numerical "
            "and are not decided."
            ' The per-bond limit looked up for a truncation (shared with C05) and the sweep site lists / direction switch (abstract run on a 5-site chain) are decided too.',
    "note": "Two sites (_update_mps, TTNS.update_2site) use full matrices on purpose; they are a frozen table with the source's own reason.",
    "design_ref": "DESIGN.md 3.4, 4 (C04); as built: 9.1, 9.3, 9.8",
}
