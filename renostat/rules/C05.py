"""C05 - truncation respects the bond limit: sorted-spectrum typestate, co-truncation of factors and labels,
kept-count bounds of CompressConfig, bond addressed by the explicit-list and the config path."""
import ast

from ..src import AnalysisError, unparse, norm_stmt, walk_no_nested
from .. import qn as Q

MP, MPS, TREE, LIB, CONFIGS = Q.MP, Q.MPS, Q.TREE, Q.LIB, Q.CONFIGS


def bound_terms(e):
    """operands of min(...) / np.minimum(...) as texts; None if e is not a min-form"""
    if isinstance(e, ast.Call) and unparse(e.func) in ("min", "np.minimum", "numpy.minimum") and len(e.args) >= 2:
        return [unparse(a).replace(" ", "") for a in e.args]
    return None


def bond_index_rule(chk, src, rule):
    """explicit-list and configuration paths address the same bond, and that bond is the one being truncated"""
    # ---- chain compression: abstract run (chain_rules.py)
    from .chain_rules import compress_bond_rule
    compress_bond_rule(chk, src, rule)
    # ---- renormalised-basis update: abstract run (chain_rules.update_mps_rule): kept count from the spectrum of the kept side, for the site of the truncated bond
    from .chain_rules import update_mps_rule
    update_mps_rule(chk, src, {"bond": rule})
    # tree: the kept-count paths of compress_node / update_2site (configuration and explicit list, index of the bond's child end, cap by the number of singular values)
    # are decided by the abstract run of the tree decompositions (tree_rules.decomposition_axes, rule `decomposition-axes`)


def config_copy_rule(chk, src, rule, classes=("CompressConfig",)):
    """abstract run of <Config>.copy(): states are copied all the time (copy, scale, apply, evolve...) and take a copy of their configuration with them; the copy must
    carry the value of every attribute (in particular the per-bond limits), mutable containers as copies of their own"""
    from ..syminterp import SymInterp, Sym
    CFG = "renormalizer/utils/configs.py"
    for cname in classes:
        ci = src.cls(CFG, cname)
        fi = ci.methods.get("copy")
        init = ci.methods.get("__init__")
        if fi is None or init is None:
            raise AnalysisError(f"{CFG}::{cname}: copy / __init__ not found")
        attrs = []
        for st in ast.walk(init.node):
            if isinstance(st, (ast.Assign, ast.AnnAssign)):
                for t in (st.targets if isinstance(st, ast.Assign) else [st.target]):
                    if isinstance(t, ast.Attribute) and isinstance(t.value, ast.Name) and t.value.id == "self" and t.attr not in attrs:
                        attrs.append(t.attr)

        class Val(Sym):
            def __init__(self, name, of=None):
                super().__init__(name)
                self.of = of

            def copy(self):
                return Val(f"copy({self._name})", of=self)
        for variant in ("containers set", "containers None"):
            vals = {a: Val(a) for a in attrs}
            if variant == "containers None":
                for a in attrs:
                    if a in ("max_dims",):
                        vals[a] = None

            class Cfg(Sym):
                pass
            me = Cfg("config", **vals)
            klass = Sym(cname)
            klass.__dict__["__new__"] = lambda c: Cfg("new")
            me.__dict__["__class__"] = klass
            it = SymInterp(src, None, {})
            try:
                new = it.call_function(fi, [me])
            except AnalysisError:
                raise                   # the stand-ins cannot follow the code: no verdict
            except Exception as e:      # noqa: BLE001 - an exception of the interpreted code is the finding
                chk.ob(rule, f"{cname}.copy [{variant}]", False, fi.where, f"{type(e).__name__}: {e}", "a copy carrying every attribute", line=fi.node.lineno)
                continue
            probs = []
            if new is me or not isinstance(new, Sym):
                probs.append("the object itself (or no configuration) is returned")
            else:
                for a in attrs:
                    v0, v1 = vals[a], new.__dict__.get(a, "<missing>")
                    same = v1 is v0 or (isinstance(v1, Val) and v1.of is v0)
                    if not same:
                        probs.append(f"attribute {a}: copy has {v1!r}, original {v0!r}")
                    elif a in ("max_dims", "procedure") and v0 is not None and v1 is v0:
                        probs.append(f"attribute {a} (a mutable container updated in place) is shared with the original")
            chk.ob(rule, f"{cname}.copy [{variant}]", not probs, fi.where, probs[:3] or "every attribute carried over", "every attribute carried over", line=fi.node.lineno,
                   detail=f"{cname}.copy(): " + (probs[0] if probs else "") + " - every copied / scaled / propagated state takes this copy along: a dropped per-bond limit list is silently "
                          "replaced by the uniform global limit at the next compression")


def run(chk):
    src = chk.src
    chk.explanation = (
        "Decides the structural part of C05: (1) singular vectors/values of a blocked (unsorted) decomposition never reach a prefix "
        "truncation - they go to select_basis, which sorts - and the sorted branch of svd_qn permutes u, v, s and both label lists by one "
        "argsort; (2) wherever a kept count m is applied, u, s, v and both label lists are cut by the same m (or selected by one index list); "
        "(3) the kept count is <= the configured per-bond limit and <= the number of singular values for the `fixed` and `both` criteria and "
        "for the explicit-limit path; (4) the explicit-list path and the config path address the same bond for a given site and direction. "
        "Not decided: the two-sided discarded-weight error bound (a theorem about singular values).")
    chk.assumptions = ["prefix truncation keeps the largest singular values iff the spectrum is globally sorted in descending order",
                       "select_basis sorts candidates by singular value (sorted(..., reverse=True)) before choosing"]
    from . import tree_rules as TR
    TR.must_update(chk, src)
    chk.rule("config-copy", "CompressConfig.copy() carries every attribute, the per-bond limit array as a copy of its own (abstract run)", 2)
    config_copy_rule(chk, src, "config-copy")
    chk.rule("threshold-count", "threshold criterion = count of normalised singular values above the threshold (abstract run)", 1)
    from .mini_specs import threshold_count
    threshold_count(chk, src, "threshold-count")
    chk.rule("sorted-before-prefix", "values of a full (blocked, unsorted) svd_qn never flow into _update_ms / truncate_tensors / a prefix slice (the chain update _update_mps: abstract run, co-truncate)", 1)
    chk.rule("svd-sort", "svd_qn (abstract run with column provenance): columns on the rows of their sector with its label; economic SVD: u, v, s and both label lists in one descending order", 3)
    chk.rule("co-truncate", "u, s, v and both label lists are cut by one bound / selected by one index (abstract runs of _update_ms and truncate_tensors; select_basis)", 8)
    chk.rule("trunc-bound", "compute_m_trunc: kept count = min over the bounds its criterion names; unknown criteria rejected (abstract run)", 4)
    chk.rule("bond-index", "explicit-list path and config path select the same bond for (site, direction)", 6)
    chk.rule("select-sorts", "select_basis (abstract run with column provenance, 7 cases): the largest values are kept, per-sector quota first when asked, at most Mmax, no duplicates", 7)

    sites = Q.svd_sites(src, [MP, MPS, TREE])
    for i, s in enumerate(sites):
        n_same = sum(1 for t in sites[:i] if t.fi is s.fi)
        if s.fi.qual == "MatrixProduct._update_mps":
            continue        # decided by the abstract run of _update_mps (co-truncate): factors go to select_basis whole, spectra are sorted before any prefix is taken
        if s.kind == "svd" and s.mode == "full" or s.kind == "eigh":
            bad = Q.misuse_of_unsorted(s)
            chk.ob("sorted-before-prefix", f"{s.fi.qual}#{n_same}", not bad, s.fi.where, [b[1] for b in bad][:3] or "only select_basis / entropy / np.sort consumers",
                   "no prefix truncation", line=s.call.lineno,
                   detail=f"{s.fi.qual}: singular vectors of a blocked decomposition (one block per quantum number, not globally sorted) are truncated by "
                          f"prefix: the kept vectors are not the ones with the largest singular values")
    # svd_qn: abstract run with column provenance (chain_rules.svd_qn_rule)
    from .chain_rules import svd_qn_rule
    svd_qn_rule(chk, src, "svd-sort")
    # ---- co-truncate: abstract runs
    from .chain_rules import update_ms_rule
    update_ms_rule(chk, src, "co-truncate")
    from .chain_rules import update_mps_rule
    update_mps_rule(chk, src, {"labels": "co-truncate", "store": "co-truncate"})
    from .. import ntensor as NTm
    from ..ntensor import NT, Leg
    from ..syminterp import SymInterp
    tt = src.func(TREE, "truncate_tensors")
    u = NT("u", [Leg(("rows", "u"), 7), Leg(("new",), 13)])
    v = NT("v", [Leg(("rows", "v"), 11), Leg(("new",), 13)])
    sv = NT("s", [Leg(("new",), 13)])
    ql, qr = [f"l{k}" for k in range(13)], [f"r{k}" for k in range(13)]
    res = SymInterp(src, None, {"np": NTm.np_namespace()}).call_function(tt, [u, sv, v, ql, qr, 5])
    ok = isinstance(res, tuple) and len(res) == 5 and isinstance(res[0], NT) and res[0].keys() == [("rows", "u"), ("new",)] and res[0].legs[1].cut == 5 \
        and isinstance(res[1], NT) and res[1].legs[0].cut == 5 and isinstance(res[2], NT) and res[2].keys() == [("rows", "v"), ("new",)] and res[2].legs[1].cut == 5 \
        and list(res[3]) == ql[:5] and list(res[4]) == qr[:5]
    chk.ob("co-truncate", "truncate_tensors", ok, tt.where, repr(res)[:200], "(u[:, :m], s[:m], v[:, :m], qnl[:m], qnr[:m])", line=tt.node.lineno,
           detail="factors, singular values and both label lists must be cut by the one kept count and returned in the order they were given")
    # ---- select_basis: abstract run on matrices with column provenance (chain_rules.select_basis_rule)
    from .chain_rules import select_basis_rule
    select_basis_rule(chk, src, "co-truncate", "select-sorts")
    # ---- trunc-bound
    cc = src.cls(CONFIGS, "CompressConfig")
    fx = cc.methods["_fixed_m_trunc"]
    cm = cc.methods["compute_m_trunc"]
    # abstract run of the dispatch for every criterion: the result is a min over a set of bounds (MinSet); unknown criteria must be rejected
    from ..syminterp import SymInterp, Sym

    class MinSet:
        def __init__(self, items):
            self.items = frozenset(items)

        def __repr__(self):
            return "min(" + ", ".join(sorted(self.items)) + ")"

    def smin(*a):
        out = set()
        for x in (a[0] if len(a) == 1 and isinstance(a[0], (list, tuple)) else a):
            out |= x.items if isinstance(x, MinSet) else {repr(x)}
        return MinSet(out)
    crit = Sym("CompressCriteria", threshold="<threshold>", fixed="<fixed>", both="<both>")
    need = {"threshold": {"THR"}, "fixed": {"FIX"}, "both": {"THR", "FIX"}}
    for name, req in need.items():
        me = Sym("config", criteria=getattr(crit, name), _threshold_m_trunc=lambda sigma: MinSet({"THR"}), _fixed_m_trunc=lambda sigma, idx, left: MinSet({"FIX"}))
        it = SymInterp(src, None, {"CompressCriteria": crit, "min": smin, "len": lambda x: MinSet({"LEN"}),
                                   "max": lambda *a: Sym("max(" + ", ".join(repr(x) for x in (a[0] if len(a) == 1 and isinstance(a[0], (list, tuple)) else a)) + ")")})
        res = it.call_function(cm, [me, "sigma", "idx", "left"])
        got = res.items if isinstance(res, MinSet) else {repr(res)}
        ok = req <= got and got <= {"THR", "FIX", "LEN"} and (name != "threshold" or "FIX" not in got) and (name != "fixed" or "THR" not in got)
        chk.ob("trunc-bound", f"compute_m_trunc[{name}]", ok, cm.where, repr(res), "min over " + " and ".join(sorted(req)) + " (len(sigma) may be added)", line=cm.node.lineno,
               detail=f"criterion `{name}`: the kept count must be bounded by " + " and ".join({"THR": "the threshold count", "FIX": "the per-bond limit"}[x] for x in sorted(req)) +
                      "; a missing bound lets the bond dimension exceed the configured limit (or ignores the threshold)")
    # an unknown criterion must be rejected, not answered with some default bound
    from ..syminterp import SymRaise
    me = Sym("config", criteria=Sym("<not a criterion>"), _threshold_m_trunc=lambda sigma: MinSet({"THR"}), _fixed_m_trunc=lambda sigma, idx, left: MinSet({"FIX"}))
    it = SymInterp(src, None, {"CompressCriteria": crit, "min": smin, "len": lambda x: MinSet({"LEN"})})
    it.check_asserts = True
    try:
        res = it.call_function(cm, [me, "sigma", "idx", "left"])
        rejected = False
    except SymRaise as e:
        res, rejected = str(e), True
    chk.ob("trunc-bound", "compute_m_trunc: unknown criteria rejected", rejected, cm.where, repr(res)[:80], "an exception", line=cm.node.lineno,
           detail="a criterion outside {threshold, fixed, both} must raise; answering it with one of the bounds silently ignores the other")
    # the per-bond limit, the cap by the number of singular values and the explicit-limit paths of compress / compress_node / update_2site are decided by abstract runs
    # (bond-index: chain_rules.compress_bond_rule; decomposition-axes: tree_rules)
    from . import tree_rules as TR
    TR.decomposition_axes(chk, src, topologies=("generic",))
    TR.compress_sweep(chk, src)          # every bond of a tree is truncated once, at its centre, with the limit of the call
    bond_index_rule(chk, src, "bond-index")


META = {
    "category": "other",
    "engine": "QN + FLOW",
    "technique": "abstract interpretation of compress, _update_ms, _update_mps, select_basis, svd_qn, truncate_tensors, compute_m_trunc and CompressConfig.copy on abstract tensors / column provenance / min-sets (kept counts as min over named bounds, singular values as mutable array objects), tree decompositions on symbolic trees",
    "text": "Decides the bond-limit half of C05 and the precondition of the error-bound half: prefix truncation only ever sees a globally "
            "sorted spectrum, factors and labels are cut together, the kept count is a min against the configured limit and the spectrum "
            "length, and both ways of specifying a limit address the same bond. The discarded-weight inequality itself is a theorem about "
            "singular values and is not decided."
            ' The criteria dispatch and the threshold count are decided by abstract runs (result = min over a set of bounds; count of normalised values above the threshold).'
            ' For tree states the compression sweep is run abstractly: every bond is truncated once, at its gauge centre, with the temporary limit of the call.',
    "note": "Forms understood for bounds: min / np.minimum; anything else on those assignments stops the analysis (exit 2).",
    "design_ref": "DESIGN.md 3.4, 3.5, 4 (C05); as built: 9.1, 9.3, 9.8",
}
