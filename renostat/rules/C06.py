"""C06 - conserved quantum numbers: label algebra (shared with C03), labels stored together with decomposition factors,
masks / renormalised-basis updates built from fresh labels of the same object, quantum numbers carried by rebuilt operators."""
import ast

from ..src import AnalysisError, unparse, norm_stmt, walk_no_nested
from .. import qn as Q
from . import C03, C15

MP, MPS, TREE, GS = Q.MP, Q.MPS, Q.TREE, "renormalizer/mps/gs.py"

# decomposition sites: which factor family is stored on which site and which label family must be stored with it
# mode "function": pairing is checked at function level; "delegate": factors and labels are handed to a callee together
SITES = {
    "MatrixProduct.compress": ("delegate", "_update_ms"),
    "MatrixProduct._push_cano": ("delegate", "_update_ms"),
    "MatrixProduct._update_mps": ("run", None),      # abstract run (chain_rules.update_mps_rule)
    "Mps._evolve_tdvp_ps": ("run", None),            # abstract run with bookkeeping events (chain_rules.tdvp_bookkeeping_rule)
    "Mps._evolve_tdvp_mu_vmf": ("run", None),        # same (the derivative function of the global scheme is run once)
    "Mps._evolve_tdvp_mu_cmf": ("run", None),        # same
    "TTNS.decompose_to_parent": ("function", None),
    # tree convention: the bond between a node and its child is labelled on the child (child.qn = charge of the child's subtree);
    # when the node keeps u, the label that changes is the child's (qnr)
    "TTNS.decompose_to_child": ("function", {"u": "qnr"}),
    "TTNS.compress_node": ("function", {"u": "qnr"}),
    "TTNS.update_2site": ("select", None),
}


def names_in(e):
    return {x.id for x in ast.walk(e) if isinstance(x, ast.Name)}


def alias_closure(fn, seeds):
    """names that are (transitively) simple functions of the seed names: x = f(seed) assignments"""
    out = set(seeds)
    changed = True
    while changed:
        changed = False
        for n in ast.walk(fn):
            if isinstance(n, ast.Assign) and len(n.targets) == 1:
                t = n.targets[0]
                tn = [t.id] if isinstance(t, ast.Name) else []
                if tn and tn[0] not in out and names_in(n.value) & out and not isinstance(n.value, ast.Tuple):
                    # only shape/transpose style derivations keep the factor identity
                    v = n.value
                    txt = unparse(v)
                    if any(k in txt for k in (".T", ".reshape", "asxp(", "asnumpy(", "moveaxis", ".dot(", "np.diag", "tensordot", "truncate_tensors")) or isinstance(v, ast.Name):
                        out.add(tn[0])
                        changed = True
    return out


def tensor_stores(fn):
    """statements storing a site / node tensor: X[k] = ..., node.tensor = ..."""
    out = []
    for n in ast.walk(fn):
        if isinstance(n, ast.Assign) and len(n.targets) == 1:
            t = n.targets[0]
            if isinstance(t, ast.Subscript) and not (isinstance(t.value, ast.Attribute) and t.value.attr in ("qn",)) and isinstance(t.value, ast.Name) \
                    and t.value.id not in ("shape", "args", "indices", "rdm", "mat", "hop_y", "S_L_list"):
                out.append(n)
            if isinstance(t, ast.Attribute) and t.attr == "tensor":
                out.append(n)
    return out


def label_stores(fn):
    out = []
    for n in ast.walk(fn):
        if isinstance(n, ast.Assign) and len(n.targets) == 1:
            t = n.targets[0]
            if isinstance(t, ast.Attribute) and t.attr == "qn":
                out.append(n)
            if isinstance(t, ast.Subscript) and isinstance(t.value, ast.Attribute) and t.value.attr == "qn":
                out.append(n)
    return out


def sweep_centre_rule(chk, src):
    """abstract run of MatrixProduct.canonicalise (with iter_idx_list and _switch_direction run from their own source, _push_cano as 'the centre at idx moves
    one site in the sweep direction and qnidx follows', as _update_ms does) on chains of 2..5 sites, both directions, every stop site: on return the label
    centre the object claims (qnidx) is the site where the tensors and labels actually have their centre, and the direction flag is usable for the next
    sweep (centre at the first site -> to_right, at the last site -> not to_right)."""
    from ..syminterp import SymInterp, Sym, SymRaise
    chk.rule("sweep-centre", "canonicalise (full and partial sweeps): the claimed label centre and direction match where the sweep actually left the centre", 20)
    fi = src.func(MP, "MatrixProduct.canonicalise")
    it_src = src.func(MP, "MatrixProduct.iter_idx_list")
    sw_src = src.func(MP, "MatrixProduct._switch_direction")
    for n in (2, 3, 4, 5):
        for to_right in (True, False):
            start = 0 if to_right else n - 1
            stops = [None] + ([k for k in range(1, n)] if to_right else [k for k in range(n - 2, -1, -1)])
            for stop in stops:
                me = Sym("self", _cls="MatrixProduct", site_num=n, qnidx=start, to_right=to_right, centre=start)
                probs = []
                from .chain_rules import class_resolver
                it = SymInterp(src, class_resolver(src, {"MatrixProduct": MP}), {})

                def push(idx, me=me, probs=probs):
                    if idx != me.centre:
                        probs.append(f"_push_cano({idx}) while the centre is at site {me.centre}")
                    me.centre = idx + 1 if me.to_right else idx - 1
                    if not 0 <= me.centre < me.site_num:
                        probs.append(f"centre pushed off the chain ({me.centre})")
                    me.qnidx = me.centre
                me.__dict__.update(_push_cano=push, iter_idx_list=lambda full=True, stop_idx=None, me=me, it=it: it.call_function(it_src, [me], {"full": full, "stop_idx": stop_idx}),
                                   _switch_direction=lambda me=me, it=it: it.call_function(sw_src, [me]))
                try:
                    it.call_function(fi, [me] + ([] if stop is None else [stop]))
                except SymRaise as e:
                    probs.append(f"raises {e}")
                want_centre = (n - 1 if to_right else 0) if stop is None else stop
                if not probs:
                    if me.centre != want_centre:
                        probs.append(f"the centre is left at site {me.centre}, expected {want_centre}")
                    if me.qnidx != me.centre:
                        probs.append(f"qnidx claims site {me.qnidx} but tensors and labels have their centre at site {me.centre}")
                    elif (me.centre == 0 and n > 1 and me.to_right is not True) or (me.centre == n - 1 and n > 1 and me.to_right is not False):
                        probs.append(f"centre at site {me.centre} of {n} with to_right={me.to_right}: the next sweep's entry assertion / direction is wrong")
                chk.ob("sweep-centre", f"canonicalise[n={n}, to_right={to_right}, stop_idx={stop}]", not probs, fi.where, probs[:2] or "claimed centre = actual centre", "claimed centre = actual centre",
                       line=fi.node.lineno, detail="; ".join(probs[:2]) + " - bond labels left of the claimed centre are read as left-system labels, right of it as right-system labels: "
                                                   "a wrong claim makes later blocked decompositions discard non-zero blocks in sectors with non-zero total")


def run(chk):
    src = chk.src
    chk.explanation = (
        "Decides the bookkeeping clauses of C06 that are visible in the code: (1) the label algebra of C03 (alignment, label/charge "
        "co-transformation, merged-bond order); (2) at every blocked-decomposition site, when the isometric factor is written into a site/"
        "node tensor, the label list returned for that factor is written to the same object's bond labels (or both are handed to the one "
        "helper that does); (3) every renormalised-basis update receives the block labels computed from the same object and the same active "
        "sites immediately before, and the sector mask is derived from those labels; (4) operators rebuilt from operators keep their "
        "quantum numbers (shared with C15). Not decided: absence of leakage for all inputs (depends on the Hamiltonian conserving the charge "
        "and on numerical blocks).")
    chk.assumptions = ["svd_qn returns (u, [s,] qnl, v, [s,] qnr): labels of the columns of u and v respectively (read in svd_qn.py)",
                       "select_basis returns (ms, dim, qn of the kept columns, complement)"]
    C03.run_align_and_charge(chk, src)
    sweep_centre_rule(chk, src)
    C03.run_merge_order(chk, src)
    C03.run_label_freshness(chk, src)
    chk.rule("sector-constructor", "Mps.hartree_product_state as a whole on exact data (one- and two-component charges): integer occupations and site vectors inside one sector are accepted with "
             "running-sum labels; a site vector over local states of different quantum numbers is refused", 8)
    from . import decompose_rules as DR
    DR.hartree_rule(chk, src, "sector-constructor")
    DR.random_last_site_rule(chk, src, "sector-constructor")
    chk.rule("mask-and-outer", "sector mask and label merge helpers (abstract runs)", 2)
    from .mini_specs import qn_mask_and_outer
    qn_mask_and_outer(chk, src, "mask-and-outer")
    chk.rule("label-co-update", "a decomposition factor stored into a site tensor is accompanied by a store of its label list to the bond labels", 10)
    chk.rule("fresh-labels", "_update_mps / update_2site receive qnbigl, qnbigr computed by _get_big_qn(cidx) / get_qnmat of the same object and sites, "
             "and the mask applied to the local vector comes from the same call", 4)
    chk.rule("qn-carry", "Op(...) whose symbol derives from an existing Op's symbol/split_symbol passes an explicit qn", 9)
    chk.table("decomposition_sites", {k: v[0] for k, v in SITES.items()})
    sites = Q.svd_sites(src, [MP, MPS, TREE])
    by_fn = {}
    for s in sites:
        by_fn.setdefault(s.fi.qual, []).append(s)
    for qual in by_fn:
        if qual not in SITES:
            raise AnalysisError(f"new blocked-decomposition site {qual} is not classified in rules/C06.py (SITES table)")
    for qual, (mode, callee) in SITES.items():
        if qual not in by_fn:
            raise AnalysisError(f"decomposition site {qual} vanished")
        if mode == "run":
            continue
        for k, s in enumerate(by_fn[qual]):
            fi = s.fi
            r = s.roles()
            if r is None:
                raise AnalysisError(f"{fi.where}: result unpacking of svd_qn not understood")
            key = f"{qual}#{k}"
            if mode == "delegate":
                calls = [c for c in ast.walk(fi.node) if isinstance(c, ast.Call) and unparse(c.func).endswith(callee)]
                ok = False
                for c in calls:
                    argn = set()
                    for a in list(c.args) + [kw.value for kw in c.keywords]:
                        argn |= names_in(a)
                    fu = alias_closure(fi.node, {r["u"]})
                    fv = alias_closure(fi.node, {r["v"]})
                    if (argn & fu) and (argn & fv) and r["qnl"] in argn and r["qnr"] in argn:
                        ok = True
                chk.ob("label-co-update", key, ok, fi.where, [unparse(c)[:90] for c in calls], f"{callee}(.., u, v.., qnl, qnr)", line=s.call.lineno,
                       detail=f"{qual} hands the factors to {callee} without both label lists: the bond labels are not updated with the tensors")
                continue
            if mode == "select":
                # labels flow through select_basis; its third result must be stored to the object's labels
                sel = [n for n in ast.walk(fi.node) if isinstance(n, ast.Assign) and isinstance(n.value, ast.Call) and unparse(n.value.func) == "select_basis"]
                if not sel:
                    raise AnalysisError(f"{fi.where}: select_basis call not found")
                for j, a in enumerate(sel if k == 0 else []):
                    args = [unparse(x) for x in a.value.args]
                    # (vectors, singular values, labels) must come from one side of one decomposition
                    fam_ok = False
                    for s2 in by_fn[qual]:
                        r2 = s2.roles()
                        for side in (("u", "qnl", 0), ("v", "qnr", 1)):
                            ss = r2["s"][min(side[2], len(r2["s"]) - 1)] if r2["s"] else None
                            if args[0] == r2[side[0]] and args[2] == r2[side[1]] and (ss is None or args[1] in r2["s"]):
                                fam_ok = True
                    # after the OFS choice the names are re-bound (Uset, SUset, qnlnew = Uset1, ...): accept tuple re-binding of whole families
                    if not fam_ok:
                        fam_ok = consistent_family(fi.node, args[:3], by_fn[qual])
                    tg = a.targets[0].elts if isinstance(a.targets[0], ast.Tuple) else []
                    labname = tg[2].id if len(tg) >= 3 and isinstance(tg[2], ast.Name) else None
                    chk.ob("label-co-update", f"{key}/select_basis#{j} arguments", fam_ok, fi.where, args[:4], "(vectors, singular values, labels) of one side of one decomposition",
                           line=a.lineno, detail=f"{qual}: select_basis receives vectors and labels from different sides/decompositions: kept vectors get the wrong quantum numbers")
                if k == 0:
                    ls = label_stores(fi.node)
                    labnames = {(a.targets[0].elts[2].id) for a in sel if isinstance(a.targets[0], ast.Tuple)}
                    good = [l for l in ls if names_in(l.value) & labnames]
                    ts = [t for t in tensor_stores(fi.node) if names_in(t.value) & alias_closure(fi.node, {a.targets[0].elts[0].id for a in sel})]
                    chk.ob("label-co-update", f"{qual}: kept labels stored", len(good) >= 1 and len(ts) >= 1, fi.where, [norm_stmt(l, 60) for l in good], "X.qn[...] = msqn", line=fi.node.lineno,
                           detail=f"{qual} stores the selected vectors but never the selected labels")
                continue
            # mode == function
            fam = {"u": alias_closure(fi.node, {r["u"]}), "v": alias_closure(fi.node, {r["v"]}) if r["v"] else set()}
            lab = {"u": r["qnl"], "v": r["qnr"]}
            if isinstance(callee, dict):
                lab = {f: r[role] for f, role in callee.items()}
                fam = {f: fam[f] for f in lab}
            ts = tensor_stores(fi.node)
            ls = label_stores(fi.node)
            stored = {f for f in fam if any(names_in(t.value) & fam[f] for t in ts)}
            # the factor carrying the isometry is the one stored by reshape only (not multiplied by s): both may be stored; demand labels for each stored family
            # unless the other factor is absorbed into a neighbour (tensordot / dot with s)
            need = set()
            for f in stored:
                for t in ts:
                    if names_in(t.value) & fam[f]:
                        txt = unparse(t.value)
                        if "tensordot" in txt and "reshape" not in txt.split("tensordot")[0]:
                            continue  # absorbed remainder, not the isometry
                        need.add(f)
            if not need:
                raise AnalysisError(f"{fi.where}: no isometric factor store recognised")
            for f in sorted(need):
                good = [l for l in ls if lab[f] in names_in(l.value) or names_in(l.value) & alias_closure(fi.node, {lab[f]})]
                chk.ob("label-co-update", f"{key}: labels of {f}", bool(good), fi.where, [norm_stmt(l, 70) for l in good] or "never stored", f"a store of {lab[f]} to .qn",
                       line=s.call.lineno, detail=f"{qual} writes the {f} factor of a blocked decomposition into a tensor but drops its label list {lab[f]}: "
                                                  f"the stored bond labels no longer describe the non-zero blocks")
    # ---- fresh labels
    from .chain_rules import single_sweep_rule
    single_sweep_rule(chk, src, rule_fresh="fresh-labels")        # the ground-state sweep driver: abstract run with versioned events
    from .chain_rules import tdvp_bookkeeping_rule
    tdvp_bookkeeping_rule(chk, src, rule_labels="label-co-update", rule_fresh="fresh-labels")     # projector-splitting and constant-mean-field schemes
    for rel, qual, upd, getter in ((MP, "MatrixProduct.variational_compress", "_update_mps", "_get_big_qn"),):
        fi = src.func(rel, qual)
        order = Q.stmts_in_order(fi.node)
        gets = [(i, s) for i, s in enumerate(order) if isinstance(s, ast.Assign) and isinstance(s.value, ast.Call) and unparse(s.value.func).endswith(getter)]
        upds = [(i, c) for i, s in enumerate(order) if not isinstance(s, (ast.For, ast.While, ast.If, ast.Try, ast.With)) for c in ast.walk(s)
                if isinstance(c, ast.Call) and unparse(c.func).endswith(upd)]
        if not gets or not upds:
            raise AnalysisError(f"{fi.where}: {getter}/{upd} calls not found")
        for j, (iu, c) in enumerate(upds):
            prev = [g for g in gets if g[0] < iu]
            if not prev:
                chk.ob("fresh-labels", f"{qual}#{j}", False, fi.where, "no preceding label computation", f"{getter}(cidx) before {upd}", line=c.lineno)
                continue
            ig, g = prev[-1]
            tg = [t.id if isinstance(t, ast.Name) else None for t in g.targets[0].elts]
            gobj = unparse(g.value.func.value)
            gsites = unparse(g.value.args[0]).replace(" ", "")
            args = [unparse(a).replace(" ", "") for a in c.args]
            uobj = unparse(c.func.value)
            same_sites = args[1] == gsites
            same_lab = args[2:4] == tg[:2]
            # the update may be applied to a copy of the swept object (res_mps = mps.copy()), which has the same labels
            copy_of = False
            if uobj != gobj:
                d = [s for s in order[:iu] if isinstance(s, ast.Assign) and unparse(s.targets[0]).split("[")[0] == uobj.split("[")[0]]
                copy_of = bool(d) and f"{gobj}.copy()" in unparse(d[-1].value)
            no_mut_between = not any(isinstance(x, ast.Call) and unparse(x.func) in (f"{gobj}.{upd}", f"{gobj}.move_qnidx", f"{gobj}._switch_direction")
                                     for s in order[ig + 1:iu] for x in ast.walk(s) if not (isinstance(s, (ast.For, ast.While, ast.If))))
            ok = same_sites and same_lab and (uobj == gobj or copy_of) and no_mut_between
            chk.ob("fresh-labels", f"{qual}#{j}", ok, fi.where, {"labels from": f"{gobj}.{getter}({gsites})", "update": f"{uobj}.{upd}({', '.join(args[:4])})"},
                   "same object, same sites, same label variables, nothing in between", line=c.lineno,
                   detail=f"{qual}: the renormalised-basis update uses block labels that were not computed from the current state of the same object and sites (stale mask/labels leak amplitude out of the sector)")
        # the mask
        masks = [s for s in order if isinstance(s, ast.Assign) and isinstance(s.value, ast.Call) and unparse(s.value.func) == "get_qn_mask"]
        for m in masks:
            ig = [g for g in gets if order.index(m) > g[0]]
            if not ig:
                continue
            g = ig[-1][1]
            qnmat = g.targets[0].elts[2].id if len(g.targets[0].elts) >= 3 and isinstance(g.targets[0].elts[2], ast.Name) else None
            gobj = unparse(g.value.func.value)
            a = [unparse(x).replace(" ", "") for x in m.value.args]
            chk.ob("fresh-labels", f"{qual}: mask", a == [qnmat, f"{gobj}.qntot"], fi.where, a, [qnmat, f"{gobj}.qntot"], line=m.lineno,
                   detail="the sector mask must be built from the block labels just computed and the same object's total charge")
    # ---- the renormalised-basis update itself: abstract run on abstract tensors (vectors, values, labels of one factor selected together; kept labels stored on the bond
    #      of the new index, the others untouched; label centre follows the tensor centre; every direction, one- and two-site, chain ends, state-averaged)
    from .chain_rules import update_mps_rule
    update_mps_rule(chk, src, {"labels": "label-co-update", "store": "label-co-update"})
    # ---- qn-carry (shared implementation with C15)
    for rel in (C15.OP, C15.MODEL, C15.SYMMPO, C15.HQC):
        for fi in src.funcs_in(rel):
            C15.qn_carry(src, chk, fi)


def consistent_family(fn, args, sites):
    """(V, S, Q) passed to select_basis are re-bound names: accept when a tuple assignment binds them together from one site's same-side results"""
    for n in ast.walk(fn):
        if isinstance(n, ast.Assign) and isinstance(n.targets[0], ast.Tuple) and isinstance(n.value, ast.Tuple) and len(n.targets[0].elts) == len(n.value.elts):
            tn = [unparse(t) for t in n.targets[0].elts]
            vn = [unparse(v) for v in n.value.elts]
            m = dict(zip(tn, vn))
            if all(a in m for a in args):
                src_names = [m[a] for a in args]
                for s in sites:
                    r = s.roles()
                    for side in (("u", "qnl"), ("v", "qnr")):
                        if src_names[0] == r[side[0]] and src_names[2] == r[side[1]] and src_names[1] in r["s"]:
                            return True
    return False


META = {
    "category": "other",
    "engine": "QN + OPS",
    "technique": "abstract interpretation of canonicalise, _update_mps, single_sweep and the tangent-space schemes with bookkeeping events (which labels are stored with which factor on which bond, versioned label freshness); shared label-algebra rules of C03; def-use pairing for the remaining decomposition sites (ast)",
    "text": "Clause-only: decides that the quantum-number metadata is transformed and stored consistently with the tensors at every place that "
            "creates or combines bond labels (the mechanism that keeps amplitudes inside the sector). Whether a given Hamiltonian conserves the "
            "charge and whether numerical blocks are exactly zero is not decided."
            ' The sector mask and label-merge helpers (get_qn_mask, add_outer) are decided by abstract runs.'
            ' The product-state constructor is interpreted as a whole on exact data: site vectors inside one sector are accepted with running-sum labels, vectors over local states of different quantum numbers are refused (one- and two-component charges).',
    "note": "Decomposition sites are a frozen table (10 functions); a new svd_qn/eigh_qn call site stops the analysis until classified.",
    "design_ref": "DESIGN.md 3.4, 3.9, 4 (C06); as built: 9.1, 9.3, 9.8",
}
