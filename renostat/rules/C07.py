"""C07 - observables: environment / expectation kernels are the canonical transfer-matrix network, the batched fast path closes with
kernels that agree on leg order, cached partial environments never overlap (length bound of _get_freq_environ)."""
import ast

from ..src import AnalysisError, unparse, norm_stmt
from .. import tna_kernels as K
from .. import tna
from ..tna import TN, T, Interp, Malformed
from .C08 import add_cases, arg_order_rule

MPS, LIB = K.MPS, K.LIB
INF = float("inf")


# ------------------------------------------------------------------------------------------ interval analysis of the cache length
class LenBound:
    """abstract interpretation of a loop that grows a list `lst` under a limit `lim`: tracks an upper bound of d = len(lst) - lim"""

    def __init__(self, lst, lim):
        self.lst, self.lim = lst, lim
        self.exits = []    # (hi, description)

    def cmp(self, test):
        """classify a comparison between lim and len(lst): returns 'gt' when the test is (len > lim), 'le' for (len <= lim), None otherwise"""
        if isinstance(test, ast.Compare) and len(test.ops) == 1:
            l, r = unparse(test.left).replace(" ", ""), unparse(test.comparators[0]).replace(" ", "")
            ln = f"len({self.lst})"
            op = type(test.ops[0])
            if (l, r) == (self.lim, ln):
                return {ast.Lt: "gt", ast.LtE: "ge", ast.Gt: "lt", ast.GtE: "le"}.get(op)
            if (l, r) == (ln, self.lim):
                return {ast.Gt: "gt", ast.GtE: "ge", ast.Lt: "lt", ast.LtE: "le"}.get(op)
        return None

    def branch(self, test, hi):
        """returns (hi if test true or None if infeasible, hi if test false or None)"""
        if isinstance(test, ast.UnaryOp) and isinstance(test.op, ast.Not):
            t, f = self.branch(test.operand, hi)
            return f, t
        if isinstance(test, ast.BoolOp):
            vals = test.values
            if isinstance(test.op, ast.Or):
                t_out, cur = None, hi
                for v in vals:
                    if cur is None:
                        break
                    t, f = self.branch(v, cur)
                    if t is not None:
                        t_out = t if t_out is None else max(t_out, t)
                    cur = f
                return t_out, cur
            else:
                f_out, cur = None, hi
                for v in vals:
                    if cur is None:
                        break
                    t, f = self.branch(v, cur)
                    if f is not None:
                        f_out = f if f_out is None else max(f_out, f)
                    cur = t
                return cur, f_out
        k = self.cmp(test)
        if k is None:
            if any(isinstance(x, ast.Name) and x.id in (self.lst,) for x in ast.walk(test)) or True:
                return hi, hi     # unknown condition: both feasible
        # d = len - lim ; hi is an upper bound of d
        if k == "gt":     # d > 0
            return (hi if hi >= 1 else None), min(hi, 0)
        if k == "ge":     # d >= 0
            return (hi if hi >= 0 else None), min(hi, -1)
        if k == "lt":     # d < 0
            return min(hi, -1), (hi if hi >= 0 else None)
        if k == "le":     # d <= 0
            return min(hi, 0), (hi if hi >= 1 else None)

    def block(self, stmts, hi):
        """returns hi after the block or None if control left the loop body (break / continue recorded)"""
        for s in stmts:
            if hi is None:
                return None
            if isinstance(s, ast.If):
                t, f = self.branch(s.test, hi)
                a = self.block(s.body, t) if t is not None else None
                b = self.block(s.orelse, f) if f is not None else None
                if a is None and b is None:
                    return None
                hi = max(x for x in (a, b) if x is not None)
            elif isinstance(s, ast.Break):
                self.exits.append((hi, f"break at line {s.lineno}"))
                return None
            elif isinstance(s, ast.Continue):
                self.cont = max(self.cont, hi) if self.cont is not None else hi
                return None
            elif isinstance(s, ast.Expr) and isinstance(s.value, ast.Call) and isinstance(s.value.func, ast.Attribute) and unparse(s.value.func.value) == self.lst:
                m = s.value.func.attr
                if m == "append":
                    hi += 1
                elif m == "pop":
                    hi -= 1
                elif m in ("extend", "insert", "clear"):
                    raise AnalysisError(f"list operation {m} outside the length-bound fragment")
            elif isinstance(s, (ast.Return,)):
                self.exits.append((hi, f"return at line {s.lineno}"))
                return None
            elif isinstance(s, (ast.For, ast.While)):
                raise AnalysisError("nested loop in the length-bound fragment")
        return hi

    def loop(self, loop_node, hi0):
        hi = hi0
        for it in range(12):
            self.cont = None
            out = self.block(loop_node.body, hi)
            nxt = max(x for x in (out, self.cont, hi) if x is not None)
            if nxt == hi:
                break
            hi = nxt if it < 8 else INF
        # exhaustion of the iterable
        self.exits.append((hi, "loop exhausted"))
        return hi


def freq_bound_rule(chk, src):
    """cached partial environments of the batched expectation path: decided by an abstract run of Mps.expectations with _construct_freq_environ and
    _get_freq_environ run from source (chain_rules.batched_expectation_rule)"""
    from .chain_rules import batched_expectation_rule
    batched_expectation_rule(chk, src, "freq-env-bound")


def transfer_cases(src):
    fi = src.func(MPS, "transferMat")
    ps = fi.params()     # mps, mpsconj, domain, imps, val
    out = []
    for dom in ("L", "R"):
        for rank in (3, 4):
            tn = TN()
            K_ = tn.leaf("K", rank)
            B = tn.leaf("B", rank)
            V = tn.leaf("V", 2)    # (conj side, ket side)
            env = {"ms": K_, "ms_conj": B, ps[2]: dom, ps[4]: V, f"{ps[0]}[0].ndim": rank, ps[1]: None}
            it = TMInterp(tn, env)
            key = f"transferMat[{dom},rank{rank}]"
            try:
                it.run(fi.node.body)
                res = it.env.get(ps[4])
                near, far = (0, rank - 1) if dom == "L" else (rank - 1, 0)
                w = TN()
                K2, B2, V2 = w.leaf("K", rank), w.leaf("B", rank), w.leaf("V", 2)
                w.union(("V", 0), ("B", near)); w.close(("V", 0))
                w.union(("V", 1), ("K", near)); w.close(("V", 1))
                for ax in range(1, rank - 1):
                    w.union(("B", ax), ("K", ax)); w.close(("B", ax))
                want = w.signature(T(w, [("B", far), ("K", far)]))
                out.append(K.Case(key, fi.where, it.calls[-1][2] if it.calls else fi.node.lineno, tn.signature(res), want, calls=it.calls))
            except Malformed as m:
                out.append(K.Case(key, fi.where, fi.node.lineno, error=str(m)))
    return out


class TMInterp(Interp):
    def stmt(self, s):
        # the prologue binds ms / ms_conj from mps[imps]; they are given by the configuration
        if isinstance(s, ast.If) and "mpsconj" in unparse(s.test):
            return
        if isinstance(s, ast.Return):
            self.done = True
            return
        return super().stmt(s)


def kernel_arg_rule(chk, src):
    """call sites of the site kernels: the state-site argument and the conjugate-site argument come from the ket and bra objects"""
    kern = {"contract_one_site": src.func(LIB, "contract_one_site"), "contract_one_site_multi_mpo": src.func(LIB, "contract_one_site_multi_mpo")}
    n = 0
    for rel in (LIB, MPS):
        for fi in src.funcs_in(rel):
            if fi.parent is not None:
                continue
            for c in ast.walk(fi.node):
                if isinstance(c, ast.Call) and unparse(c.func) in kern:
                    cal = kern[unparse(c.func)]
                    ps = cal.params()
                    bound = {}
                    for i, a in enumerate(c.args):
                        if i < len(ps):
                            bound[ps[i]] = a
                    for k in c.keywords:
                        if k.arg:
                            bound[k.arg] = k.value
                    ms, msc, dom = bound.get(ps[1]), bound.get(ps[4]), bound.get(ps[3])
                    okc = msc is None or "conj" in unparse(msc)
                    okm = ms is not None and "conj" not in unparse(ms)
                    n += 1
                    chk.ob("kernel-args", f"{fi.qual}: {norm_stmt(c, 80)}", okc and okm and dom is not None, fi.where,
                           {"ms": unparse(ms) if ms is not None else None, "ms_conj": unparse(msc) if msc is not None else None}, "ms <- ket site, ms_conj <- bra (conjugate) site",
                           line=c.lineno, detail="the ket and the bra site tensors are passed in each other's place: <bra|O|ket> becomes <ket*|O|bra*>")
    return n



# ------------------------------------------------------------------------------------------ reduced density matrices (tensordot chains)
from ..axes import Tracker


class CTracker(Tracker):
    """axis tracker that keeps complex conjugation: the legs of X.conj() are the legs of X with a starred operand"""

    def ev(self, e):
        if isinstance(e, ast.Call) and isinstance(e.func, ast.Attribute) and e.func.attr == "conj" and not e.args:
            return [self.star(l) for l in self.ev(e.func.value)]
        if isinstance(e, ast.Subscript) and isinstance(e.value, ast.Name) and e.value.id == "self":
            return list(self.env["<site>"])
        if isinstance(e, ast.Subscript) and unparse(e) in self.env:
            return list(self.env[unparse(e)])
        if isinstance(e, ast.Call) and isinstance(e.func, ast.Attribute) and e.func.attr == "reshape" and len(e.args) == 2:
            a = [unparse(x).replace(" ", "") for x in e.args]
            base = unparse(e.func.value)
            if a == [f"{base}.shape[0]", f"{base}.shape[-1]"]:
                legs = self.ev(e.func.value)
                if len(legs) == 3 and legs[1][1] == "op":
                    return [legs[0], legs[2]]       # the identity operator's bond has dimension one
        return super().ev(e)

    @staticmethod
    def star(l):
        op, ax = l[0], l[1]
        return (op[:-1] if op.endswith("*") else op + "*", ax)


def _run_block(tr, stmts, ndim, sink):
    """straight-line walk: assignments of tensors, `if X.ndim == k` selection, `<list>.append(expr)` captured in sink"""
    for s in stmts:
        if isinstance(s, ast.Assign) and len(s.targets) == 1 and isinstance(s.targets[0], ast.Name):
            v = s.value
            if isinstance(v, ast.Call) and unparse(v.func).endswith(".GetLR"):
                side = ast.literal_eval(v.args[0])
                tr.env[s.targets[0].id] = [(side, "bra"), (side, "op"), (side, "ket")]
                continue
            if isinstance(v, ast.BinOp) or isinstance(v, ast.Constant):
                continue
            tr.env[s.targets[0].id] = tr.ev(v)
        elif isinstance(s, ast.Assign) and isinstance(s.targets[0], ast.Subscript) and unparse(s.targets[0].value) == "rdm":
            v = s.value
            while isinstance(v, ast.Call) and (unparse(v.func) in ("asnumpy", "asxp")):
                v = v.args[0]
            transposed = False
            if isinstance(v, ast.Attribute) and v.attr == "T":
                transposed, v = True, v.value
            merged = False
            if isinstance(v, ast.Call) and isinstance(v.func, ast.Attribute) and v.func.attr == "reshape":
                sink.setdefault("rdm-reshape", []).append(unparse(v)[:80])
                merged, v = True, v.func.value
            legs = tr.ev(v)
            if transposed:
                # matrix transpose: of the merged (rows, columns) halves when the tensor was reshaped to a matrix, of the two axes otherwise
                if merged and len(legs) % 2 == 0:
                    legs = legs[len(legs) // 2:] + legs[:len(legs) // 2]
                elif not merged:
                    legs = legs[::-1]
                else:
                    raise AnalysisError(f"rdm analysis: transpose of `{unparse(v)[:60]}` not understood")
            sink.setdefault("rdm", []).append(legs)
        elif isinstance(s, ast.If):
            t = unparse(s.test).replace(" ", "")
            if ".ndim==" in t:
                k = int(t.split("==")[1])
                branch = s.body if k == ndim else s.orelse
                _run_block(tr, branch, ndim, sink)
            elif "notin" in t and isinstance(s.body[0], ast.Continue):
                continue
            else:
                raise AnalysisError(f"rdm analysis: condition `{unparse(s.test)}` not understood")
        elif isinstance(s, ast.Expr) and isinstance(s.value, ast.Call) and isinstance(s.value.func, ast.Attribute) and s.value.func.attr == "append":
            sink.setdefault(unparse(s.value.func.value), []).append(tr.ev(s.value.args[0]))
        elif isinstance(s, (ast.Assert, ast.Expr, ast.Pass)):
            continue
        else:
            raise AnalysisError(f"rdm analysis: statement `{unparse(s)[:60]}` not understood")


def _edge_problems(edges, ndim):
    """bond edges join bra with bra / ket with ket (left bond axis 0 <-> right bond axis last); trace edges join the same physical axis of a site and its conjugate"""
    out = []
    last = ndim - 1
    for a, b in edges:
        sa, sb = (a[0].endswith("*") or a[1] == "bra"), (b[0].endswith("*") or b[1] == "bra")
        ba, bb = a[0].rstrip("*"), b[0].rstrip("*")
        env_a, env_b = a[1] in ("bra", "ket"), b[1] in ("bra", "ket")
        if ba == bb and not env_a:
            if a[1] != b[1] or sa == sb or a[1] in (0, last):
                out.append(f"{a} - {b}: a site may only be joined to its own conjugate over one physical axis (partial trace)")
            continue
        if sa != sb:
            out.append(f"{a} - {b}: a bra (conjugated) bond is joined to a ket bond")
            continue
        axes_ = []
        for leg, is_env in ((a, env_a), (b, env_b)):
            if is_env:
                axes_.append("R" if leg[0].rstrip("*") == "R" else "L")
            else:
                axes_.append({0: "left", last: "right"}.get(leg[1], "phys"))
        if sorted(axes_) not in (["L", "left"], ["R", "right"], ["left", "right"]):
            out.append(f"{a} - {b}: not a (right bond, left bond) pair")
    return out


def rdm_rule(chk, src):
    chk.rule("rdm-network", "one- and two-site RDM chains (abstract run on abstract tensors): closed <Psi|..|Psi> networks with the requested physical indices open, bra bonds on conjugated "
             "tensors, every other physical / ancilla index traced with its own conjugate, indexed (ket indices, bra indices) as documented: rho[a, b] = <a|rho|b>", 4)
    from .chain_rules import rdm_rule as _rdm
    _rdm(chk, src, "rdm-network")


# ------------------------------------------------------------------------------------------ cached observable operators, electronic RDM, entropy formula
def observable_rule(chk, src):
    from ..syminterp import SymInterp, Sym, Blob
    from collections import deque
    # 1. one cache key per operator list
    keys = {}
    for fi in src.funcs_in(MPS):
        if fi.parent is not None or ".mpos" not in unparse(fi.node):
            continue
        lits = sorted({n.value for st in ast.walk(fi.node) if isinstance(st, ast.Assign) and isinstance(st.targets[0], ast.Name) and isinstance(st.value, ast.Constant)
                       and isinstance(st.value.value, str) for n in [st.value] if any(isinstance(x, ast.Subscript) and unparse(x.value).endswith(".mpos") and unparse(x.slice) == st.targets[0].id
                                                                                    for x in ast.walk(fi.node))})
        for k in lits:
            keys.setdefault(k, []).append(fi.qual)
    dup = {k: v for k, v in keys.items() if len(v) > 1}
    chk.ob("observable-cache", "every cached operator list has its own key in Model.mpos", bool(keys) and not dup, MPS, dup or sorted(keys), "distinct keys", detail="two observables sharing a cache key: "
           "whichever is evaluated second silently receives the other's operators")
    # 2. electronic reduced density matrix: operators generated and consumed in the same (upper-triangle, row-major) order; lower triangle = conjugate
    fi = src.func(MPS, "Mps.calc_edof_rdm")
    for n_e in (1, 2, 4):
        cells = {}

        class Mat(Sym):
            def __setitem__(self, k, v):
                cells[k] = v

            def __getitem__(self, k):
                return cells[k]
        e_dofs = [f"e{i}" for i in range(n_e)]
        model = Sym("model", n_edofs=n_e, e_dofs=e_dofs, mpos={})
        me = Sym("mps", _cls="Mps", model=model, expectations=lambda mpos: [("<", m, ">") for m in mpos])
        from .chain_rules import class_resolver
        it = SymInterp(src, class_resolver(src, {"Mps": MPS}), {"Op": lambda sym, dofs, *a, **k: ("Op", sym, tuple(dofs)), "Mpo": lambda model_, terms=None, **k: ("Mpo", terms), "deque": deque,
                                   "np": Sym("np", zeros=lambda shape, dtype=None: Mat("rdm"), conj=lambda x: ("conj", x)), "backend": Blob("backend")})
        out = it.call_function(fi, [me])
        want = {}
        for i in range(n_e):
            for j in range(i, n_e):
                v = ("<", ("Mpo", ("Op", "a^\\dagger a", (f"e{i}", f"e{j}"))), ">")
                want[(i, j)] = v
                want[(j, i)] = v if i == j else ("conj", v)
        if n_e and want.get((0, 0)) and cells.get((0, 0)) == ("conj", want[(0, 0)]):
            cells = {k: (v[1] if k[0] == k[1] and isinstance(v, tuple) and v[0] == "conj" else v) for k, v in cells.items()}    # conj of a (real) diagonal element is the element
        chk.ob("observable-cache", f"calc_edof_rdm[{n_e} electronic dofs]: rho[i, j] = <a_i^dagger a_j>, rho[j, i] its conjugate", isinstance(out, Mat) and cells == want, fi.where,
               {str(k): repr(v)[:60] for k, v in cells.items() if want.get(k) != v} or "all entries", "upper triangle in generation order, lower triangle conjugated", line=fi.node.lineno,
               detail="the operators are generated for the pairs (i <= j) in row-major order and their expectation values are consumed from a queue in the same order")
    # 3. von Neumann entropy
    fe = src.func("renormalizer/utils/utils.py", "calc_vn_entropy")

    class P(Sym):
        def sum(self):
            return P(f"sum({self._name})")

        def __truediv__(self, o):
            return P(f"({self._name})/({o!r})")

        def __lt__(self, o):
            return P(f"[{self._name}<{o!r}]")

        def __gt__(self, o):
            return P(f"[{self._name}>{o!r}]")

        def __getitem__(self, m):
            return P(f"{self._name}{m!r}")

        def __mul__(self, o):
            return P(f"({self._name})*({o!r})")

        def __neg__(self):
            return P(f"-({self._name})")
    from ..syminterp import OpenSym
    it = SymInterp(src, None, {"np": OpenSym("np", make=P, array=lambda x: x, allclose=lambda *a: True)})
    out = it.call_function(fe, [P("p")])
    norm = "(p)/(sum(p))"
    kept = f"{norm}[{norm}>0]"
    chk.ob("observable-cache", "calc_vn_entropy = - sum p ln p over the positive, normalised eigenvalues", repr(out) == f"-(sum(({kept})*(log({kept}))))", fe.where, repr(out), "-(sum(q * log(q))) with q = p/sum(p) restricted to q > 0",
           line=fe.node.lineno, detail="entropy of a spectrum: normalise, drop zeros (0 ln 0 = 0), natural logarithm, minus sign")
    # 4. entropy of a reduced density matrix: the spectrum handed to calc_vn_entropy is that of the (complex Hermitian) matrix itself
    fdm = src.func("renormalizer/utils/utils.py", "calc_vn_entropy_dm")
    import sympy as _sp
    handed, spectra = [], []

    class Rho(Sym):
        """c1 * rho + c2 * conj(rho) of a Hermitian rho (transposition and conjugation both exchange the two), as a square matrix or with split indices"""
        def __init__(self, c1=1, c2=0, shape=(2, 3, 2, 3)):
            super().__init__(f"({c1})*rho + ({c2})*conj(rho)")
            self.c1, self.c2, self.shape, self.ndim = _sp.sympify(c1), _sp.sympify(c2), tuple(shape), len(shape)

        def reshape(self, *sh):
            sh = tuple(sh[0]) if len(sh) == 1 and isinstance(sh[0], (tuple, list)) else tuple(sh)
            return Rho(self.c1, self.c2, sh)

        def _k(self, o):
            if isinstance(o, (int, float)):
                return _sp.nsimplify(o)
            raise AnalysisError(f"density matrix combined with {o!r}")

        def __mul__(self, o):
            return Rho(self.c1 * self._k(o), self.c2 * self._k(o), self.shape)

        __rmul__ = __mul__

        def __truediv__(self, o):
            return Rho(self.c1 / self._k(o), self.c2 / self._k(o), self.shape)

        def __add__(self, o):
            if not isinstance(o, Rho):
                raise AnalysisError(f"density matrix + {o!r}")
            return Rho(self.c1 + o.c1, self.c2 + o.c2, self.shape)

        @property
        def T(self):
            return Rho(self.c2, self.c1, self.shape[::-1])

        def transpose(self, *a):
            return self.T

        def conj(self):
            return Rho(_sp.conjugate(self.c2), _sp.conjugate(self.c1), self.shape)

        conjugate = conj

    def eig(a, **k):
        handed.append(a)
        return Sym("spectrum of the matrix handed in"), Sym("eigenvectors")

    def eigvals(a, **k):
        handed.append(a)
        return Sym("spectrum of the matrix handed in")
    prod = lambda xs: 6 if tuple(xs) == (2, 3) else _sp.prod(xs)       # noqa: E731
    it4 = SymInterp(src, None, {"np": OpenSym("np", make=lambda t: Sym(t), prod=prod), "scipy": Sym("scipy", linalg=Sym("linalg", eigh=eig, eigvalsh=eigvals, eig=eig, eigvals=eigvals)),
                                "calc_vn_entropy": lambda w: spectra.append(w) or Sym("entropy")})
    out4 = it4.call_function(fdm, [Rho()])
    ok4 = len(handed) == 1 and isinstance(handed[0], Rho) and _sp.simplify(handed[0].c1 - 1) == 0 and _sp.simplify(handed[0].c2) == 0 and handed[0].shape == (6, 6) \
        and len(spectra) == 1 and repr(spectra[0]) == "spectrum of the matrix handed in" and repr(out4) == "entropy"
    chk.ob("observable-cache", "calc_vn_entropy_dm: entropy of the spectrum of the reduced density matrix itself", ok4, fdm.where, {"diagonalised": [repr(h) + f" as {getattr(h, 'shape', None)}" for h in handed]},
           "(1)*rho + (0)*conj(rho) as a (dim, dim) matrix", line=fdm.node.lineno,
           detail="a reduced density matrix of a complex state is complex Hermitian: rho^T is its complex conjugate, so (rho + rho^T)/2 is only its real part and has another spectrum")



def entropy_gauge_rule(chk, src):
    """bond singular values are listed from the first to the last bond: compress(ret_s=True) appends them in sweep order, so the working copy must be made
    right-canonical (sweep left -> right) unconditionally before it is compressed; the original state is not touched"""
    from ..syminterp import SymInterp, Sym, OpenSym, Blob
    fi = src.func(MPS, "Mps.calc_bond_singular_values")
    for lc, tr_ in ((True, False), (False, True), (False, False), (True, True)):
        log = []
        work = Sym("copy", to_right=tr_, is_left_canonical=lc, is_right_canonical=not lc)
        work.__dict__["ensure_right_canonical"] = lambda *a, **k: log.append("right") or work
        work.__dict__["ensure_left_canonical"] = lambda *a, **k: log.append("left") or work
        work.__dict__["canonicalise"] = lambda *a, **k: log.append("canonicalise") or work
        work.__dict__["check_left_canonical"] = lambda *a, **k: True
        work.__dict__["check_right_canonical"] = lambda *a, **k: True
        work.__dict__["compress"] = lambda *a, **k: log.append("compress") or (work, "s_array")
        me = Sym("self", copy=lambda: work)
        out = SymInterp(src, None, {"np": OpenSym("np", inf="inf")}).call_function(fi, [me])
        ok = log == ["right", "compress"] and out == "s_array"
        chk.ob("entropy-gauge", f"calc_bond_singular_values [copy left-canonical={lc}, to_right={tr_}]", ok, fi.where, log, ["right", "compress"], line=fi.node.lineno,
               detail="the singular values come back in the order the compression sweep visits the bonds: only a sweep from the first site (right-canonical state) lists them first-to-last bond; "
                      "skipping the gauge change for an already left-canonical copy returns the bond entropies in reversed order")


# ---------------------------------------------------------------------------------------------- discarding the imaginary part of a matrix element
def _dnf(t):
    """disjunctive normal form of a test as a list of conjunctions (lists of (atom, positive))"""
    if isinstance(t, ast.BoolOp) and isinstance(t.op, ast.Or):
        return [c for v in t.values for c in _dnf(v)]
    if isinstance(t, ast.BoolOp) and isinstance(t.op, ast.And):
        out = [[]]
        for v in t.values:
            out = [a + b for a in out for b in _dnf(v)]
        return out
    if isinstance(t, ast.UnaryOp) and isinstance(t.op, ast.Not):
        inner = t.operand
        if isinstance(inner, ast.BoolOp):   # De Morgan
            neg = ast.BoolOp(op=ast.And() if isinstance(inner.op, ast.Or) else ast.Or(), values=[ast.UnaryOp(op=ast.Not(), operand=v) for v in inner.values])
            return _dnf(neg)
        if isinstance(inner, ast.UnaryOp) and isinstance(inner.op, ast.Not):
            return _dnf(inner.operand)
        return [[(inner, False)]]
    return [[(t, True)]]


def real_cast_rule(chk, src):
    """<bra|O|ket> with a bra different from the ket is complex in general.  In every function that takes a separate bra, a returned `.real` of the computed
    value must be guarded, on every way of reaching it, either by a test that the value's own imaginary part vanishes, or by the realness of *all* of
    ket, bra and operator(s)."""
    chk.rule("real-cast-guard", "a matrix element <bra|O|ket> is returned as its real part only after its imaginary part was tested, or when ket, bra and operators are all real", 4)
    TREE = "renormalizer/tn/tree.py"
    targets = []
    for rel in (MPS, "renormalizer/mps/mpdm.py", TREE):
        for fi in src.funcs_in(rel):
            ps = fi.params()
            bra = [p for p in ps if p in ("self_conj", "bra", "mps_conj", "bra_mps")]
            if bra and fi.cls is not None and "." not in fi.qual.split(".", 1)[-1]:
                targets.append((fi, bra[0]))
    for fi, bra in targets:
        from ..src import defs_of
        # single-assignment boolean temporaries are followed to their definition
        def expand(t, depth=0):
            if isinstance(t, ast.Name) and depth < 3:
                d = defs_of(fi.node, t.id)
                if len(d) == 1 and isinstance(d[0], ast.expr):
                    return expand_expr(d[0], depth + 1)
            return t

        def expand_expr(t, depth=0):
            if isinstance(t, ast.BoolOp):
                return ast.BoolOp(op=t.op, values=[expand_expr(v, depth) for v in t.values])
            if isinstance(t, ast.UnaryOp) and isinstance(t.op, ast.Not):
                return ast.UnaryOp(op=ast.Not(), operand=expand_expr(t.operand, depth))
            return expand(t, depth)

        # operator parameter(s)
        ops = [p for p in fi.params() if p in ("mpo", "mpos", "ttno", "ttnos", "operator")]
        n = 0
        parents = {}
        for x in ast.walk(fi.node):
            for ch in ast.iter_child_nodes(x):
                parents[ch] = x
        # a return that hands the value to a one-argument helper of the same module is judged inside the helper (its own guards, its parameter as the subject)
        rets = [(r, fi.node, None) for r in ast.walk(fi.node) if isinstance(r, ast.Return) and r.value is not None]
        for r, _, _ in list(rets):
            v = r.value
            if isinstance(v, ast.Call) and isinstance(v.func, ast.Name) and len(v.args) == 1 and not v.keywords:
                hf = src.find_func(fi.rel, v.func.id)
                if hf is not None and len(hf.params()) == 1:
                    for x in ast.walk(hf.node):
                        for ch in ast.iter_child_nodes(x):
                            parents[ch] = x
                    rets += [(hr, hf.node, hf) for hr in ast.walk(hf.node) if isinstance(hr, ast.Return) and hr.value is not None]
        for r, owner, helper in rets:
            reals = [a for a in ast.walk(r.value) if (isinstance(a, ast.Attribute) and a.attr == "real") or (isinstance(a, ast.Call) and unparse(a.func) in ("np.real", "xp.real"))]
            if not reals:
                continue
            subj = unparse(reals[0].value if isinstance(reals[0], ast.Attribute) else reals[0].args[0])
            # conditions on the way to the return: (test, polarity)
            conds, node = [], r
            while node in parents:
                par = parents[node]
                if isinstance(par, ast.If):
                    conds.append((par.test, node in par.body))
                node = par
            n += 1
            problems = []
            guarded = False
            for test, pol in conds:
                t = expand_expr(test if pol else ast.UnaryOp(op=ast.Not(), operand=test))
                ok_all = True
                for conj in _dnf(t):
                    txt = [(unparse(a).replace(" ", ""), pos) for a, pos in conj]
                    imag = any(pos and (".imag" in a) and subj.replace(" ", "") + ".imag" in a and ("isclose" in a or "allclose" in a or a.endswith("==0")) for a, pos in txt)
                    real_of = set()
                    for a, pos in txt:
                        if not pos and a.endswith(".is_complex") and "for" not in a:
                            real_of.add(a[:-len(".is_complex")])
                        if not pos and a.startswith("any(") and ".is_complex" in a:
                            real_of.update(o for o in ops if f"in{o})" in a or f"in{o}]" in a)
                        if pos and a.startswith("all(") and "not" in a and ".is_complex" in a:
                            real_of.update(o for o in ops if f"in{o})" in a)
                    need = {"self", bra} | set(ops)
                    if not imag and not need <= real_of:
                        ok_all = False
                        problems.append(f"reached when `{' and '.join(('' if pos else 'not ') + unparse(a) for a, pos in conj)}` holds: neither `{subj}.imag` is tested nor are all of "
                                        f"{sorted(need)} known to be real (missing: {sorted(need - real_of)})")
                if ok_all:
                    guarded = True
                    break
            if not conds:
                problems.append("returned unconditionally")
            chk.ob("real-cast-guard", f"{fi.qual}: return {unparse(r.value)[:40]}", guarded, fi.where, problems[:2] or "guarded", "guarded by a test of the imaginary part (or realness of ket, bra and operators)",
                   line=r.lineno, detail=f"{fi.qual} returns the real part of <{bra}|O|self>: " + (problems[0] if problems else "") + " - with a complex bra and real ket / operators the "
                                         "imaginary part of a transition amplitude is silently dropped")
        if n == 0:
            chk.note(f"{fi.qual}: no real-part return") if hasattr(chk, "note") else None


def run(chk):
    src = chk.src
    chk.explanation = (
        "Decides the contraction-structure clauses of C07: (1) the environment update kernels (single operator: 4 paths; several "
        "operators: 8 configurations), the closing contractions of Mps/MpDm.expectation and the transfer-matrix kernel are the canonical "
        "<bra|O|ket> network with environments ordered (bra, operator, ket) - in particular L and R kernels emit the same leg order, which the "
        "batched path's `l.flatten() @ r.flatten()` closing relies on; (2) every call site passes ket and bra sites to the right kernel "
        "parameters; (3) an interval analysis of _get_freq_environ proves that a cached environment never exceeds the requested length "
        "(otherwise cached left and right environments overlap and a site is contracted twice), and the caller limits the right lookup by "
        "what the left one left over. (4) the one- and two-site RDM tensordot chains keep bra and ket lines apart (conjugation-typed axis tracking). Not decided: numeric values, entropy formulas, hash-collision handling.")
    chk.assumptions = ["operator site tensors are (left, row, column, right); state sites (left, phys[, ancilla], right)",
                       "max_length >= 0 at every call (np.inf or len(mpo) - l_idx - 1 with l_idx <= len(mpo) - 1)"]
    chk.rule("env-network", "environment / expectation / transfer kernel == canonical transfer-matrix network (per configuration)", 18)
    chk.rule("kernel-args", "site kernels receive (ket site -> ms, bra site -> ms_conj)", 6)
    chk.rule("freq-env-bound", "batched expectation path (abstract run): the cached left / right environments and the sites contracted on the fly cover every site of every operator exactly once", 5)
    cases = K.site_cases(src)
    ec, prov = K.expectation_cases(src)
    chk.table("expectation_operand_provenance", prov)
    cases += ec
    from .chain_rules import transfer_rule
    transfer_rule(chk, src, "env-network")
    add_cases(chk, "env-network", cases, "observable kernel")
    chk.extra["specs_interpreted"] = sorted({c_[1] for c in cases for c_ in c.calls if isinstance(c_[1], str)})[:80]
    kernel_arg_rule(chk, src)
    freq_bound_rule(chk, src)
    rdm_rule(chk, src)
    real_cast_rule(chk, src)
    chk.rule("entropy-gauge", "bond singular values are computed from a right-canonical working copy in every gauge of the input (abstract run)", 4)
    entropy_gauge_rule(chk, src)
    chk.rule("observable-cache", "per-model operator cache keys, electronic RDM assembly order, entropy formula (abstract runs)", 5)
    observable_rule(chk, src)


META = {
    "category": "other",
    "engine": "TNA + interval analysis",
    "technique": "abstract interpretation of the reduced-density-matrix, batched-expectation and transfer-matrix code on abstract tensors (closed network compared, orientation included); symbolic interpretation of contraction paths to network signatures; guard formulas (DNF) on the way to real casts",
    "text": "Decides that every kernel from which expectation values are assembled contracts the canonical <bra|O|ket> network in every "
            "configuration (rank-3/4 sites, L/R, one or several operators), that the batched path's two halves agree on leg order, and that "
            "cached partial environments cannot overlap. Numeric equality with the dense definitions, RDM and entropy formulas are not decided."
            ' One- and two-site RDM chains are decided by conjugation-typed axis tracking; the per-model operator cache keys, the electronic RDM assembly order and the entropy formula by abstract runs.',
    "note": "Kernel roles by parameter position; the length analysis understands append/pop and comparisons between len(list) and the limit, "
            "treats every other condition as unknown (both branches).",
    "design_ref": "DESIGN.md 3.2, 4 (C07); as built: 9.1, 9.3, 9.8",
}
