"""C08 - DMRG: the direct, iterative, diagonal and two-layer effective-Hamiltonian kernels are one and the same network."""
import ast

from ..src import AnalysisError, unparse, norm_stmt
from .. import tna_kernels as K

GS = "renormalizer/mps/gs.py"


def add_cases(chk, rule, cases, what):
    for c in cases:
        chk.ob(rule, c.key, c.ok, c.where, c.detail() if not c.ok else "canonical network", "canonical transfer-matrix network", line=c.line,
               detail=(f"{what}: {c.key} does not encode the canonical network "
                       f"(legs are role.axis; L/R environments are (bra, operator[, operator], ket), operator tensors are (left, row, column, right), "
                       f"X is the trial tensor): {c.detail()}") if not c.ok else "")


def arg_order_rule(chk, src, rule, rels, callees):
    """a call whose arguments are plain names that are exactly the callee's parameter names must pass them in the parameter order"""
    n = 0
    for rel in rels:
        for fi in src.funcs_in(rel):
            if fi.parent is not None:
                continue
            for c in ast.walk(fi.node):
                if not isinstance(c, ast.Call):
                    continue
                cn = unparse(c.func).split(".")[-1]
                if cn not in callees:
                    continue
                cal = callees[cn]
                ps = cal.params()
                if cal.cls is not None and ps and ps[0] in ("self", "cls"):
                    ps = ps[1:]
                args = [a.id if isinstance(a, ast.Name) else None for a in c.args]
                # positions are known up to the first `*sequence` argument only (its length is a run-time quantity)
                star = next((i for i, a in enumerate(c.args) if isinstance(a, ast.Starred)), len(c.args))
                named = [(i, a) for i, a in enumerate(args) if i < star and a is not None and a in ps]
                if len(named) < 2:
                    continue
                n += 1
                bad = [(a, i, ps.index(a)) for i, a in named if ps.index(a) != i]
                chk.ob(rule, f"{fi.qual} -> {cn}({', '.join(x or '_' for x in args)})", not bad, fi.where,
                       [f"{a}: passed at position {i}, parameter {j}" for a, i, j in bad] or "arguments in parameter order", "parameter order", line=c.lineno,
                       detail=f"{fi.qual} passes {[a for a, _, _ in bad]} to {cn} in positions of other parameters (e.g. left/right environment exchanged)")
    return n



def _opaque_op(name="operator"):
    """operator whose content the rule does not look at: scale / add / copy give opaque operators again"""
    from ..syminterp import Sym
    o = Sym(name, model=None, mpos=[])
    o.__dict__.update(scale=lambda *a, **k: _opaque_op(f"{name}.scale"), add=lambda x: _opaque_op(f"{name}+"), copy=lambda: _opaque_op(name))
    return o


def _mpo_ns(**attrs):
    """stand-in for the Mpo class in abstract runs that do not look at the operator: class methods given as attributes, a constructor call gives an opaque operator"""
    from ..syminterp import Sym

    class _MpoNS(Sym):
        def __call__(self, *a, **k):
            return _opaque_op("Mpo(...)")
    return _MpoNS("Mpo", **attrs)


def entry_gauge_rule(chk, src):
    """abstract run of optimize_mps up to the construction of the environments, for every combination of the gauge flags of the input:
    the state has been orthonormalised by an ensure_*_canonical() / canonicalise() call and the environment side matches the resulting gauge"""
    from ..syminterp import SymInterp, Sym, Blob
    fi = src.func(GS, "optimize_mps")

    class Stop(Exception):
        pass
    n = 0
    for left in (True, False):
        for right in (True, False):
            for omega in (None, Blob("omega")):
                gauge = []
                built = []

                def environ(mps_, mpo_, side, *a, **k):
                    built.append(side)
                    raise Stop()
                mps = Sym("mps", is_left_canonical=left, is_right_canonical=right, is_mix_canonical=False, to_right=None, qnidx=Blob("qnidx"), site_num=Blob("n"), model=Blob("state-model"),
                          optimize_config=Sym("cfg", method="2site", e_rtol=0, e_atol=0, procedure=[], nroots=1), compress_config=Blob("cc"))
                mps.__dict__["ensure_right_canonical"] = lambda *a, **k: gauge.append("right") or mps
                mps.__dict__["ensure_left_canonical"] = lambda *a, **k: gauge.append("left") or mps
                mps.__dict__["canonicalise"] = lambda *a, **k: gauge.append("canonicalise") or mps
                mpo = Sym("mpo", model=Blob("model"), add=lambda o: Sym("mpo2"), mpos=[])
                ident = _opaque_op("identity")
                it = SymInterp(src, None, {"Environ": environ, "logger": Blob("logger"), "StackedMpo": "StackedMpo", "Mpo": _mpo_ns(identity=lambda m: ident), "Quantity": lambda v, *a: v})
                try:
                    it.call_function(fi, [mps, mpo, omega])
                except Stop:
                    pass
                n += 1
                want = {"right": "R", "left": "L"}.get(gauge[-1]) if gauge else None
                ok = bool(gauge) and built[:1] == [want]
                chk.ob("entry-gauge", f"optimize_mps[input left-canonical={left}, right-canonical={right}, omega={'set' if omega else 'None'}]", ok, fi.where,
                       {"orthonormalised by": gauge or "nothing", "environment side": built}, "ensure_right_canonical -> 'R' environments / ensure_left_canonical -> 'L'", line=fi.node.lineno,
                       detail="the sweep treats the overlap environments as identities: this is only true after the state has actually been orthonormalised (the is_*_canonical flags only look at the "
                              "position of the quantum-number centre); a warm start from a non-canonical state then reports energies below the exact ground energy")
    return n



def shift_operator_rule(chk, src):
    """abstract run of optimize_mps with a target energy: the operator whose environments are built (and which the sweeps then use) is the operator the
    caller handed in minus omega times the identity of the same model - twice (for (H - omega)^2) - and not something re-derived from the model
    (the given operator may carry an offset, a subset of terms, a scaling)."""
    import sympy as sp
    from ..syminterp import SymInterp, Sym, Blob
    fi = src.func(GS, "optimize_mps")
    om = sp.Symbol("omega", real=True)

    class Stop(Exception):
        pass

    class OpS(Sym):
        """symbolic operator: linear combination of named operators"""
        def __init__(self, terms, model):
            super().__init__("+".join(f"{c}*{k}" for k, c in sorted(terms.items(), key=str)) or "0")
            self.terms, self.model, self.mpos = dict(terms), model, []

        def add(self, o):
            t = dict(self.terms)
            for k, c in o.terms.items():
                t[k] = sp.simplify(t.get(k, 0) + c)
            return OpS(t, self.model)

        __add__ = add

        def scale(self, c, inplace=False):
            return OpS({k: sp.simplify(v * c) for k, v in self.terms.items()}, self.model)

        def copy(self):
            return OpS(self.terms, self.model)
    model = Sym("model")
    given = OpS({"H(given operator)": sp.Integer(1)}, model)
    built = []

    def environ(mps_, mpo_, *a, **k):
        built.append(mpo_)
        raise Stop()

    def make_mpo(m=None, terms=None, offset=None, **k):
        # an operator constructed from a model: not the given operator
        t = {f"Mpo({m!r}" + (", terms=..." if terms is not None else "") + ")": sp.Integer(1)}
        if offset is not None:
            t["I"] = -offset if isinstance(offset, sp.Expr) else sp.Symbol("offset")
        return OpS(t, m)
    class MpoNS(Sym):
        def __call__(self, *a, **k):
            return make_mpo(*a, **k)
    mpo_ns = MpoNS("Mpo", identity=lambda m: OpS({"I": sp.Integer(1)} if m is model else {f"I({m!r})": sp.Integer(1)}, m))
    mps = Sym("mps", is_left_canonical=True, is_right_canonical=False, is_mix_canonical=False, to_right=None, qnidx=Blob("qnidx"), site_num=Blob("n"), model=Sym("model of the state"),
              optimize_config=Sym("cfg", method="2site", e_rtol=0, e_atol=0, procedure=[], nroots=1), compress_config=Blob("cc"))
    for nm in ("ensure_right_canonical", "ensure_left_canonical", "canonicalise"):
        mps.__dict__[nm] = lambda *a, **k: mps
    it = SymInterp(src, None, {"Environ": environ, "logger": Blob("logger"), "StackedMpo": "StackedMpo", "Mpo": mpo_ns, "Quantity": lambda v, *a: v})
    try:
        it.call_function(fi, [mps, given, om])
    except Stop:
        pass
    want = {"H(given operator)": sp.Integer(1), "I": -om}
    ops = built[0] if built and isinstance(built[0], list) else None
    ok = ops is not None and len(ops) == 2 and all(isinstance(o, OpS) and o.terms == want and o.model is model for o in ops)
    chk.ob("shift-operator", "optimize_mps[omega set]: environments of [H - omega, H - omega] with H the given operator", ok, fi.where,
           [repr(o) for o in ops] if ops is not None else repr(built[:1]), ["1*H(given operator) + (-omega)*I"] * 2, line=fi.node.lineno,
           detail="the excited-state functional is <(H - omega)^2> for the operator that was handed in; an operator rebuilt from the model loses the given operator's offset, "
                  "term subset or scaling, and the reported value is no longer min (lambda - omega)^2 of that operator")


def iterative_matvec_rule(chk, src):
    """abstract run of eigh_iterative up to the eigensolver call; the matrix-vector product handed to the solver is then applied to a symbolic vector and to a block of two
    vectors: every column is unpacked with the sector mask the function was given, the effective-Hamiltonian expression is applied, the result is multiplied by `inverse`
    exactly once and packed with the same mask; a block gives the columns in order"""
    from ..syminterp import SymInterp, Sym, Blob, OpenSym
    fi = src.func(GS, "eigh_iterative")

    class Stop(Exception):
        pass

    class V(Sym):
        """symbolic array expression"""
        def __init__(self, expr, ndim=1, ncol=None):
            super().__init__(str(expr))
            self.expr, self.ndim, self.ncol = expr, ndim, ncol

        @property
        def shape(self):
            return ("n",) if self.ndim == 1 else ("n", self.ncol)

        def __getitem__(self, k):
            if isinstance(k, tuple) and len(k) == 2 and k[0] == slice(None) and isinstance(k[1], int) and self.ndim == 2:
                return V(("column", k[1], self.expr))
            if isinstance(k, Sym) and k._name.startswith("mask"):
                return V(("pack", self.expr, k._name))
            raise AnalysisError(f"index {k!r} of a symbolic vector")

        def __mul__(self, o):
            return V(("times", self.expr, repr(o)))

        __rmul__ = __mul__

        def __truediv__(self, o):
            return V(("div", self.expr, repr(o)))

        def __sub__(self, o):
            return V(("minus", self.expr, repr(o)))

        def __add__(self, o):
            return V(("plus", self.expr, repr(o)))

        __radd__ = __add__
    mask = Sym("mask(given)")
    other_mask = Sym("mask(other)")
    captured = {}

    def solver(hop, *a, **k):
        captured["hop"] = hop
        raise Stop()
    calls = []

    def get_ham_iterative(mps, qn_mask, l, r, cmo, omega):
        calls.append(qn_mask)
        return V("hdiag"), (lambda c: V(("H", c.expr if isinstance(c, V) else repr(c))))
    cfg = Sym("optimize_config", inverse=Sym("inverse"), algo="davidson", nroots=1)
    it = SymInterp(src, None, {"get_ham_iterative": get_ham_iterative, "cvec2cmat": lambda c, m: V(("unpack", c.expr, m._name)), "asxp": lambda x: x, "asnumpy": lambda x: x,
                               "davidson": solver, "np": OpenSym("np", make=lambda t: Blob(t), stack=lambda xs, axis=0: V(("stack", tuple(x.expr for x in xs), axis), 2, len(xs))),
                               "xp": OpenSym("xp", make=lambda t: Blob(t)), "func_sum": lambda fs: fs[0], "isinstance": lambda x, t: False, "logger": Blob("logger"), "primme": Blob("primme")})
    it.max_depth = 10
    try:
        it.call_function(fi, [Sym("mps", optimize_config=cfg), mask, Blob("l"), Blob("r"), Blob("cmo"), None, [V("guess")]])
    except Stop:
        pass
    hop = captured.get("hop")
    if hop is None:
        raise AnalysisError(f"{fi.where}: the matrix-vector product does not reach the eigensolver")

    def want_col(e):
        return ("pack", ("times", ("H", ("unpack", e, "mask(given)")), "inverse"), "mask(given)")
    r1 = hop(V("x"))
    ok1 = isinstance(r1, V) and r1.expr == want_col("x")
    chk.ob("mask-sibling", "eigh_iterative: matvec of one vector", ok1 and calls == [mask], fi.where, str(getattr(r1, "expr", r1)), str(want_col("x")), line=fi.node.lineno,
           detail="the trial vector must be unpacked and the result packed with the one sector mask that also restricted the diagonal; `inverse` multiplies the result once")
    r2 = hop(V("X", 2, 2))
    want2 = ("stack", (want_col(("column", 0, "X")), want_col(("column", 1, "X"))), 1)
    ok2 = isinstance(r2, V) and r2.expr == want2
    chk.ob("mask-sibling", "eigh_iterative: matvec of a block of vectors", ok2, fi.where, str(getattr(r2, "expr", r2))[:200], str(want2)[:200], line=fi.node.lineno,
           detail="a block is the column-wise matvec, columns stacked in order along axis 1")
    chk.ob("inverse-sibling", "eigh_iterative.hop", ok1, fi.where, str(getattr(r1, "expr", r1)), "H(x) * inverse, once", line=fi.node.lineno,
           detail="the `inverse` sign (largest-eigenvalue mode) must be applied identically in the direct matrix, the preconditioner and the matvec")


def result_normalised_rule(chk, src):
    """abstract run of optimize_mps (sweeps stubbed) for one and for several roots: every returned state has been normalised, then brought to canonical form,
    and carries the compress configuration the input had on entry"""
    from ..syminterp import SymInterp, Sym, Blob, OpenSym
    fi = src.func(GS, "optimize_mps")
    for nroots in (1, 3):
        class Res(Sym):
            def __init__(self, name):
                super().__init__(name)
                self.ops = []
                self.compress_config = "sweep-config"

            def normalize(self, kind):
                self.ops.append(("normalize", kind))
                return self

            def ensure_left_canonical(self, *a):
                self.ops.append(("ensure_left_canonical",))
                return self

            def ensure_right_canonical(self, *a):
                self.ops.append(("ensure_right_canonical",))
                return self

            def canonicalise(self, *a):
                self.ops.append(("canonicalise",))
                return self
        results = [Res(f"root{k}") for k in range(nroots)]
        n_sweeps = []

        def single_sweep(mps_, mpo_, environ_, omega_, percent_, idx_):
            n_sweeps.append(percent_)
            return [(-1.0 - 0.1 * len(n_sweeps), 2)], (results[0] if nroots == 1 else list(results)), mpo_
        mps = Sym("mps", is_left_canonical=False, is_right_canonical=False, compress_config="config-on-entry", model=Blob("state-model"),
                  optimize_config=Sym("cfg", method="2site", e_rtol=1e-6, e_atol=1e-8, nroots=nroots, procedure=[[16, 0.2], [16, 0], [16, 0]]))
        mps.__dict__["ensure_left_canonical"] = lambda *a: mps
        mps.__dict__["ensure_right_canonical"] = lambda *a: mps
        it = SymInterp(src, None, {"Environ": lambda *a, **k: "environ", "single_sweep": single_sweep, "logger": Blob("logger"), "StackedMpo": "StackedMpo", "CompressConfig": lambda *a, **k: "new-config",
                                   "CompressCriteria": Sym("CompressCriteria", fixed="fixed"), "Mpo": Blob("Mpo"), "np": OpenSym("np", allclose=lambda a, b, rtol=0, atol=0: abs(a - b) <= atol + rtol * abs(b))})
        it.builtins["isinstance"] = lambda x, t: isinstance(x, int) if t is int else False
        out = it.call_function(fi, [mps, Sym("mpo"), None])
        probs = []
        if not (isinstance(out, tuple) and len(out) == 2):
            probs.append(f"returns {out!r}")
        else:
            res = out[1] if isinstance(out[1], list) else [out[1]]
            if [r for r in res] != results:
                probs.append("the states of the last sweep are not what is returned")
            for r in res:
                names = [o[0] for o in getattr(r, "ops", [])]
                if ("normalize", "mps_only") not in getattr(r, "ops", []) or "canonicalise" not in names or names.index("normalize") > names.index("canonicalise"):
                    probs.append(f"{r!r}: {getattr(r, 'ops', None)}")
                if getattr(r, "compress_config", None) != "config-on-entry":
                    probs.append(f"{r!r}: compress_config = {getattr(r, 'compress_config', None)!r}")
        chk.ob("result-normalised", f"optimize_mps result [{'one root' if nroots == 1 else 'several roots'}]", not probs, fi.where, probs[:2] or "normalised, canonical, configuration restored",
               "normalize('mps_only') before canonicalise(); compress_config of the input restored", line=fi.node.lineno,
               detail="the state(s) returned must be normalised before they are re-canonicalised: after a truncating two-site update an eigenvector of the local problem is no longer a unit "
                      "vector of the full space, so <psi|H|psi> of the returned state differs from the reported energy: " + (probs[0] if probs else ""))


def run(chk):
    src = chk.src
    chk.explanation = (
        "Decides the structural core of C08: every literal contraction of the effective-Hamiltonian code (dense matrix for the direct solver, "
        "matrix-vector expression for the iterative solvers, its diagonal for the preconditioner; one- and two-site; with and without "
        "ancilla; single layer H and two-layer (H-omega)^2) is interpreted symbolically and must equal the canonical network in which bra "
        "legs meet operator rows, ket legs / the trial tensor meet operator columns, and the output lists bra legs in the trial tensor's "
        "axis order. All solvers therefore diagonalise one operator (and not, e.g., its transpose, which is invisible for the real "
        "symmetric Hamiltonians of the test-suite). Also: masks are applied to ket then bra axes, the `inverse` factor is applied once in "
        "each of the three forms, kernels are called with arguments in parameter order. Not decided: the variational bound, convergence.")
    chk.assumptions = ["Mpo site tensors are (left bond, row, column, right bond) and environments (bra, operator, ket): fixed by Mpo.apply / Environ (checked in C07/C03)",
                       "opt_einsum / multi_tensor_contract semantics of index strings"]
    chk.rule("heff-network", "effective-Hamiltonian kernel == canonical network (per configuration)", 22)
    chk.rule("inverse-sibling", "direct matrix, preconditioner diagonal and matrix-vector product are each multiplied by `inverse` exactly once", 3)
    chk.rule("mask-sibling", "iterative solver: trial vector unpacked and result packed with the same sector mask", 2)
    chk.rule("result-normalised", "returned states are normalised and canonical in the single-root and the several-roots branch", 2)
    result_normalised_rule(chk, src)
    chk.rule("entry-gauge", "optimize_mps orthonormalises its input before building environments, on every path, and builds the environments of the matching side", 8)
    entry_gauge_rule(chk, src)
    chk.rule("shift-operator", "omega-targeting optimises (H - omega)^2 of the operator that was handed in", 1)
    shift_operator_rule(chk, src)
    chk.rule("sweep-driver", "single_sweep (abstract run with versioned events): active sites in sweep order for the one- and two-site method, environments of the sites next to them with the "
                             "system side behind the sweep and built from the current state, stored optimum updated once per root, direction switched at the end", 24)
    from .chain_rules import single_sweep_rule
    single_sweep_rule(chk, src, rule_sites="sweep-driver")
    chk.rule("eigh-blocks", "eigh_qn as a whole on exact data (density matrix diagonal inside the sectors; charges of both signs): every sector with a partner on the other side is "
             "diagonalised, columns carry their sector's label and sqrt(eigenvalue)", 4)
    from . import decompose_rules as DR
    DR.eigh_qn_rule(chk, src, "eigh-blocks")
    chk.rule("eigen-selection", "local solvers (abstract runs with the library solvers as recorders): lowest algebraic eigenvalue, with its own eigenvector, of the effective Hamiltonian handed in", 6)
    eigen_selection_rule(chk, src, "eigen-selection")
    chk.rule("arg-order", "kernels are called with same-named arguments in parameter order", 4)
    cases = K.hop_expr_cases(src) + K.ham_direct_cases(src) + K.hdiag_cases(src)
    add_cases(chk, "heff-network", cases, "effective Hamiltonian")
    chk.extra["specs_interpreted"] = sorted({c_[1] for c in cases for c_ in c.calls if isinstance(c_[1], str)})
    # inverse factor
    ed = src.func(GS, "eigh_direct")
    gi = src.func(GS, "get_ham_iterative")
    inv_h = [norm_stmt(s, 70) for s in ast.walk(gi.node) if isinstance(s, ast.Assign) and unparse(s.targets[0]) == "hdiag" and "inverse" in unparse(s.value)]
    # eigh_direct: decided by the abstract run of eigen_selection_rule (the matrix handed to the dense solver is inverse x H, the factor applied exactly once)
    chk.ob("inverse-sibling", "get_ham_iterative.hdiag", len(inv_h) == 1, gi.where, inv_h, "hdiag = hdiag[qn_mask] * inverse", line=gi.node.lineno)
    iterative_matvec_rule(chk, src)
    ss = src.func(GS, "single_sweep")
    cv = [unparse(c.args[1]) for c in ast.walk(ss.node) if isinstance(c, ast.Call) and unparse(c.func) == "cvec2cmat"]
    chk.ob("mask-sibling", "single_sweep: eigenvector unpacked with the mask the solver used", cv == ["qn_mask"], ss.where, cv, ["qn_mask"], line=ss.node.lineno)
    # tree optimiser: sweep typestate and the two-site effective Hamiltonian it diagonalises
    from . import tree_rules as TR
    TR.gs_sweep_typestate(chk, src)
    TR.heff_networks(chk, src, topologies=("generic", "ternary"), rule="tree-heff-network", only=("hop_expr2",))
    o2 = src.func(TR.TGS, "optimize_2site")
    masks = sorted({unparse(n.slice) for n in ast.walk(o2.node) if isinstance(n, ast.Subscript) and unparse(n.value) in ("cguess", "hdiag", "expr(asxp(cstruct))")} |
                   {unparse(c.args[1]) for c in ast.walk(o2.node) if isinstance(c, ast.Call) and unparse(c.func) == "vec2tensor"})
    mdef = [unparse(s.value).replace(" ", "") for s in ast.walk(o2.node) if isinstance(s, ast.Assign) and unparse(s.targets[0]) == "qn_mask"]
    chk.ob("mask-sibling", "tn optimize_2site: guess, diagonal, matvec and eigenvector use the two-site mask of the same node", masks == ["qn_mask"] and mdef == ["ttns.get_qnmask(snode,include_parent=True)"],
           o2.where, {"masks": masks, "definition": mdef}, {"masks": ["qn_mask"], "definition": "ttns.get_qnmask(snode, include_parent=True)"}, line=o2.node.lineno)
    callees = {n: src.func(GS, n) for n in ("eigh_direct", "eigh_iterative", "get_ham_direct", "get_ham_iterative")}
    callees["hop_expr"] = src.func(K.HOP, "hop_expr")
    n = arg_order_rule(chk, src, "arg-order", [GS, "renormalizer/mps/mp.py", "renormalizer/mps/mps.py"], callees)


META = {
    "category": "other",
    "engine": "TNA",
    "technique": "symbolic interpretation of contraction kernels to tensor-network signatures (union-find over operand legs) compared with a canonical network, mask indexing evaluated; abstract interpretation of the sweep driver, of the shift-and-invert operator algebra and of the local solvers with the library solvers as recorders",
    "text": "Decides that all effective-Hamiltonian forms used by the chain DMRG code (4 dense, 7 matrix-vector, 4 diagonal specs, every "
            "configuration) are the same canonical network, i.e. the direct and iterative solvers see one operator, for all inputs and not "
            "only real-symmetric ones; for the tree optimiser, that the sweep (abstractly run on symbolic trees) reads only fresh environments, solves at the "
            "gauge centre, optimises every bond and that hop_expr2 is the canonical two-site network. The variational bound and convergence themselves are numerical and are not decided."
            ' optimize_mps is run abstractly over the gauge flags of its input: the state is orthonormalised before environments are built and the environment side matches the gauge.'
            ' The blocked diagonalisation of the state-averaged density matrix (eigh_qn) is interpreted as a whole on exact data with charges of both signs: every sector that has a partner on the other side is diagonalised and carries its own label.',
    "note": "Roles are bound by the kernels' parameter positions; letters and variable names are irrelevant. A kernel configuration the "
            "interpreter cannot follow stops the analysis (exit 2).",
    "design_ref": "DESIGN.md 3.2, 4 (C08); as built: 9.1, 9.3, 9.8",
}


def eigen_selection_rule(chk, src, rule):
    """which eigenpair the local solvers return: abstract runs with recorder stand-ins for the library solvers.  Tree eigh_iterative, every algorithm: the operator handed to the
    solver applies the effective Hamiltonian it was given, one root is asked for, sparse solvers are asked for the algebraically smallest eigenvalue (`SA`: `SM` would pick the
    one closest to zero - an interior state whenever the spectrum has negative values), the dense fallback takes entry 0 of the ascending spectrum and the matching column; value
    and vector returned belong to the same eigenpair.  Chain eigh_direct: the first nroots of the ascending spectrum of (H x inverse) with their own columns; chain
    eigh_iterative (primme): smallest algebraic, min(nroots, dimension) roots."""
    from ..syminterp import SymInterp, Sym, Blob, OpenSym, SymRaise
    TGS_ = "renormalizer/tn/gs.py"
    fi = src.func(TGS_, "eigh_iterative")

    class Evals(Sym):
        def __getitem__(self, k):
            return ("eval", k if not isinstance(k, slice) else ("slice", k.start, k.stop, k.step))

    class Evecs(Sym):
        shape = (7, 7)

        def __getitem__(self, k):
            return ("evec", k[1] if isinstance(k, tuple) and len(k) == 2 and k[0] == slice(None) else ("?", repr(k)))
    for algo in ("davidson", "primme", "arpack", "direct"):
        rec = []

        def davidson(aop, x0, precond, **kw):
            rec.append(("davidson", aop, kw.get("nroots", 1)))
            return ("eval", 0), ("evec", 0)

        def linop(shape, matvec=None, matmat=None, **kw):
            return Sym("LinearOperator", matvec=matvec, matmat=matmat, shape=shape)

        def eigsh(A, k=6, which="LM", **kw):
            rec.append(("eigsh", getattr(A, "matvec", None), k, which))
            return Evals("w"), Evecs("v")

        class Unit(Sym):
            def __setitem__(self, k, v):
                self.k = k
        hop = lambda x: ("hop", getattr(x, "k", x))
        sparse = Sym("sparse", linalg=Sym("linalg", LinearOperator=linop, eigsh=eigsh), diags=lambda *a, **k: Blob("diags"))

        def np_array(x, *a, **k):
            return Sym("array", rows=list(x), reshape=lambda *a_, **k_: Blob("v0"), conj=lambda: Sym("array", T="same")) if isinstance(x, list) else Blob("v0")
        npx = OpenSym("np", make=lambda t: Blob(t), zeros=lambda n_: Unit("unit"), array=np_array, allclose=lambda *a, **k: True,
                      linalg=Sym("linalg", eigh=lambda a: rec.append(("eigh", [r for r in getattr(a, "rows", [])])) or (Evals("w"), Evecs("v"))))
        it = SymInterp(src, None, {"np": npx, "scipy": Sym("scipy", sparse=sparse), "davidson": davidson, "primme": Sym("primme", eigsh=eigsh), "asnumpy": lambda x: x, "logger": Blob("logger"),
                                   "len": lambda x: 3, "IMPORT_PRIMME_EXCEPTION": "exc"})
        it.max_depth = 6
        probs = []
        try:
            res = it.call_function(fi, [hop, Blob("hdiag"), Blob("cguess"), algo])
        except SymRaise as e:
            res = None
            probs.append(f"raises {e}")
        if res is not None:
            # a sparse solver asked for one root returns a one-column matrix: the column itself or the whole matrix are the same vector for the caller (np.place flattens)
            one_col = algo in ("primme", "arpack") and isinstance(res, tuple) and len(res) == 2 and isinstance(res[1], Evecs)
            if res != (("eval", 0), ("evec", 0)) and not (one_col and res[0] == ("eval", 0)):
                probs.append(f"returns {res!r}; expected the lowest eigenvalue and its own eigenvector")
            if algo == "davidson":
                if len(rec) != 1 or rec[0][0] != "davidson" or rec[0][1] is not hop or rec[0][2] != 1:
                    probs.append(f"solver called as {[(r[0], r[2]) for r in rec]}; expected davidson on the effective Hamiltonian, one root")
            elif algo in ("primme", "arpack"):
                if len(rec) != 1 or rec[0][0] != "eigsh" or rec[0][1] is not hop or rec[0][2] != 1 or rec[0][3] != "SA":
                    probs.append(f"sparse solver called with {[(r[2], r[3]) for r in rec if r[0] == 'eigsh']} (operator is the effective Hamiltonian: {bool(rec) and rec[0][1] is hop}); expected k=1, which='SA' (smallest algebraic)")
            else:
                if len(rec) != 1 or rec[0][0] != "eigh" or rec[0][1] != [("hop", i) for i in range(3)]:
                    probs.append(f"dense matrix built from {rec}; expected the images of the unit vectors in order")
        chk.ob(rule, f"tree eigh_iterative[{algo}]: lowest eigenpair of the effective Hamiltonian", not probs, fi.where, probs[:2] or "lowest algebraic eigenvalue with its vector", "lowest algebraic eigenvalue with its vector",
               line=fi.node.lineno, detail="the local ground-state problem must return the algebraically smallest eigenvalue: 'smallest magnitude' is an interior eigenvalue whenever the spectrum has negative "
                                           "values, and the sweep then converges to an excited state without any error: " + (probs[0] if probs else ""))
    # ---- chain, dense solver
    fd = src.func(GS, "eigh_direct")
    for nroots in (1, 3):
        rec = []
        cfg = Sym("optimize_config", inverse=Sym("inverse"), nroots=nroots, method="1site")
        mps = Sym("mps", optimize_config=cfg)

        import sympy as _sp
        inv_s = _sp.Symbol("inverse", real=True)

        class Ham(Sym):
            """linear combination c1 * H + c2 * conj(H) of the (Hermitian) effective Hamiltonian: transposition and complex conjugation both exchange H and conj(H)"""
            def __init__(self, c1=1, c2=0):
                super().__init__(f"({c1})*H + ({c2})*conj(H)")
                self.c1, self.c2 = _sp.sympify(c1), _sp.sympify(c2)

            @staticmethod
            def _sc(o):
                if isinstance(o, Sym) and o._name == "inverse":
                    rec.append(("scaled by", "inverse"))
                    return inv_s
                if isinstance(o, (int, float)):
                    return _sp.nsimplify(o)
                raise AnalysisError(f"effective Hamiltonian combined with {o!r}")

            def __mul__(self, o):
                k_ = self._sc(o)
                return Ham(self.c1 * k_, self.c2 * k_)

            __rmul__ = __mul__

            def __truediv__(self, o):
                k_ = self._sc(o)
                return Ham(self.c1 / k_, self.c2 / k_)

            def __add__(self, o):
                if not isinstance(o, Ham):
                    raise AnalysisError(f"effective Hamiltonian + {o!r}")
                return Ham(self.c1 + o.c1, self.c2 + o.c2)

            def __sub__(self, o):
                return Ham(self.c1 - o.c1, self.c2 - o.c2)

            def __neg__(self):
                return Ham(-self.c1, -self.c2)

            @property
            def T(self):
                return Ham(self.c2, self.c1)

            def transpose(self, *a):
                return self.T

            def conj(self):
                return Ham(_sp.conjugate(self.c2), _sp.conjugate(self.c1))

            conjugate = conj
        it = SymInterp(src, None, {"np": OpenSym("np", make=lambda t: Blob(t)), "scipy": Sym("scipy", linalg=Sym("linalg", eigh=lambda a, **k: rec.append(("eigh", a)) or (Evals("w"), Evecs("v")))),
                                   "get_ham_direct": lambda *a: Ham(), "asnumpy": lambda x: x, "sign_fix": lambda c, n_: ("sign_fix", c, n_), "isinstance": lambda x, t: False, "logger": Blob("logger")})
        res = it.call_function(fd, [mps, Blob("mask"), Blob("L"), Blob("R"), Blob("cmo"), None])
        if nroots == 1:
            want = (("eval", 0), ("sign_fix", ("evec", 0), 1))
        else:
            want = (("eval", ("slice", None, 3, None)), ("sign_fix", [("evec", 0), ("evec", 1), ("evec", 2)], 3))
        handed = [a for k_, a in rec if k_ == "eigh"]
        op_ok = len(handed) == 1 and isinstance(handed[0], Ham) and _sp.simplify(handed[0].c1 - inv_s) == 0 and _sp.simplify(handed[0].c2) == 0
        ok = res == want and op_ok
        if nroots == 1:
            chk.ob("inverse-sibling", "eigh_direct", op_ok, fd.where, [repr(h) for h in handed], "(inverse)*H + (0)*conj(H)", line=fd.node.lineno,
                   detail="the dense matrix, the preconditioner diagonal and the matrix-vector product must each carry the factor `inverse` exactly once")
        chk.ob(rule, f"chain eigh_direct[{nroots} root(s)]: first roots of the ascending spectrum of H x inverse", ok, fd.where, {"returns": repr(res)[:120], "diagonalised": [repr(h) for h in handed]},
               {"returns": repr(want)[:120], "diagonalised": "(inverse)*H + (0)*conj(H)"}, line=fd.node.lineno,
               detail="the direct local solver must return the lowest nroots eigenvalues of (H x inverse) and exactly their eigenvectors")
