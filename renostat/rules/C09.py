"""C09 - real-time evolution: Hermitian-typed Krylov operands, Krylov / ODE branches integrate the same exponent, propagate-and-compress
schemes return compressed states, adaptive controllers discard rejected trial steps, Runge-Kutta stages are used as the tableau prescribes."""
import ast

import sympy as sp

from ..src import AnalysisError, unparse, norm_stmt, walk_no_nested
from ..fold import fold, partial_eval_dispatch, NotConstant
from .. import tna_kernels as K
from .C08 import add_cases

MPS = "renormalizer/mps/mps.py"
TEVO = "renormalizer/tn/time_evolution.py"
LIB = "renormalizer/mps/lib.py"
RK = "renormalizer/utils/rk.py"

COEF = sp.Symbol("coef")
HOP_SOURCES = {"hop_expr", "hop_expr0", "hop_expr1", "hop_expr2"}


class OpType:
    """type of a linear-operator callable: Hermitian part times a scalar factor, or non-Hermitian"""
    def __init__(self, herm, factor=sp.Integer(1), why=""):
        self.herm, self.factor, self.why = herm, factor, why

    def scale(self, f):
        return OpType(self.herm, sp.simplify(self.factor * f), self.why)


def scalar_sym(e, env):
    """scalar expression -> sympy (names from env; unknown names become symbols)"""
    if isinstance(e, ast.Constant):
        v = e.value
        if isinstance(v, complex):
            return sp.nsimplify(v.real) + sp.I * sp.nsimplify(v.imag)
        if isinstance(v, (int, float)) and not isinstance(v, bool):
            return sp.nsimplify(v)
        raise AnalysisError(f"non numeric constant {v!r} in a scalar expression")
    if isinstance(e, ast.Name):
        return env.get(e.id, sp.Symbol(e.id))
    if isinstance(e, ast.UnaryOp) and isinstance(e.op, ast.USub):
        return -scalar_sym(e.operand, env)
    if isinstance(e, ast.BinOp):
        a, b = scalar_sym(e.left, env), scalar_sym(e.right, env)
        if isinstance(e.op, ast.Add):
            return a + b
        if isinstance(e.op, ast.Sub):
            return a - b
        if isinstance(e.op, ast.Mult):
            return a * b
        if isinstance(e.op, ast.Div):
            return a / b
        if isinstance(e.op, ast.Pow):
            return a ** b
    if isinstance(e, ast.Attribute) and e.attr == "imag":
        return sp.im(scalar_sym(e.value, env))
    if isinstance(e, ast.Attribute) and e.attr == "real":
        return sp.re(scalar_sym(e.value, env))
    if isinstance(e, ast.Subscript):
        return sp.Symbol(unparse(e).replace(" ", ""))
    raise AnalysisError(f"scalar expression outside the interpreted fragment: {unparse(e)}")


class Typer:
    """types callables inside one evolution function"""

    def __init__(self, src, fi, preset=None):
        self.src, self.fi = src, fi
        self.names = dict(preset or {})
        self.scan()

    def scan(self):
        for n in ast.walk(self.fi.node):
            if isinstance(n, ast.Assign) and isinstance(n.value, ast.Subscript) and isinstance(n.value.value, ast.Call) and unparse(n.value.value.func) in HOP_SOURCES \
                    and isinstance(n.value.slice, ast.Constant) and n.value.slice.value == 0 and isinstance(n.targets[0], ast.Name):
                self.names[n.targets[0].id] = OpType(True, sp.Integer(1), f"{unparse(n.value.value.func)}(...)[0]")      # the first element of (operator, diagonal)
            if isinstance(n, ast.Assign) and isinstance(n.value, ast.Call):
                f = unparse(n.value.func)
                t = n.targets[0]
                if f in HOP_SOURCES:
                    nm = t.id if isinstance(t, ast.Name) else (t.elts[0].id if isinstance(t, ast.Tuple) and isinstance(t.elts[0], ast.Name) else None)
                    if nm:
                        self.names[nm] = OpType(True, sp.Integer(1), f"{f}(...) result")
                elif f == "integrand_func_factory" and isinstance(t, ast.Name):
                    args = n.value.args
                    islast = args[2] if len(args) > 2 else None
                    coefarg = args[5] if len(args) > 5 else None
                    for k in n.value.keywords:
                        if k.arg == "islast":
                            islast = k.value
                        if k.arg == "coef":
                            coefarg = k.value
                    hopn = args[1] if len(args) > 1 else None
                    if isinstance(islast, ast.Constant) and islast.value is True and coefarg is not None:
                        self.names[t.id] = OpType(True, 1 / scalar_sym(coefarg, {"coef": COEF}), "integrand_func_factory(islast=True): H y / coef")
                    else:
                        self.names[t.id] = OpType(False, sp.Integer(1), "integrand_func_factory: projector and inverse overlaps make it non-Hermitian")
        # nested defs returning a typed callable's value
        for (rel, qual), sub in self.src.funcs.items():
            if rel == self.fi.rel and sub.parent is self.fi:
                rets = [r.value for r in ast.walk(sub.node) if isinstance(r, ast.Return) and r.value is not None]
                if len(rets) == 1:
                    inner = Typer.__new__(Typer)
                    inner.src, inner.fi, inner.names = self.src, sub, dict(self.names)
                    inner.scan_local(sub)
                    ty = inner.type_expr(rets[0])
                    if ty is not None:
                        self.names[sub.name] = ty

    def scan_local(self, sub):
        for n in ast.walk(sub.node):
            if isinstance(n, ast.Assign) and isinstance(n.value, ast.Call) and unparse(n.value.func) == "integrand_func_factory" and isinstance(n.targets[0], ast.Name):
                args = n.value.args
                islast = args[2] if len(args) > 2 else None
                coefarg = args[5] if len(args) > 5 else None
                if isinstance(islast, ast.Constant) and islast.value is True and coefarg is not None:
                    self.names[n.targets[0].id] = OpType(True, 1 / scalar_sym(coefarg, {"coef": COEF}), "integrand_func_factory(islast=True): H y / coef")
                else:
                    self.names[n.targets[0].id] = OpType(False, sp.Integer(1), "integrand_func_factory with projector")

    def type_expr(self, e):
        """type of the value of expression e (the result of applying an operator to a vector), or of a callable name"""
        if isinstance(e, ast.Lambda):
            return self.type_expr(e.body)
        if isinstance(e, ast.Name):
            return self.names.get(e.id)
        if isinstance(e, ast.Call):
            if isinstance(e.func, ast.Attribute) and e.func.attr in ("ravel", "reshape", "flatten"):
                return self.type_expr(e.func.value)
            if isinstance(e.func, ast.Name) and e.func.id in self.names:
                return self.names[e.func.id]
            if unparse(e.func) in ("asxp", "asnumpy") and e.args:
                return self.type_expr(e.args[0])
            return None
        if isinstance(e, ast.BinOp) and isinstance(e.op, (ast.Mult, ast.Div)):
            l = self.type_expr(e.left)
            if l is not None:
                s = scalar_sym(e.right, {"coef": COEF})
                return l.scale(s if isinstance(e.op, ast.Mult) else 1 / s)
            if isinstance(e.op, ast.Mult):
                r = self.type_expr(e.right)
                if r is not None:
                    return r.scale(scalar_sym(e.left, {"coef": COEF}))
        if isinstance(e, ast.UnaryOp) and isinstance(e.op, ast.USub):
            t = self.type_expr(e.operand)
            return t.scale(-1) if t is not None else None
        return None


def coef_values(fi):
    """values assigned to `coef` in the prologue of an evolution function"""
    vals = set()
    for n in ast.walk(fi.node):
        if isinstance(n, ast.Assign) and isinstance(n.targets[0], ast.Name) and n.targets[0].id == "coef":
            vals.add(scalar_sym(n.value, {}))
    return vals or {sp.I, sp.Integer(-1)}


def krylov_rule(chk, src, rule, rels):
    n = 0
    for rel in rels:
        for fi in src.funcs_in(rel):
            if fi.parent is not None:
                continue
            calls = [c for c in ast.walk(fi.node) if isinstance(c, ast.Call) and unparse(c.func) == "expm_krylov"]
            if not calls:
                continue
            ty = Typer(src, fi)
            cvals = coef_values(fi)
            for k, c in enumerate(calls):
                n += 1
                key = f"{fi.qual}#{k}: expm_krylov({norm_stmt(c.args[0], 50)}, ...)"
                t = ty.type_expr(c.args[0])
                if t is None:
                    # a helper that receives the operator from its callers: typed per call site of the helper, with the types of the arguments handed in
                    sites = []
                    for fj in src.funcs_in(rel):
                        if fj.parent is not None or fj is fi:
                            continue
                        for c2 in ast.walk(fj.node):
                            if isinstance(c2, ast.Call) and unparse(c2.func).split(".")[-1] == fi.name:
                                tj = Typer(src, fj)
                                ps = fi.params()
                                preset = {}
                                for i_, a_ in enumerate(c2.args):
                                    if i_ < len(ps) and tj.type_expr(a_) is not None:
                                        preset[ps[i_]] = tj.type_expr(a_)
                                for k_ in c2.keywords:
                                    if k_.arg in ps and tj.type_expr(k_.value) is not None:
                                        preset[k_.arg] = tj.type_expr(k_.value)
                                sites.append((fj, c2, Typer(src, fi, preset).type_expr(c.args[0]), coef_values(fj)))
                    if not sites or any(t2 is None for _, _, t2, _ in sites):
                        raise AnalysisError(f"{fi.where}: operand of expm_krylov at line {c.lineno} cannot be typed: {unparse(c.args[0])[:80]}")
                    n -= 1
                    for fj, c2, t2, cv2 in sites:
                        n += 1
                        key2 = f"{fj.qual} -> {fi.qual}#{k}: expm_krylov({norm_stmt(c.args[0], 40)}, ...)"
                        bad = [f"coef={cv}: operator = ({sp.simplify(t2.factor.subs(COEF, cv))}) * H" for cv in sorted(cv2, key=str) if sp.im(sp.simplify(t2.factor.subs(COEF, cv))) != 0]
                        chk.ob(rule, key2, t2.herm and not bad, fj.where, (f"non-Hermitian ({t2.why})" if not t2.herm else bad) or f"({t2.factor}) * H", "real multiple of a Hermitian operator", line=c2.lineno,
                               detail="the Krylov exponential is given a non-Hermitian operator: its Lanczos recurrence assumes real alpha; complex factors belong in the time step, not in the operator")
                    continue
                if not t.herm:
                    chk.ob(rule, key, False, fi.where, f"non-Hermitian ({t.why})", "Hermitian operator", line=c.lineno,
                           detail="expm_krylov documents `A is a hermitian matrix` (alpha = <w,v>.real in the Lanczos recurrence)")
                    continue
                bad = []
                for cv in sorted(cvals, key=str):
                    f = sp.simplify(t.factor.subs(COEF, cv))
                    if sp.im(f) != 0:
                        bad.append(f"coef={cv}: operator = ({f}) * H")
                chk.ob(rule, key, not bad, fi.where, bad or f"({t.factor}) * H is Hermitian for coef in {sorted(map(str, cvals))}", "real multiple of a Hermitian operator",
                       line=c.lineno, detail="the Krylov exponential is given a non-Hermitian (e.g. anti-Hermitian -iH) operator: its Lanczos recurrence assumes real alpha; "
                                             "complex factors belong in the time step, not in the operator")
    return n



# ------------------------------------------------------------------------------------------ relative error estimates
def norm_kind(e, binds):
    """'full' for X.norm (includes the scalar prefactor), 'bare' for X.mp_norm / X.ttns_norm / X.distance(Y) (tensor part only)"""
    if isinstance(e, ast.Attribute):
        if e.attr == "norm":
            return "full"
        if e.attr in ("mp_norm", "ttns_norm"):
            return "bare"
    if isinstance(e, ast.Call) and isinstance(e.func, ast.Attribute) and e.func.attr == "distance":
        return "bare"
    if isinstance(e, ast.Name) and e.id in binds:
        return norm_kind(binds[e.id], {})
    return None


def relative_error_rule(chk, src, rule):
    n = 0
    for fi in src.funcs_in(MPS):
        if fi.parent is not None or "adaptive_rtol" not in unparse(fi.node):
            continue
        binds = {}
        for st in ast.walk(fi.node):
            if isinstance(st, ast.Assign) and isinstance(st.targets[0], ast.Name) and isinstance(st.value, ast.Call) and isinstance(st.value.func, ast.Attribute) and st.value.func.attr == "distance":
                binds[st.targets[0].id] = st.value
        for d in ast.walk(fi.node):
            if isinstance(d, ast.BinOp) and isinstance(d.op, ast.Div):
                kl, kr = norm_kind(d.left, binds), norm_kind(d.right, binds)
                if kl is None or kr is None:
                    continue
                n += 1
                chk.ob(rule, f"{fi.qual}: {unparse(d)[:50]}", kl == kr, fi.where, {"numerator": kl, "denominator": kr}, "same kind on both sides", line=d.lineno,
                       detail=f"{fi.qual}: the relative error that drives the adaptive step size divides a norm {'with' if kl == 'full' else 'without'} the scalar prefactor by one "
                              f"{'with' if kr == 'full' else 'without'} it: the estimate is off by |coeff| and steps are accepted/rejected against a different tolerance whenever coeff != 1")
    return n


# ------------------------------------------------------------------------------------------ temporary configuration changes
def config_restore_rule(chk, src, rule):
    """save -> modify attributes in place -> restore: the saved value must be a copy, otherwise the restore is a no-op and the temporary settings stay on the object
    (and on every state later derived from it)"""
    from .. import qn as Q
    n = 0
    for rel in (MPS, "renormalizer/mps/mp.py", "renormalizer/mps/gs.py", "renormalizer/mps/lib.py", "renormalizer/tn/tree.py", TEVO):
        for fi in src.funcs_in(rel):
            if fi.parent is not None:
                continue
            order = Q.stmts_in_order(fi.node)
            saved = {}     # name -> (config expression text, is_copy, position)
            for pos, st in enumerate(order):
                if isinstance(st, ast.Assign) and len(st.targets) == 1 and isinstance(st.targets[0], ast.Name):
                    v = st.value
                    is_copy = isinstance(v, ast.Call) and isinstance(v.func, ast.Attribute) and v.func.attr in ("copy", "deepcopy") and not v.args
                    base = v.func.value if is_copy else v
                    if isinstance(base, ast.Attribute) and base.attr.endswith("_config"):
                        saved[st.targets[0].id] = (unparse(base), is_copy, pos)
            for name, (cfg, is_copy, p0) in saved.items():
                restores = [pos for pos, st in enumerate(order) if pos > p0 and isinstance(st, ast.Assign) and isinstance(st.value, ast.Name) and st.value.id == name
                            and any(unparse(t) == cfg for t in st.targets)]
                if not restores:
                    continue
                muts = [st for pos, st in enumerate(order) if p0 < pos < restores[-1] and isinstance(st, (ast.Assign, ast.AugAssign))
                        and any(isinstance(t, ast.Attribute) and unparse(t.value) == cfg for t in (st.targets if isinstance(st, ast.Assign) else [st.target]))]
                if not muts:
                    continue
                n += 1
                chk.ob(rule, f"{fi.qual}: {name} = {cfg}{'.copy()' if is_copy else ''} ... {cfg} = {name}", is_copy, fi.where,
                       "the saved value is the same object that is modified" if not is_copy else "saved as a copy", "saved with .copy() before the settings are changed in place", line=order[p0].lineno,
                       detail=f"{fi.qual} changes {len(muts)} attribute(s) of {cfg} temporarily and restores `{name}` afterwards; `{name}` aliases the modified object, so nothing is restored: "
                              "the object (and every state derived from it later) keeps the temporary settings - e.g. a second-order scheme silently continues as a first-order one")
    return n


# ------------------------------------------------------------------------------------------ step doubling (abstract run of the adaptive wrapper)
def step_doubling_rule(chk, src, rule, rule_kind=None):
    from ..syminterp import SymInterp, Sym, OpenSym, Blob
    deco = src.func(MPS, "adaptive_tdvp")
    for script_name, script in (("reject, then accept until done", [1.0] + [1e-4] * 60), ("accept at once", [1e-4] * 60), ("two rejections", [1.0, 1.0] + [1e-4] * 60)):
        calls, dists, kinds = [], [], []
        script_it = iter(script)
        from .chain_rules import KV

        class St(Sym):
            def __init__(self, name, t):
                super().__init__(name)
                self.t = t
                self.mp_norm, self.norm = KV(1.0, "bare", kinds), KV(1.0, "full", kinds)
                self.evolve_config = Sym("cfg", guess_dt=None)

            def distance(self, o):
                dists.append((self._name, o._name))
                return KV(next(script_it), "bare", kinds)

        def fun(state, mpo, dt):
            calls.append((state._name, dt))
            return St(f"fun({state._name},{dt:.6g})", state.t + dt)
        cfg = Sym("config", adaptive=True, guess_dt=0.4, adaptive_rtol=1e-3, check_valid_dt=lambda t: None)
        cfg.__dict__["copy"] = lambda: Sym("config-copy", adaptive=True, guess_dt=0.4, adaptive_rtol=1e-3, check_valid_dt=lambda t: None)
        start = St("psi0", 0.0)
        start.evolve_config = cfg
        it = SymInterp(src, None, {"wraps": lambda f: (lambda g: g), "min_abs": lambda a, b: a if abs(a) < abs(b) else b, "logger": Blob("logger"),
                                   "np": OpenSym("np", allclose=lambda a, b: abs(a - b) < 1e-9), "EvolveConfig": None})
        wrapped = it.call_function(deco, [fun])
        T = 1.0
        try:
            out = wrapped(start, "mpo", T)
            err = None
        except StopIteration:
            out, err = None, "the wrapper kept asking for trial steps after the scripted sequence ended (evolved time never reaches the target)"
        probs = [err] if err else []
        # group calls in trials of three
        cur, t_acc = "psi0", 0.0
        k = 0
        for trial in range(min(len(dists), len(script))):
            c = calls[3 * trial:3 * trial + 3]
            if len(c) < 3:
                probs.append(f"trial {trial}: {len(c)} propagations")
                break
            dt = c[2][1]
            h1 = f"fun({cur},{dt / 2:.6g})"
            h2 = f"fun({h1},{dt / 2:.6g})"
            full = f"fun({cur},{dt:.6g})"
            if [x[0] for x in c] != [cur, h1, cur] or abs(c[0][1] - dt / 2) > 1e-12 or abs(c[1][1] - dt / 2) > 1e-12:
                probs.append(f"trial {trial}: propagations {c}, expected two half steps from the current state and one full step from it")
                break
            if set(dists[trial]) != {full, h2}:
                probs.append(f"trial {trial}: error estimated between {dists[trial]}, expected the full step and the two half steps")
                break
            accepted = script[trial] < 1e-2
            if accepted:
                cur, t_acc = h2, t_acc + dt
        if not probs and (out is None or out._name != cur or abs(t_acc - T) > 1e-9):
            probs.append(f"returned {getattr(out, '_name', out)} after accepted steps summing to {t_acc}; expected the last accepted two-half-step state at t = {T}")
        if not probs and start.evolve_config.guess_dt != 0.4:
            probs.append("the guess_dt of the input state's configuration was changed")
        chk.ob(rule, f"adaptive_tdvp [{script_name}]", not probs, deco.where, probs[:2] or f"{len(dists)} trials, accepted time {t_acc}", "step doubling from the last accepted state; rejected trials discarded; accepted steps add up to the target",
               line=deco.node.lineno, detail="adaptive TDVP: " + (probs[0] if probs else "") + " - a rejected trial that leaks into the state, a full step taken instead of the two half steps, or a wrong time "
               "bookkeeping changes the propagated time without any error")
        if rule_kind:
            mixed = [k_ for k_ in kinds if k_[0] != k_[1]]
            chk.ob(rule_kind, f"adaptive_tdvp [{script_name}]: relative error", bool(kinds) and not mixed, deco.where, {"numerator / denominator": sorted(set(kinds))}, "same kind on both sides", line=deco.node.lineno,
                   detail="the relative error that drives the adaptive step size divides a distance / norm without the scalar prefactor by one with it (or the reverse): the estimate is off by |coeff| "
                          "and steps are accepted / rejected against a different tolerance whenever coeff != 1")

# ------------------------------------------------------------------------------------------ solver sibling
def prologue_env(fi, imag, krylov):
    """symbolic values of evolve_dt / coef after the prologue for (imaginary-time?, krylov-solver?)"""
    t, tau = sp.Symbol("t", positive=True), sp.Symbol("tau", positive=True)
    dtname = fi.params()[2]
    env = {dtname: (-sp.I * tau if imag else t)}

    def atom(test):
        u = unparse(test).replace(" ", "").replace('"', "'")
        if u in (f"np.iscomplex({dtname})", "imag_time"):
            return imag
        if u == "self.evolve_config.ivp_solver!='krylov'":
            return not krylov
        if u == "self.evolve_config.ivp_solver=='krylov'":
            return krylov
        return None

    def walk(stmts):
        for s in stmts:
            if isinstance(s, ast.If):
                a = atom(s.test)
                if a is None:
                    continue
                walk(s.body if a else s.orelse)
            elif isinstance(s, ast.Assign) and isinstance(s.targets[0], ast.Name) and s.targets[0].id in (dtname, "coef"):
                env[s.targets[0].id] = sp.simplify(scalar_sym(s.value, env))
            elif isinstance(s, (ast.For, ast.While)):
                return
    walk(fi.node.body)
    return env


def solver_pairs(fi):
    """(krylov call, solve_ivp call) pairs under `if ...ivp_solver == 'krylov': ... else: ...`"""
    out = []
    for n in ast.walk(fi.node):
        if isinstance(n, ast.If) and "ivp_solver" in unparse(n.test) and "krylov" in unparse(n.test):
            kc = [c for s in n.body for c in ast.walk(s) if isinstance(c, ast.Call) and unparse(c.func) == "expm_krylov"]
            ic = [c for s in n.orelse for c in ast.walk(s) if isinstance(c, ast.Call) and unparse(c.func) == "solve_ivp"]
            if "==" in unparse(n.test) and kc and ic:
                out.append((kc[0], ic[0], n))
    return out


def solver_sibling_rule(chk, src, rule):
    n = 0
    for qual in ("Mps._evolve_tdvp_ps", "Mps._evolve_tdvp_ps2", "Mps._evolve_tdvp_mu_cmf"):
        fi = src.func(MPS, qual)
        ty = Typer(src, fi)
        pairs = solver_pairs(fi)
        if not pairs:
            raise AnalysisError(f"{fi.where}: no krylov/ODE solver pair found")
        for k, (kc, ic, ifn) in enumerate(pairs):
            for imag in (False, True):
                ek = prologue_env(fi, imag, True)
                ei = prologue_env(fi, imag, False)
                tk = ty.type_expr(kc.args[0])
                ti = ty.type_expr(ic.args[0])
                if tk is None or ti is None:
                    raise AnalysisError(f"{fi.where}: solver operand cannot be typed (line {kc.lineno}/{ic.lineno})")
                dtk = scalar_sym(kc.args[1], ek)
                span = ic.args[1]
                if not isinstance(span, ast.Tuple) or len(span.elts) != 2:
                    raise AnalysisError(f"{fi.where}: t_span of solve_ivp is not a literal pair")
                dti = scalar_sym(span.elts[1], ei) - scalar_sym(span.elts[0], ei)
                ck = ek.get("coef", COEF)
                ci = ei.get("coef", COEF)
                exk = sp.simplify(dtk * tk.factor.subs(COEF, ck))
                exi = sp.simplify(dti * ti.factor.subs(COEF, ci))
                n += 1
                mode = "imaginary time" if imag else "real time"
                chk.ob(rule, f"{qual} pair#{k} [{mode}]", sp.simplify(exk - exi) == 0 and tk.herm == ti.herm or (sp.simplify(exk - exi) == 0), fi.where,
                       {"krylov exponent": f"({exk}) * H", "ODE exponent": f"({exi}) * H"}, "equal exponents", line=kc.lineno,
                       detail=f"{qual}: for {mode} the Krylov branch computes exp(({exk}) H) while the ODE branch integrates to exp(({exi}) H): "
                              f"the result depends on which local integrator is selected")
    return n


# ------------------------------------------------------------------------------------------ adaptive controllers
def adaptive_reject_rule(chk, src, rule):
    n = 0
    for rel, qual in ((MPS, "adaptive_tdvp.adaptive_fun"), (MPS, "Mps._evolve_prop_and_compress_tdrk"), (MPS, "Mps._evolve_prop_and_compress")):
        fi = src.func(rel, qual)
        loops = [w for w in walk_no_nested(fi.node) if isinstance(w, ast.While) and isinstance(w.test, ast.Constant) and w.test.value is True]
        for w in loops:
            tests = [s for s in ast.walk(w) if isinstance(s, ast.If) and "p_restart" in unparse(s.test)]
            if not tests:
                continue
            n += 1
            first = min(t.lineno for t in tests)
            bad = []
            for s in w.body:
                if s.lineno >= first:
                    break
                for a in ast.walk(s):
                    if isinstance(a, ast.Assign) and isinstance(a.value, ast.Call):
                        tnames = {x.id for t in a.targets for x in ast.walk(t) if isinstance(x, ast.Name)}
                        anames = {x.id for arg in a.value.args for x in ast.walk(arg) if isinstance(x, ast.Name)}
                        callee = unparse(a.value.func)
                        if tnames & anames and callee not in ("min_abs", "min", "max"):
                            bad.append(norm_stmt(a, 90))
            chk.ob(rule, f"{qual}", not bad, fi.where, bad or "trial result bound to a new name; carried state updated only after acceptance", "no self-update before the acceptance test",
                   line=w.lineno, detail=f"{qual}: the loop-carried state is overwritten by the trial step before the error estimate is tested; a rejected step then restarts "
                                         f"from the inaccurate trial state without advancing time")
    return n


def must_compress_rule(chk, src, rule):
    for qual in ("Mps._evolve_prop_and_compress", "Mps._evolve_prop_and_compress_tdrk4", "Mps._evolve_prop_and_compress_tdrk"):
        fi = src.func(MPS, qual)
        assigns = {}
        for (rel, q), sub in src.funcs.items():
            if rel == MPS and (sub is fi or sub.parent is fi):
                for s in ast.walk(sub.node):
                    if isinstance(s, ast.Assign):
                        for t in s.targets:
                            for x in (t.elts if isinstance(t, ast.Tuple) else [t]):
                                if isinstance(x, ast.Name):
                                    assigns.setdefault(x.id, []).append(s.value)
        rets = [r for r in walk_no_nested(fi.node) if isinstance(r, ast.Return) and r.value is not None]

        seen = set()

        def compressed(e, depth=0):
            if depth > 8:
                return False
            if isinstance(e, ast.Call):
                f = unparse(e.func)
                if f == "compressed_sum" or f.endswith(".compress") or f.endswith(".contract") or f.endswith("._evolve_prop_and_compress"):
                    return True
                if f == "sub_time_step_evolve":
                    sub = src.func(MPS, qual + ".sub_time_step_evolve")
                    rr = [r.value for r in ast.walk(sub.node) if isinstance(r, ast.Return)]
                    return all(compressed(r.elts[0] if isinstance(r, ast.Tuple) else r, depth + 1) for r in rr)
                return False
            if isinstance(e, ast.Name):
                if e.id in seen:
                    return True      # cyclic definition (loop-carried name): decided by its other definitions
                seen.add(e.id)
                ds = [d for d in assigns.get(e.id, []) if not (isinstance(d, ast.Name) and d.id == "self")]
                return bool(ds) and all(compressed(d, depth + 1) for d in ds)
            return False
        for k, r in enumerate(rets):
            chk.ob(rule, f"{qual} return#{k}", compressed(r.value), fi.where, unparse(r.value)[:60], "value produced by compressed_sum / compress / contract", line=r.lineno,
                   detail=f"{qual} returns a state that was summed but not compressed: bond dimensions exceed the configured limit")
    sm = src.func(LIB, "_sum")
    d = [unparse(x) for x in sm.node.args.defaults]
    chk.ob(rule, "_sum(compress=True) by default", "True" in d, sm.where, d, "compress=True", line=sm.node.lineno)
    over = []
    for (rel, q), f2 in src.funcs.items():
        for c in ast.walk(f2.node):
            if isinstance(c, ast.Call) and unparse(c.func) == "_sum" and any(k.arg == "compress" and unparse(k.value) == "False" for k in c.keywords):
                over.append(f"{rel}::{q}")
    chk.ob(rule, "_sum never called with compress=False", not over, sm.where, over, [])
    cs = src.func(LIB, "compressed_sum")
    inner = [c for c in ast.walk(cs.node) if isinstance(c, ast.Call) and unparse(c.func) == "_sum"]
    single = [c for c in ast.walk(cs.node) if isinstance(c, ast.Call) and unparse(c.func).endswith(".compress")]
    chk.ob(rule, "compressed_sum compresses in both branches", len(inner) == 1 and len(single) == 1, cs.where, {"_sum": len(inner), "compress": len(single)}, {"_sum": 1, "compress": 1})
    mc = src.func("renormalizer/mps/mpo.py", "Mpo.contract")
    body = [unparse(s).replace(" ", "") for s in ast.walk(mc.node) if isinstance(s, ast.Expr)]
    chk.ob(rule, "Mpo.contract[svd] = apply, canonicalise, compress", any(b.endswith(".canonicalise()") for b in body) and any(b.endswith(".compress()") for b in body), mc.where, body[-3:],
           "new_mps.canonicalise(); new_mps.compress()", line=mc.node.lineno)


def entry_gauge_rule(chk, src, rule):
    """abstract run of every tangent-space scheme up to the construction of its environments, for each combination of the input's direction flag and the
    overlap-forcing switch.  The input's gauge is unknown (the direction flag and the label centre say nothing about orthonormality, cf. C08 entry-gauge).
    The state the environments are built from must have been orthonormalised by ensure_*_canonical()/canonicalise() - itself or the object it was copied
    from - with the centre where the sweep starts; the variable-mean-field equations may skip this only when the overlap matrices are used (force_ovlp)."""
    from ..syminterp import SymInterp, Sym, Blob, OpenSym

    class Stop(Exception):
        pass

    class St(Sym):
        def __init__(self, name, to_right, cfg, canon=None):
            super().__init__(name)
            self.to_right, self.evolve_config, self.canon = to_right, cfg, canon
            self.site_num, self.qnidx, self.qntot, self.dtype, self.coeff = 3, Blob("qnidx"), Blob("qntot"), Blob("dtype"), Blob("coeff")
            self.compress_config, self.model, self.qn = Blob("cc"), Blob("model"), [Blob("qn")] * 4

        def _clone(self, tag):
            c = St(f"{self._name}.{tag}", self.to_right, self.evolve_config, self.canon)
            return c

        def copy(self):
            return self._clone("copy()")

        def to_complex(self, inplace=False):
            return self if inplace else self._clone("to_complex()")

        def ensure_left_canonical(self, *a, **k):
            self.canon, self.to_right = "L", False
            return self

        def ensure_right_canonical(self, *a, **k):
            self.canon, self.to_right = "R", True
            return self

        def canonicalise(self, *a, **k):
            # a full sweep in the direction of the flag, which is reversed at the end
            self.canon = "L" if self.to_right else "R"
            self.to_right = not self.to_right
            return self

        def move_qnidx(self, k):
            return None

        def _get_big_qn(self, idx):
            return Blob("qnl"), Blob("qnr"), Blob("qnmat")

        def iter_idx_list(self, full=True, stop_idx=None):
            return [0, 1, 2] if self.to_right else [2, 1, 0]

        def __len__(self):
            return 3

        def __getitem__(self, i):
            return Blob(f"{self._name}[{i}]")

        def __setitem__(self, i, v):
            pass

        def __iter__(self):
            return iter([Blob(f"{self._name}[{i}]") for i in range(3)])
    schemes = [("Mps._evolve_tdvp_ps", "tdvp_ps", "start"), ("Mps._evolve_tdvp_ps2", "tdvp_ps2", "start"), ("Mps._evolve_tdvp_mu_vmf", "tdvp_vmf", "L"),
               ("Mps._evolve_tdvp_mu_vmf", "tdvp_mu_vmf", "L"), ("Mps._evolve_tdvp_mu_cmf", "tdvp_mu_cmf", "L")]
    for qual, method, need in schemes:
        fi = src.func(MPS, qual)
        for to_right in (True, False):
            for force_ovlp in (False, True):
                built = []

                def environ(mps_, mpo_, *a, **k):
                    built.append((mps_, a, k))
                    raise Stop()
                methods = Sym("EvolveMethod", **{m: m for m in ("tdvp_ps", "tdvp_ps2", "tdvp_vmf", "tdvp_mu_vmf", "tdvp_mu_cmf", "prop_and_compress", "prop_and_compress_tdrk4", "prop_and_compress_tdrk")})
                cfg = Sym("evolve_config", force_ovlp=force_ovlp, method=method, ivp_solver="krylov", ivp_rtol=Blob("rtol"), ivp_atol=Blob("atol"), tdvp_cmf_c_trapz=False,
                          tdvp_cmf_midpoint=False, reg_epsilon=Blob("eps"), vmf_auto_switch=False, adaptive=False)
                cfg.__dict__["copy"] = lambda cfg=cfg: cfg
                me = St("self", to_right, cfg)
                mk = lambda text: Blob(text)  # noqa: E731
                npx = OpenSym("np", make=mk, iscomplex=lambda x: False)
                it = SymInterp(src, None, {"Environ": environ, "logger": Blob("logger"), "np": npx, "xp": OpenSym("xp", make=mk), "EvolveMethod": methods, "Mpo": Sym("Mpo"),
                                           "isinstance": lambda o, c: False, "callable": lambda o: True, "get_qn_mask": lambda *a: Blob("mask"), "cvec2cmat": lambda *a: Blob("site"),
                                           "asnumpy": lambda x: x, "asxp": lambda x: x, "solve_ivp": lambda f, span, y0, **k: f(0, y0)})
                it.max_depth = 12
                try:
                    it.call_function(fi, [me, (lambda *a, **k: Sym("mpo_t")), Blob("dt")])
                    why = "no environments are built"
                except Stop:
                    why = None
                st = built[0][0] if built else None
                if why is None and not isinstance(st, St):
                    why = f"environments built from {st!r}"
                if why is None:
                    if need == "start":
                        want = "R" if st.to_right else "L"
                        if st.canon != want:
                            why = (f"the sweep starts at the {'first' if st.to_right else 'last'} site (to_right={st.to_right}) but the state was " +
                                   ("never orthonormalised" if st.canon is None else f"brought to {st.canon}-canonical form"))
                    elif st.canon != "L" and not force_ovlp:
                        why = "left environments of a state that was " + ("never orthonormalised" if st.canon is None else f"brought to {st.canon}-canonical form") + " and no overlap matrices"
                chk.ob(rule, f"{qual}[method={method}, input to_right={to_right}, force_ovlp={force_ovlp}]", why is None, fi.where, why or "orthonormalised before the environments are built",
                       "orthonormalised before the environments are built", line=fi.node.lineno,
                       detail=f"{qual}: {why} - the tangent-space equations treat the overlap environments as identities; on a state that is not actually canonical (a sum, the result of "
                              "an operator application, any re-gauged state) the propagated state is silently wrong although norm and bond dimensions look fine")


def run(chk):
    src = chk.src
    chk.explanation = (
        "Decides structural necessary conditions of C09: (1) every operand handed to the Krylov exponential is a real multiple of a Hermitian "
        "effective Hamiltonian for both values of the time-mode coefficient (complex factors live in the time step); (2) in every "
        "`krylov` / ODE solver pair the two branches integrate the same exponent, for real and imaginary time, with the prologue's "
        "path-dependent rebinding of the step and coefficient evaluated symbolically; (3) the effective-Hamiltonian matvec is the canonical "
        "network (shared with C08); (4) propagate-and-compress schemes return only compressed states; (5) adaptive controllers never carry a "
        "rejected trial state; (6) Runge-Kutta stages are combined as the tableau (proved by C19) prescribes: stage times t0 + c_i tau, "
        "increments a_ij tau, weights b_j tau, and the hard-coded RK4/Taylor evolvers match the C_RK4 / 1/k! tables. Not decided: error "
        "orders, independence of step splitting, conservation laws (numerical).")
    chk.assumptions = ["hop_expr* return Hermitian effective Hamiltonians when environments and operator are (shown structurally in C08/C12)",
                       "integrand_func_factory(islast=True) returns H y / coef; with projector or inverse overlaps the operator is not Hermitian",
                       "tableau coefficients as proved by C19"]
    chk.rule("krylov-hermitian", "operand of expm_krylov is a real multiple of a Hermitian operator for every time mode", 8)
    chk.rule("solver-sibling", "abstract runs of the tangent-space schemes with both local solvers (real and imaginary step, both sweep directions): call by call the same exponent on the same effective operator, forward / backward half (full) steps", 12)
    chk.rule("heff-network", "effective-Hamiltonian matvec == canonical network", 7)
    chk.rule("bond-limit", "the renormalised-basis update of the two-site schemes (abstract run of _update_mps, both directions, with and without on-the-fly swapping): the kept count comes from "
             "the limit configured for the bond being cut (site cidx[0] sweeping right, cidx[-1] sweeping left)", 8)
    from .chain_rules import update_mps_rule
    update_mps_rule(chk, src, {"bond": "bond-limit"})
    chk.rule("must-compress", "propagate-and-compress evolvers return compressed states", 7)
    chk.rule("relative-error-homogeneous", "adaptive error estimates (recorded in the abstract runs of the TDVP wrapper and of the Taylor evolver) divide norms of the same kind, both with or both without the scalar prefactor; general Runge-Kutta evolver: ||tau sum (b - b*) k|| / ||trial||, both full norms", 8)
    chk.rule("adaptive-reject", "adaptive Taylor evolver (abstract run in the algebra of powers of H, scripted error estimates): result = composition of the accepted sub-steps, which add up to the step; rejected trials leave no trace; the same for the embedded Runge-Kutta pairs of the general evolver (free-algebra run)", 5)
    # ---- the tableaux the general Runge-Kutta evolver integrates with: the exact order conditions of C19, run on a private checker and reported here
    chk.rule("tableau-order", "every tableau the Runge-Kutta propagate-and-compress evolver can select satisfies the order conditions of its advertised order, its nodes are the row sums and it is "
             "explicit (the exact folding and rooted-tree conditions of C19, re-emitted: a scheme of lower order converges to exp(-iHt) at another rate than its step control assumes)", 100)
    from ..report import Check as _Check
    from . import C19 as _C19
    sub = _Check("C19", src, tier="quick", repo=getattr(chk, "repo", "/repo"))
    _C19.run(sub)
    for o in sub.obs:
        if o.rule in ("order-condition", "row-sum", "explicit", "shape", "dispatch-total"):
            chk.ob("tableau-order", f"{o.rule}: {o.key}", o.ok, o.where, o.found, o.expected, detail=o.detail, line=o.line)
    chk.rule("rk-usage", "abstract run of the propagate-and-compress evolvers in the free algebra of time-ordered operator words: one step of the general evolver is the Runge-Kutta "
                         "formula of every tableau, an adaptive run is the composition of its accepted sub-steps with the prescribed error estimate, RK4 and Taylor evolvers equal their formulas", 12)
    # chain schemes: abstract runs with both local solvers, real and imaginary step (chain_rules.tdvp_solver_rule); tree schemes: typed dataflow to every Krylov call
    from .chain_rules import tdvp_solver_rule
    tdvp_solver_rule(chk, src, "solver-sibling", "krylov-hermitian")
    krylov_rule(chk, src, "krylov-hermitian", [TEVO])
    add_cases(chk, "heff-network", K.hop_expr_cases(src), "effective Hamiltonian")
    must_compress_rule(chk, src, "must-compress")
    # adaptive controllers: the TDVP wrapper is decided by step-doubling, the general Runge-Kutta evolver by the adaptive runs of rk-usage, the Taylor evolver here
    from .chain_rules import taylor_adaptive_rule
    taylor_adaptive_rule(chk, src, "adaptive-reject", rule_kind="relative-error-homogeneous")
    chk.rule("config-restore", "temporarily modified configuration objects are saved as copies before and restored after", 1)
    config_restore_rule(chk, src, "config-restore")
    chk.rule("overlap-kernel", "transferMat (abstract run on abstract tensors) is the canonical <bra|ket> transfer step in both directions, ranks, with and without a separate bra", 8)
    from .chain_rules import transfer_rule
    transfer_rule(chk, src, "overlap-kernel")
    chk.rule("entry-gauge", "tangent-space schemes orthonormalise the state (centre at the sweep start) before building environments, for every direction flag; VMF may skip only with overlap matrices", 20)
    entry_gauge_rule(chk, src, "entry-gauge")
    chk.rule("midpoint-reentry", "constant mean field with midpoint environment (abstract runs): the dispatcher is re-entered with half the step in the same time mode, refinements off, configuration restored", 4)
    from .chain_rules import cmf_midpoint_rule
    cmf_midpoint_rule(chk, src, "midpoint-reentry")
    chk.rule("step-doubling", "abstract run of the adaptive TDVP wrapper with scripted error estimates", 3)
    step_doubling_rule(chk, src, "step-doubling", rule_kind="relative-error-homogeneous")
    from .chain_rules import pc_evolver_rule
    from .C19 import tableaux_of_method_list
    pc_evolver_rule(chk, src, "rk-usage", tableaux_of_method_list(src), rule_adaptive="adaptive-reject", rule_error="relative-error-homogeneous", rule_compress="must-compress")


META = {
    "category": "other",
    "engine": "HERM + FLOW + TNA",
    "technique": "abstract interpretation of the evolution schemes: tangent-space schemes run with both local solvers and real / imaginary steps (effective operators as tagged linear maps), propagate-and-compress evolvers in a free algebra of time-ordered operator words with exact complex-rational coefficients against the tableaux proved by C19, adaptive controllers with scripted error estimates, transfer matrices on abstract tensors; typed dataflow for the tree Krylov operands",
    "text": "Clause-only: decides the solver-independence and operator-typing conditions without which the schemes cannot converge to "
            "exp(-iHt) (Hermitian precondition of the Lanczos exponential, equal exponents in both local solvers, correct stage times and "
            "weights, rejected steps discarded, compressed results). Convergence orders and conservation are numerical and not decided."
            ' Adaptive error estimates divide norms of one kind; temporarily modified configurations are saved as copies and restored.'
            ' The two-site schemes cut each bond with the limit configured for that bond (abstract run of the renormalised-basis update).',
    "note": "Operator callables are typed from their constructors (hop_expr*, integrand_func_factory); an untypable operand stops the analysis.",
    "design_ref": "DESIGN.md 3.5, 3.6, 4 (C09); as built: 9.1, 9.3, 9.8",
}
