"""C10 - imaginary time / thermal propagation: closed-form propagator bookkeeping (sibling cross-check of Mps/MpDm.evolve_exact),
thermal exact vs general propagation use the same shifted exponent, imaginary-time solver paths, purification conventions."""
import ast

import sympy as sp

from ..src import AnalysisError, unparse, norm_stmt, walk_no_nested
from . import C09

MPS, MPDM, MPO, THERMAL, TREE = "renormalizer/mps/mps.py", "renormalizer/mps/mpdm.py", "renormalizer/mps/mpo.py", "renormalizer/mps/thermalprop.py", "renormalizer/tn/tree.py"


def reduce_evolve_exact(fi):
    """(propagator args as sympy, name receiving the phase, phase exponent, returned name, how the propagator is applied)"""
    fn = fi.node
    dt, off = sp.Symbol("dt"), sp.Symbol("offset")
    hname, dtname = fi.params()[1], fi.params()[2]
    env = {dtname: dt}

    def ssym(e):
        t = unparse(e).replace(" ", "")
        t2 = t.replace(f"{hname}.offset", "OFFSET")
        e2 = ast.parse(t2, mode="eval").body
        return C09.scalar_sym(e2, {dtname: dt, "OFFSET": off})
    prop = [c for c in ast.walk(fn) if isinstance(c, ast.Call) and unparse(c.func).endswith("exact_propagator")]
    if len(prop) != 1:
        raise AnalysisError(f"{fi.where}: exact_propagator call not found")
    cal = prop[0]
    args = {"x": None, "shift": sp.Integer(0)}
    pos = ["model", "x", "space", "shift"]
    for i, a in enumerate(cal.args):
        if pos[i] in ("x", "shift"):
            args[pos[i]] = ssym(a)
    for k in cal.keywords:
        if k.arg in ("x", "shift"):
            args[k.arg] = ssym(k.value)
    phase = [n for n in ast.walk(fn) if isinstance(n, ast.AugAssign) and isinstance(n.target, ast.Attribute) and n.target.attr == "coeff" and isinstance(n.op, ast.Mult)]
    if len(phase) != 1:
        raise AnalysisError(f"{fi.where}: phase update `X.coeff *= np.exp(...)` not found")
    ph = phase[0]
    if not (isinstance(ph.value, ast.Call) and unparse(ph.value.func) in ("np.exp", "xp.exp")):
        raise AnalysisError(f"{fi.where}: phase is not an np.exp(...)")
    exponent = ssym(ph.value.args[0])
    target = unparse(ph.target.value)
    ret = [unparse(r.value) for r in ast.walk(fn) if isinstance(r, ast.Return)]
    app = [unparse(c) for c in ast.walk(fn) if isinstance(c, ast.Call) and unparse(c.func).endswith(".apply")]
    return args, target, exponent, ret, app, ph.lineno



def _tp_resolver(src):
    """the job stand-ins of the thermal runs take the methods the runs do not replace from the source class"""
    from .chain_rules import class_resolver
    return class_resolver(src, {"ThermalProp": "renormalizer/mps/thermalprop.py"})


def thermal_hamiltonian_rule(chk, src):
    """abstract run of the two propagation paths of ThermalProp: the generator is built from the Hamiltonian the job was asked to use (self.h_mpo),
    which is also the operator the energies (and the energy shift) are computed with"""
    from ..syminterp import SymInterp, Sym, Blob
    TP = "renormalizer/mps/thermalprop.py"
    for qual in ("ThermalProp.evolve_exact", "ThermalProp.evolve_prop"):
        fi = src.func(TP, qual)
        used = []

        class MpoTag(Sym):
            def __call__(self, model, *a, **k):
                used.append(("Mpo", model))
                return Sym("h_mpo", model=model)
        tag = MpoTag("Mpo")
        def _prop():
            p_ = Sym("prop", apply=lambda st, **kw: Sym("new", normalize=lambda kind: None))
            p_.__dict__.update(scale=lambda *a, **k: p_, copy=lambda: p_)
            return p_
        tag.__dict__["exact_propagator"] = lambda model, *a, **k: used.append(("exact_propagator", model)) or _prop()
        from ..syminterp import OpenSym
        it = SymInterp(src, _tp_resolver(src), {"Mpo": tag, "Quantity": lambda x: ("Quantity", x), "np": OpenSym("np", make=lambda t: Blob(t)), "xp": OpenSym("xp", make=lambda t: Blob(t))})
        me = Sym("job", _cls="ThermalProp", **{**src.init_defaults(TP, "ThermalProp"), "h_mpo": Sym("h_mpo", model="<requested model>"), "energies": [Blob("E0"), Blob("E_last")], "space": "GS"})
        state = Sym("old_mpdm", model="<model of the state>", evolve=lambda h, dt: Sym("evolved"))
        it.call_function(fi, [me, state, Blob("dt")])
        ok = len(used) == 1 and used[0][1] == "<requested model>"
        chk.ob("thermal-hamiltonian", qual, ok, fi.where, used, "generator built from self.h_mpo.model", line=fi.node.lineno,
               detail=f"{qual} builds its propagator from {used[0][1] if used else '?'}: when the job is given a Hamiltonian model different from the model the initial state was built with "
                      "(h_mpo_model argument), this path relaxes towards the Gibbs state of another Hamiltonian than the one the energies are computed with")
    # ---- every step is propagated with that step's length and that step's energy shift: two consecutive calls on one job with different steps
    import sympy as sp
    fi = src.func(TP, "ThermalProp.evolve_exact")
    H = sp.Symbol("H")

    class Prop(Sym):
        """exp(exponent) with exponent linear in the symbol H"""
        def __init__(self, exponent, model):
            super().__init__(f"exp({exponent})")
            self.exponent, self.model = exponent, model

        def scale(self, c, inplace=False):
            return Prop(sp.expand(self.exponent + sp.log(c)), self.model)

        def apply(self, st, **kw):
            applied.append(self)
            return Sym("new", normalize=lambda kind: None)

        def copy(self):
            return Prop(self.exponent, self.model)

    class MpoNS(Sym):
        def __call__(self, model, *a, **k):
            return Sym("h_mpo", model=model)
    ns = MpoNS("Mpo")
    ns.__dict__["exact_propagator"] = lambda model, x, space="GS", shift=0.0: Prop(sp.expand(x * (H + shift)), model)
    it = SymInterp(src, _tp_resolver(src), {"Mpo": ns, "Quantity": lambda x: x, "np": Sym("np", exp=sp.exp, iscomplex=lambda x: False), "xp": Sym("xp", exp=sp.exp)})
    e1, e2, t1, t2 = sp.Symbol("E1", real=True), sp.Symbol("E2", real=True), sp.Symbol("t1", positive=True), sp.Symbol("t2", positive=True)
    me = Sym("job", _cls="ThermalProp", h_mpo=Sym("h_mpo", model="<requested model>"), energies=[e1], space="GS", **{k: v for k, v in src.init_defaults(TP, "ThermalProp").items() if k not in ("h_mpo", "energies", "space")})
    state = Sym("old_mpdm", model="<model of the state>")
    applied = []
    it.call_function(fi, [me, state, Sym("dt1", imag=t1)])
    me.energies.append(e2)
    it.call_function(fi, [me, state, Sym("dt2", imag=t2)])
    want = [sp.expand(t1 * (H - e1)), sp.expand(t2 * (H - e2))]
    got = [sp.simplify(sp.expand_log(p.exponent, force=True)) for p in applied]
    ok = len(got) == 2 and all(sp.simplify(g - w) == 0 for g, w in zip(got, want))
    chk.ob("thermal-hamiltonian", "ThermalProp.evolve_exact: two consecutive steps of different length on one job", ok, fi.where, [str(g) for g in got], [str(w) for w in want], line=fi.node.lineno,
           detail="each call must apply exp(x (H - E_last)) with x the imaginary part of *this* call's step and E_last the latest energy: a propagator kept from an earlier call "
                  "re-applies the first step's length, so a cooling schedule with varying steps reaches another temperature than the one it reports")
    pm = src.func(TP, "ThermalProp.process_mps")
    e = [unparse(c).replace(" ", "") for c in ast.walk(pm.node) if isinstance(c, ast.Call) and isinstance(c.func, ast.Attribute) and c.func.attr == "expectation"]
    chk.ob("thermal-hamiltonian", "energies are expectation values of the requested Hamiltonian", any(x.endswith(".expectation(self.h_mpo)") for x in e), pm.where, e, "mps.expectation(self.h_mpo)", line=pm.node.lineno)



def auxiliary_space_rule(chk, src):
    """purification on trees: add_auxiliary_space doubles every physical basis set with an auxiliary copy carrying no quantum number and keeps the topology;
    the state builder addresses the auxiliary degrees of freedom by the same names"""
    from ..syminterp import SymInterp, Sym, OpenSym
    TB = "renormalizer/tn/treebase.py"
    fi = src.func(TB, "BasisTree.add_auxiliary_space")
    copies = []

    class B(Sym):
        def __init__(self, name, dummy=False):
            super().__init__(name)
            self.dofs, self.sigmaqn, self.dummy = f"dofs({name})", f"sigmaqn({name})", dummy

        def copy(self, new_dof):
            c = B(f"copy({self._name})")
            c.dofs = new_dof
            copies.append((self, c))
            return c
    nodes = [Sym("n0", basis_sets=[B("b0"), B("b1")]), Sym("n1", basis_sets=[B("d", dummy=True)]), Sym("n2", basis_sets=[B("b2")])]
    made, conn, trees = [], [], []

    class TreeTag(Sym):
        def __call__(self, root):
            trees.append(root)
            return ("tree", root)
    it = SymInterp(src, None, {"TreeNodeBasis": lambda bs: made.append(list(bs)) or ("node", len(made) - 1), "copy_connection": lambda a, b: conn.append((list(a), list(b))),
                               "BasisTree": TreeTag("BasisTree"), "np": OpenSym("np"), "BasisDummy": "BasisDummy"})
    it.builtins["isinstance"] = lambda x, t: bool(getattr(x, "dummy", False)) if t == "BasisDummy" else False

    class Me(Sym):
        def __iter__(self):
            return iter(nodes)
    me = Me("tree", node_list=nodes)
    out = it.call_function(fi, [me])
    ok = len(made) == 3 and len(made[0]) == 4 and len(made[1]) == 1 and len(made[2]) == 2
    detail_found = [[getattr(b, "_name", b) for b in m] for m in made]
    if ok:
        p0, q0, p1, q1 = made[0]
        ok = p0 is nodes[0].basis_sets[0] and p1 is nodes[0].basis_sets[1] and q0.dofs == ("Q", "dofs(b0)") and q1.dofs == ("Q", "dofs(b1)") \
            and repr(q0.sigmaqn) == "zeros_like('sigmaqn(b0)')" and made[1][0] is nodes[1].basis_sets[0] and made[2][1].dofs == ("Q", "dofs(b2)")
    okc = conn == [(nodes, [("node", 0), ("node", 1), ("node", 2)])] and trees == [("node", 0)]
    chk.ob("purification", "add_auxiliary_space: [P, Q(P)] per physical basis set, dummies kept single, Q without quantum number, same topology", ok and okc, fi.where,
           {"node basis sets": detail_found, "Q dofs": [getattr(c, "dofs", None) for _, c in copies], "Q sigmaqn": [repr(getattr(c, "sigmaqn", None)) for _, c in copies]},
           "P then its auxiliary copy named (label, P.dofs) with zero sigmaqn; connectivity copied from the original node list", line=fi.node.lineno,
           detail="the purified state lives on physical x auxiliary space: an auxiliary index with quantum numbers, a doubled dummy or a different node order breaks the trace over the auxiliary space")
    # name agreement with the state builder
    mx = src.func("renormalizer/tn/utils_eph.py", "max_entangled_ex")
    a = fi.node.args
    default = dict(zip([x.arg for x in a.args[len(a.args) - len(a.defaults):]], [unparse(d) for d in a.defaults])).get(fi.params()[1])
    used = sorted({unparse(n) for n in ast.walk(mx.node) if isinstance(n, ast.Tuple) and len(n.elts) == 2 and isinstance(n.elts[0], ast.Constant) and isinstance(n.elts[0].value, str)
                   and "dofs" in unparse(n.elts[1])})
    skip = [unparse(n).replace(" ", "") for n in ast.walk(mx.node) if isinstance(n, ast.Compare) and "dof[0]" in unparse(n)]
    chk.ob("purification", "max_entangled_ex addresses the auxiliary space by the names add_auxiliary_space creates", default == "'Q'" and used == ["('Q', b.dofs)"] and any(x.endswith("=='Q'") for x in skip), mx.where,
           {"default label": default, "operator dof": used, "skip test": skip}, {"default label": "'Q'", "operator dof": ["('Q', b.dofs)"], "skip test": "b.dof[0] == 'Q'"}, line=mx.node.lineno,
           detail="the excitation operator must act on (P, its own auxiliary copy); a different naming creates the pair on the wrong auxiliary index or raises for a missing degree of freedom")



def imag_copy_rule(chk, src):
    """every evolution scheme starts from a fresh object in imaginary time just as in real time (real time: to_complex() copies; imaginary time must copy explicitly):
    the adaptive wrapper evolves the same input three times per trial and relies on it"""
    n = 0
    for fi in src.funcs_in(MPS):
        if fi.parent is not None or not fi.name.startswith("_evolve_"):
            continue
        for node in ast.walk(fi.node):
            if not (isinstance(node, ast.If) and ("iscomplex" in unparse(node.test) or unparse(node.test) == "imag_time")):
                continue
            for branch, stmts in (("imaginary time", node.body), ("real time", node.orelse)):
                for st in stmts:
                    if isinstance(st, ast.Assign) and len(st.targets) == 1 and isinstance(st.targets[0], ast.Name):
                        v = st.value
                        root = v
                        while isinstance(root, ast.Call) and isinstance(root.func, ast.Attribute):
                            root = root.func.value
                        if not (isinstance(root, ast.Name) and root.id == "self") or (isinstance(v, ast.Attribute)):
                            continue
                        fresh = isinstance(v, ast.Call) and isinstance(v.func, ast.Attribute) and v.func.attr in ("copy", "to_complex", "metacopy")
                        n += 1
                        chk.ob("imag-copy", f"{fi.qual} [{branch}]: {unparse(st)[:50]}", fresh, fi.where, unparse(v)[:60], "self.copy() / self.to_complex()", line=st.lineno,
                               detail=f"{fi.qual} would evolve the caller's state in place in {branch}: the input is overwritten, and the adaptive step-doubling wrapper, which propagates the same "
                                      "input by dt/2, dt/2 and dt, sees three aliases of one object (error estimate 0, every step accepted, total propagation 2*tau)")
    return n


def evolve_exact_rule(chk, src, rule):
    """abstract run of Mps.evolve_exact and MpDm.evolve_exact (helper methods from source) with the propagator constructor and `apply` as recorders and a symbolic step, offset
    and prefactor: the propagator is built for the state's own model with x = -i dt and shift = -offset in the space that was asked for; it is applied from the documented
    side (operator on a state, density operator on the propagator) with canonicalisation; the object returned is the one `apply` produced, its prefactor multiplied by a
    phase so that the offset cancels: x (H + shift) + log(phase) = -i dt H; the input is left alone; both classes use the same x, shift and phase."""
    from ..syminterp import SymInterp, Sym, Blob, OpenSym
    from .chain_rules import class_resolver
    dt, off, H, c0 = sp.Symbol("dt"), sp.Symbol("offset"), sp.Symbol("H"), sp.Symbol("c0")
    resolve = class_resolver(src, {"Mps": MPS, "MpDm": MPDM})

    def ns(x):
        return sp.nsimplify(sp.sympify(x), rational=True)
    red = {}
    for rel, qual, cname in ((MPS, "Mps.evolve_exact", "Mps"), (MPDM, "MpDm.evolve_exact", "MpDm")):
        fi = src.func(rel, qual)
        rec = {"prop": [], "apply": []}

        def exact_propagator(model, x, space="GS", shift=0.0, rec=rec):
            rec["prop"].append({"model": model, "x": x, "space": space, "shift": shift})
            pr = Sym("propagator")
            pr.apply = lambda mp, canonicalise=False, pr=pr: rec["apply"].append(("propagator.apply(state)", mp, canonicalise)) or Sym("result", coeff=c0, tag="result")
            return pr
        me = Sym("state", coeff=sp.Symbol("c_in"), model=Sym("model of the state"))
        me._cls = cname
        me.apply = lambda op, canonicalise=False: rec["apply"].append(("state.apply(propagator)", op, canonicalise)) or Sym("result", coeff=c0, tag="result")
        npx = OpenSym("np", make=lambda t: Blob(t), exp=lambda v: sp.exp(ns(v)))
        it = SymInterp(src, resolve, {"np": npx, "xp": npx, "Mpo": Sym("Mpo", exact_propagator=exact_propagator), "logger": Blob("logger")})
        it.max_depth = 8
        h = Sym("h_mpo", offset=off)
        res = it.call_function(fi, [me, h, dt, "the space asked for"])
        probs = []
        if len(rec["prop"]) != 1:
            probs.append(f"{len(rec['prop'])} propagators built")
        else:
            a = rec["prop"][0]
            x, sh = ns(a["x"]), ns(a["shift"])
            if a["model"] is not me.model:
                probs.append("the propagator is not built for the state's model")
            if a["space"] != "the space asked for":
                probs.append(f"space {a['space']!r}")
            chk.ob(rule, f"{qual}: x = -i dt", sp.simplify(x + sp.I * dt) == 0, fi.where, str(x), "-I*dt", line=fi.node.lineno)
            phase = sp.simplify(getattr(res, "coeff", sp.nan) / c0) if getattr(res, "tag", None) == "result" else None
            if phase is None:
                total = None
            else:
                lg = sp.expand_log(sp.log(phase), force=True)
                total = sp.expand(x * (H + sh) + lg)
            chk.ob(rule, f"{qual}: offset cancels, total exponent = -i dt H", total is not None and sp.simplify(total + sp.I * dt * H) == 0, fi.where, str(total), "-I*dt*H", line=fi.node.lineno,
                   detail=f"{qual}: propagator exp(x(H+shift)) times the phase does not equal exp(-i dt H): the energy shift is not compensated (only visible for non-zero offsets)")
            red[qual] = (x, sh, phase)
        ret_ok = getattr(res, "tag", None) == "result" and me.coeff == sp.Symbol("c_in")
        chk.ob(rule, f"{qual}: phase attached to the returned state", ret_ok, fi.where, {"returned": getattr(res, "_name", res), "input prefactor": str(me.coeff)}, "the object produced by apply; input untouched",
               line=fi.node.lineno, detail=f"{qual} must return the propagated object with the phase on it and leave the input (prefactor included) unchanged")
        want = "propagator.apply(state)" if cname == "Mps" else "state.apply(propagator)"
        ok_app = len(rec["apply"]) == 1 and rec["apply"][0][0] == want and rec["apply"][0][2] is True and \
            (rec["apply"][0][1] is me if cname == "Mps" else getattr(rec["apply"][0][1], "_name", None) == "propagator")
        chk.ob(rule, f"{qual}: propagator applied from the documented side", ok_app and not probs, fi.where, probs or [(a_[0], a_[2]) for a_ in rec["apply"]], want + ", canonicalise=True", line=fi.node.lineno)
    if len(red) == 2:
        a1, a2 = red["Mps.evolve_exact"], red["MpDm.evolve_exact"]
        same = sp.simplify(a1[0] - a2[0]) == 0 and sp.simplify(a1[1] - a2[1]) == 0 and a1[2] is not None and a2[2] is not None and sp.simplify(a1[2] - a2[2]) == 0
        chk.ob(rule, "siblings agree (x, shift, phase)", same, f"{MPS}::Mps.evolve_exact", {"Mps": [str(v) for v in a1], "MpDm": [str(v) for v in a2]}, "identical")


def purification_rule(chk, src, rule):
    """abstract runs of MpDm.from_mps (sites with concrete small shapes; the new four-index arrays record which blocks are written), of the two _get_sigmaqn and of
    max_entangled_gs: every site of the density operator is the state's site on the diagonal of (physical, ancilla) and zero elsewhere, in site order, prefactor, labels
    (as copies), label centre, direction and configuration carried over; the ancilla carries no charge, operator sites carry (q, -q); the infinite-temperature
    vibrational state is from_mps of the maximally entangled state of the same model"""
    from ..syminterp import SymInterp, Sym, Blob, OpenSym, SymRaise
    from .chain_rules import class_resolver
    resolve = class_resolver(src, {"MpDm": MPDM, "Mpo": MPO})
    fm = src.func(MPDM, "MpDm.from_mps")
    shapes = [(1, 2, 3), (3, 3, 2), (2, 2, 1)]

    class Blk(Sym):
        """ms[:, i, :] of site k"""
        def __init__(self, k, i):
            super().__init__(f"site{k}[:, {i}, :]")
            self.k, self.i = k, i

        @property
        def array(self):
            return self

        def copy(self):
            return self

    class MS(Sym):
        def __init__(self, k):
            super().__init__(f"site{k}")
            self.k, self.shape, self.ndim = k, shapes[k], 3

        @property
        def array(self):
            return self

        def __getitem__(self, key):
            if isinstance(key, tuple) and len(key) == 3 and key[0] == slice(None) and key[2] == slice(None) and isinstance(key[1], int) and 0 <= key[1] < self.shape[1]:
                return Blk(self.k, key[1])
            raise AnalysisError(f"site tensor indexed with {key!r}")

    class Grid(Sym):
        def __init__(self, shape):
            super().__init__("new site")
            self.shape, self.writes = tuple(shape), []

        def __setitem__(self, key, v):
            self.writes.append((key, v))
    made = []

    def zeros(shape, dtype=None):
        g = Grid(tuple(shape) if isinstance(shape, (list, tuple)) else (shape,))
        made.append(g)
        return g
    appended = []

    class New(Sym):
        def append(self, x):
            appended.append((x, getattr(self, "model", None)))

    class Lab(Sym):
        def copy(self):
            return Lab(self._name + " (copy)")
    class Cls(Sym):
        def __call__(self):
            return New("new mpdm")
    cls = Cls("MpDm")
    cls._cls = "MpDm"

    class State(Sym):
        def __iter__(self):
            return iter([MS(k) for k in range(3)])

        def __len__(self):
            return 3

        def __getitem__(self, k):
            return MS(k)
    cfg = Sym("compress_config", copy=lambda: Sym("compress_config (copy)"))
    mps = State("mps", model="the model", coeff="the prefactor", optimize_config="optimize_config", evolve_config="evolve_config", qn=[Lab(f"qn{b}") for b in range(4)], qntot="qntot", qnidx=2,
                to_right=False, compress_config=cfg, site_num=3)
    npx = OpenSym("np", make=lambda t: Blob(t), zeros=zeros)
    it = SymInterp(src, resolve, {"np": npx, "xp": npx, "logger": Blob("logger")})
    it.max_depth = 8
    probs = []
    try:
        res = it.call_function(fm, [cls, mps])
    except SymRaise as e:
        res = None
        probs.append(f"raises {e}")
    if res is not None:
        if len(appended) != 3:
            probs.append(f"{len(appended)} sites appended")
        for k, (g, model) in enumerate(appended[:3]):
            a, p_, b_ = shapes[k]
            if model != "the model":
                probs.append(f"site {k} appended before the model is set")
            if not isinstance(g, Grid) or g.shape != (a, p_, p_, b_):
                probs.append(f"site {k}: array of shape {getattr(g, 'shape', g)}; expected {(a, p_, p_, b_)}")
                continue
            got = {}
            for key, v in g.writes:
                if not (isinstance(key, tuple) and len(key) == 4 and key[0] == slice(None) and key[3] == slice(None) and isinstance(key[1], int) and isinstance(key[2], int)):
                    probs.append(f"site {k}: block written at {key!r}")
                    continue
                got[(key[1], key[2])] = (getattr(v, "k", None), getattr(v, "i", None))
            want = {(i_, i_): (k, i_) for i_ in range(p_)}
            if got != want:
                probs.append(f"site {k}: blocks {got}; expected the state's block i at (physical i, ancilla i) for every i: {want}")
        if getattr(res, "coeff", None) != "the prefactor":
            probs.append("the prefactor is not carried over")
        qn = getattr(res, "qn", None)
        if not (isinstance(qn, list) and [getattr(x, "_name", None) for x in qn] == [f"qn{b} (copy)" for b in range(4)]):
            probs.append(f"labels {qn!r}; expected copies of the state's labels in order")
        if (getattr(res, "qntot", None), getattr(res, "qnidx", None), getattr(res, "to_right", None)) != ("qntot", 2, False):
            probs.append("total charge / label centre / direction not carried over")
        if getattr(getattr(res, "compress_config", None), "_name", None) != "compress_config (copy)":
            probs.append("the compression configuration is shared with (or missing from) the source state")
    chk.ob(rule, "from_mps: diagonal embedding of the physical index, bookkeeping carried over", not probs, fm.where, probs[:3] or "diagonal", "site k = state's site k on the (physical, ancilla) diagonal",
           line=fm.node.lineno, detail="the purified state must be sum_i |i>_phys |i>_anc x (state block i): an off-diagonal or missing block changes the represented density operator: " + (probs[0] if probs else ""))
    # ---- site quantum numbers
    for rel, qual, cname in ((MPDM, "MpDm._get_sigmaqn", "MpDm"), (MPO, "Mpo._get_sigmaqn", "Mpo")):
        fi = src.func(rel, qual)

        class Up(Sym):
            def __neg__(self):
                return Sym("-up")
        me = Sym("operator", model=Sym("model", basis=[Sym(f"basis{q}", sigmaqn=Up(f"up{q}")) for q in range(3)]))
        me._cls = cname
        npq = OpenSym("np", make=lambda t: Blob(t), zeros_like=lambda x: Sym("zeros_like(up)"), zeros=lambda *a, **k_: Sym("zeros_like(up)"))
        it2 = SymInterp(src, resolve, {"np": npq, "add_outer": lambda a_, b_: ("outer", getattr(a_, "_name", a_), getattr(b_, "_name", b_))})
        r = it2.call_function(fi, [me, 1])
        want = ("outer", "up1", "zeros_like(up)") if cname == "MpDm" else ("outer", "up1", "-up")
        chk.ob(rule, qual, r == want, fi.where, repr(r), repr(want), line=fi.node.lineno,
               detail="site quantum numbers of a density-operator site: physical index carries the charge, the ancilla none; operator sites carry (row charge, -column charge)")
    # ---- infinite-temperature vibrational state
    mg = src.func(MPDM, "MpDm.max_entangled_gs")
    log = []

    class Cls2(Sym):
        def from_mps(self, m):
            log.append(("from_mps", m))
            return "the density operator"
    c2 = Cls2("MpDm")
    c2._cls = "MpDm"
    it3 = SymInterp(src, None, {"Mps": Sym("Mps", ground_state=lambda model, max_entangled=False, **k_: ("ground_state", model, max_entangled)), "np": npx})
    r = it3.call_function(mg, [c2, "the model"])
    chk.ob(rule, "max_entangled_gs = from_mps(maximally entangled vibrational state)", r == "the density operator" and log == [("from_mps", ("ground_state", "the model", True))], mg.where,
           {"returns": r, "from_mps of": [x[1] for x in log]}, "from_mps(Mps.ground_state(model, max_entangled=True))", line=mg.node.lineno)


def run(chk):
    src = chk.src
    chk.explanation = (
        "Decides structural clauses of C10: (1) the closed-form propagator: Mps.evolve_exact and MpDm.evolve_exact build the same bond-"
        "dimension-one propagator exp(x (H + shift)) with x = -i dt, shift = -offset, attach the compensating phase exp(-i offset dt) to the "
        "*returned* object, and the offset cancels exactly in the total exponent (symbolic); exact_propagator applies its scalar shift "
        "exp(shift x) once and exponentiates the displaced-oscillator block as V exp(x w) V^T; (2) ThermalProp.evolve_exact and evolve_prop "
        "propagate with the same shifted exponent -tau (H - E_last); (3) imaginary-time branches of the local solver pairs integrate "
        "equal exponents (shared with C09) and evolve() normalises state and prefactor for complex steps; (4) purified states embed the "
        "state on the diagonal and give the ancilla index no charge. Not decided: that expectation values equal Gibbs averages (numerical).")
    chk.assumptions = ["Mpo(model, offset=E) represents H - E (C01 offset-sign rule)", "exact_propagator(model, x, space, shift) documents exp(x (H + shift))"]
    chk.rule("evolve-exact-siblings", "Mps / MpDm.evolve_exact: same propagator arguments, phase on the returned object, offset cancels in the total exponent", 8)
    chk.rule("exact-propagator", "exact_propagator: scalar shift applied once as exp(shift*x); matrix exponential by eigendecomposition is V diag(exp(x w)) V^T; GS block is exp(x omega n)", 4)
    chk.rule("thermal-siblings", "ThermalProp.evolve_exact and evolve_prop apply the same shifted exponent to the previous state (abstract run)", 2)
    from . import tree_rules as TR
    TR.time_decoding(chk, src)
    chk.rule("imag-copy", "evolution schemes work on a fresh object in both time modes", 4)
    imag_copy_rule(chk, src)
    from .chain_rules import tdvp_bookkeeping_rule
    tdvp_bookkeeping_rule(chk, src, rule_input="imag-copy")       # the same clause decided by the abstract runs of the tangent-space schemes (events: no store into the input)
    chk.rule("thermal-hamiltonian", "both thermal propagation paths and the energy bookkeeping use the Hamiltonian the job was given", 3)
    thermal_hamiltonian_rule(chk, src)
    chk.rule("solver-sibling", "abstract runs of the tangent-space schemes with both local solvers in imaginary time: call by call the same real exponent -tau/2 (-tau) H_k", 6)
    chk.rule("imag-normalise", "evolve(): complex (imaginary) step => state and prefactor normalised; real step => tensors only (abstract run of both dispatchers)", 8)
    chk.rule("purification", "MpDm.from_mps embeds the state diagonally; ancilla carries no quantum number; operator sites carry (q, -q); tree auxiliary space", 6)
    auxiliary_space_rule(chk, src)
    evolve_exact_rule(chk, src, "evolve-exact-siblings")
    H = sp.Symbol("H")
    # ---- exact_propagator: abstract run in a matrix-expression domain (chain_rules.exact_propagator_rule)
    from .chain_rules import exact_propagator_rule
    exact_propagator_rule(chk, src, "exact-propagator")
    # ---- the displaced-oscillator coupling used by the EX block is the model's (shared rule with C16)
    from . import C16
    C16.holstein_rule(chk, src)
    # ---- thermal siblings: abstract run of both propagation paths for a step dt = -i tau; both must apply exp(-tau (H - E_last)) to the previous state
    te = src.func(THERMAL, "ThermalProp.evolve_exact")
    tp = src.func(THERMAL, "ThermalProp.evolve_prop")
    from ..syminterp import SymInterp, Sym, OpenSym, Blob
    tau, E = sp.Symbol("tau", positive=True), sp.Symbol("E", real=True)
    ex_want = sp.expand(-tau * (H - E))
    applied = []

    class _Prop(Sym):
        def __init__(self, exponent):
            super().__init__(f"exp({exponent})")
            self.exponent = exponent

        def scale(self, c, inplace=False):
            return _Prop(sp.expand(self.exponent + sp.log(c)))

        def copy(self):
            return _Prop(self.exponent)

        def apply(self, st, **kw):
            applied.append(("apply", st, self.exponent))
            return Sym("new", normalize=lambda kind: None)

    class _MpoNS(Sym):
        def __call__(self, model, terms=None, offset=None, **k):
            return Sym("operator", model=model, expr=H - (offset if offset is not None else 0), terms=terms)
    ns = _MpoNS("Mpo")
    ns.__dict__["exact_propagator"] = lambda model, x, space="GS", shift=0.0: _Prop(sp.expand(x * (H + shift)))
    dt = Sym("dt", imag=-tau, real=0, value=-sp.I * tau)

    def evolve(h, d, *a, **k):
        applied.append(("evolve", state, sp.expand(-sp.I * (d.value if isinstance(d, Sym) else d) * h.expr) if getattr(h, "terms", None) is None else "operator built from a term subset"))
        return Sym("evolved")
    state = Sym("old_mpdm", model="<model of the state>", evolve=evolve)
    for fi_, label in ((te, "evolve_exact"), (tp, "evolve_prop")):
        applied.clear()
        it = SymInterp(src, _tp_resolver(src), {"Mpo": ns, "Quantity": lambda x, *a: x, "np": Sym("np", exp=sp.exp, iscomplex=lambda x: False), "xp": Sym("xp", exp=sp.exp)})
        me = Sym("job", _cls="ThermalProp", **{**src.init_defaults(THERMAL, "ThermalProp"), "h_mpo": Sym("h_mpo", model="<requested model>"), "energies": [sp.Symbol("E_first"), E], "space": "GS"})
        it.call_function(fi_, [me, state, dt])
        got = [(k, st is state, (sp.simplify(sp.expand_log(ex, force=True)) if isinstance(ex, sp.Expr) else ex)) for k, st, ex in applied]
        ok = len(got) == 1 and got[0][1] and isinstance(got[0][2], sp.Expr) and sp.simplify(got[0][2] - ex_want) == 0
        chk.ob("thermal-siblings", f"{label}: applies exp(-tau (H - E_last)) to the previous state", ok, fi_.where, [(k, "previous state" if s_ else "another object", str(x)) for k, s_, x in got],
               f"exp({ex_want}) applied to the previous state", line=fi_.node.lineno,
               detail="the exact path (x = Im(dt) = -tau, shift = -E_last) and the general path (H - E_last evolved by dt = -i tau) must apply the same operator: the latest energy is the shift of both")
    # ---- imaginary-time solver pairs (same abstract runs as C09, imaginary rows only)
    from .chain_rules import tdvp_solver_rule
    tdvp_solver_rule(chk, src, "solver-sibling", None, imag_only=True)
    chk.rule("midpoint-reentry", "constant mean field with midpoint environment (abstract runs): the dispatcher is re-entered with half the step in the same time mode, refinements off, configuration restored", 4)
    from .chain_rules import cmf_midpoint_rule
    cmf_midpoint_rule(chk, src, "midpoint-reentry")
    # ---- normalisation in evolve: abstract run of the two dispatchers with the scheme stubbed, for a real and an imaginary step, normalize on / off
    from ..syminterp import SymInterp, Sym, Blob, SymDict
    for rel, qual in ((MPS, "Mps.evolve"), (TREE, "TTNS.evolve")):
        fi = src.func(rel, qual)
        for imag in (True, False):
            for normalize in (True, False):
                calls = []
                new = Sym("evolved")
                new.__dict__["normalize"] = lambda kind, calls=calls, new=new: calls.append(kind) or new
                scheme = lambda *a, **k: new     # noqa: E731
                names = ("prop_and_compress", "prop_and_compress_tdrk4", "prop_and_compress_tdrk", "tdvp_mu_vmf", "tdvp_vmf", "tdvp_mu_cmf", "tdvp_ps", "tdvp_ps2")
                cfg = Sym("evolve_config", method="tdvp_ps")
                me = Sym("self", evolve_config=cfg, copy=lambda: Sym("copy"), to_complex=lambda *a, **k: Sym("complex copy"), **{f"_evolve_{n}": scheme for n in names})
                me.__dict__["_evolve_tdvp_mu_vmf"] = scheme
                dt = Sym("dt", imag=Blob("tau"), real=Blob("t"), is_imag=imag)
                it = SymInterp(src, None, {"np": Sym("np", iscomplex=lambda x: bool(getattr(x, "is_imag", False))), "EvolveMethod": Sym("EvolveMethod", **{n: n for n in names}),
                                           "EVOLVE_METHODS": SymDict(lambda k: scheme), "logger": Blob("logger")})
                res = it.call_function(fi, [me, Sym("operator"), dt], {"normalize": normalize})
                want = ([("mps_and_coeff" if imag else "mps_only")] if normalize else [])
                chk.ob("imag-normalise", f"{qual}[{'imaginary' if imag else 'real'} step, normalize={normalize}]", calls == want and res is new, fi.where,
                       {"normalize calls": calls, "returns the scheme's result": res is new}, {"normalize calls": want, "returns the scheme's result": True}, line=fi.node.lineno,
                       detail="imaginary-time steps change the norm: state and prefactor are normalised together; a real-time step only renormalises the tensors (the prefactor carries the phase)")
    # ---- purification: abstract runs
    purification_rule(chk, src, "purification")


META = {
    "category": "other",
    "engine": "EFFECT/FLOW (sibling cross-check, symbolic exponents)",
    "technique": "abstract interpretation with recorder stand-ins and symbolic step / offset / prefactor (closed-form propagators, thermal paths, imaginary-time halves of the tangent-space runs, midpoint re-entry, purification on sites with concrete small shapes); matrix-expression domain for exact_propagator",
    "text": "Clause-only: decides the energy-shift / phase bookkeeping of the closed-form propagator (exercised by no test because offsets are zero "
            "there), the agreement of the exact and the general thermal paths, and the imaginary-time halves of the local solver pairs. That "
            "thermal expectation values equal Gibbs averages is numerical and not decided."
            ' Both thermal propagation paths build their generator from the Hamiltonian the job was given (abstract run); the tree auxiliary space is [P, Q(P)] with zero quantum numbers and consistent names.',
    "note": "In-place effects of evolve_exact on its input are decided under C13 (EFFECT); here the phase target is compared with the returned name.",
    "design_ref": "DESIGN.md 3.1 (sibling cross-check), 3.5, 4 (C10); as built: 9.1, 9.3, 9.8",
}
