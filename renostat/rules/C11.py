"""C11 - tree tensor network states behave as dense vectors for every topology: label schema, contraction networks, decompositions, sums, sweeps."""
from . import tree_rules as TR


def run(chk):
    src = chk.src
    chk.explanation = (
        "Decides the index bookkeeping on which every TTNS operation rests, for symbolic trees of arity 0-3 with 1-3 physical indices per node and "
        "with partial operators: (1) the label producers implement one schema (bond labels agree from both ends and from the environments; "
        "axis order children, physical, parent; ket = down, bra = up); (2) every contraction assembled by the environments, merge_to_parent, "
        "TTNO.apply, todense, expectation1 and the one-/two-site RDMs pairs each tensor with the labels of its own axes, joins every index to "
        "the matching index of the neighbouring tensor, contains exactly the tensors of the intended network, and produces the documented "
        "output order; (3) every blocked QR/SVD gets row/column symmetry labels in the order of the matrix it was reshaped to, factors are "
        "restored to the node's axis order for every child position, new-bond labels are stored on the correct side, the kept-count is read "
        "for the right bond; (4) addition is a direct sum on bond axes only; (5) the compression sweep truncates every bond once at the gauge "
        "centre. Independence of the order of children follows from (1)-(3) holding for every child position. Numerical equality with dense "
        "vectors is not decided.")
    chk.assumptions = ["svd_qn(matrix, row labels, column labels, qntot) is correct given labels that match rows/columns (C05/C06 decide its internals)",
                       "opt_einsum semantics of named indices; symbolic trees cover the shape-dependent branches of the code"]
    TR.label_schema(chk, src)
    TR.environment_networks(chk, src)
    TR.state_networks(chk, src, which=("merge", "apply", "todense_s", "expectation1", "rdm1", "rdm2"))
    TR.decomposition_axes(chk, src)
    TR.dof_rdm(chk, src)
    TR.direct_sum(chk, src)
    TR.compress_sweep(chk, src)
    TR.compress_precondition(chk, src)
    TR.must_update(chk, src)
    TR.chain_conversion(chk, src)
    if chk.tier == "thorough":
        TR.environment_networks(chk, src, topologies=("binary", "star", "two"))
        TR.state_networks(chk, src, topologies=("binary", "star", "two"), which=("merge", "apply", "todense_s", "expectation1", "rdm1", "rdm2"))
        TR.decomposition_axes(chk, src, topologies=("binary", "star", "two"))


META = {
    "category": "other",
    "engine": "LABEL (symbolic interpreter on symbolic trees)",
    "technique": "abstract interpretation of label producers and contraction-assembling code on symbolic trees; network well-formedness by leg-identity/label bijection; symbolic reshape/moveaxis/label-order tracking through the decompositions; gauge-centre typestate",
    "text": "Decides that the named-index and axis bookkeeping of the tree code is self-consistent and matches the documented conventions on a set of symbolic "
            "topologies covering every shape-dependent branch (arities, child positions, multi-basis nodes, partial operators): all contraction networks, "
            "all decompositions, addition and the compression sweep. Values (norms, entropies, dense equality) are not decided.",
    "note": "Entropy formulas (functions of the RDM values) are not analysed.",
    "design_ref": "DESIGN.md 3.3, 4 (C11); as built: 9.1, 9.3, 9.8",
}
