"""C12 - tree time evolution: effective-Hamiltonian networks, sweep typestate (fresh environments, gauge centre, splitting), VMF packing, Krylov precondition."""
from . import tree_rules as TR
from .C09 import krylov_rule

TEVO = TR.TEVO


def run(chk):
    src = chk.src
    chk.explanation = (
        "Decides the structural conditions under which the tree evolution schemes propagate with the right generator: (1) hop_expr0/1/2 are the "
        "networks <environments| operator(s) |environments> with the trial tensor on the ket labels in the axis order the solvers pass in and "
        "the result on the matching bra labels, for every node of symbolic trees incl. partial operators; (2) an abstract run of the one- and "
        "two-site projector-splitting sweeps on six symbolic topologies shows that every environment read by a local solver was rebuilt after "
        "the last change of every tensor it contains, every local problem is solved at the gauge centre, bond matrices are passed in the "
        "orientation hop_expr0 / merge_to_* expect, and that each half-sweep realises the projector splitting exactly once with tau/2 and the "
        "right signs; (3) the VMF state vector is packed, differentiated and unpacked in one node order with the node's own mask; (4) the operand "
        "of every expm_krylov call is a real multiple of a Hermitian operator for real and imaginary time; (5) the two-site update reads the "
        "truncation limit of the bond it truncates. Error orders and conservation laws themselves are numerical and not decided.")
    chk.assumptions = ["environment tensors have axes (bra, operator, ket) - produced that way by TTNEnviron (C11 env-network)",
                       "expm_krylov / solve_ivp contracts (C18 / C19)"]
    TR.label_schema(chk, src, which=("E",))
    TR.heff_networks(chk, src)
    TR.sweep_typestate(chk, src)
    TR.pack_unpack(chk, src)
    TR.time_decoding(chk, src)
    TR.state_networks(chk, src, which=("apply",))   # the propagation-and-compression scheme builds its stages with TTNO.apply / contract
    chk.rule("krylov-hermitian", "operand of expm_krylov is a real multiple of a Hermitian operator for every time mode", 3)
    krylov_rule(chk, src, "krylov-hermitian", [TEVO])
    TR.decomposition_axes(chk, src, topologies=("generic",))
    chk.rule("local-step", "evolve_0site / 1site / 2site (abstract runs with recorders, several shapes of the local tensor incl. single numbers): one Krylov exponential of coeff * tau * H_eff of the "
             "right kind, on the flattened local tensor, with the matrix-vector product in the tensor's shape", 8)
    TR.local_step_rule(chk, src, "local-step")
    TR.regularized_inversion_rule(chk, src, "pack-unpack")
    if chk.tier == "thorough":
        TR.heff_networks(chk, src, topologies=("binary", "star", "two"))


META = {
    "category": "other",
    "engine": "LABEL + typestate (symbolic interpreter on symbolic trees) + HERM typing",
    "technique": "abstract interpretation of the sweep drivers on symbolic trees with a version/signature typestate for environments and a gauge-centre typestate; leg-identity/label bijection for the effective-Hamiltonian networks; Hermiticity typing of solver operands",
    "text": "Decides that the tree evolution code never reads a stale environment, always solves local problems at the gauge centre with the correct "
            "effective-Hamiltonian network, realises the projector splitting exactly (each term once, tau/2, correct sign) on every symbolic topology, and "
            "keeps the VMF vector layout consistent. Accuracy (error order), norm/energy conservation values and agreement with the chain code are not decided."
            " The local propagation steps (zero-, one- and two-site) are run with recorders for several shapes of the local tensor, single numbers included: one Krylov exponential of coeff * tau * H_eff on the local tensor.",
    "note": "The backward half-sweep of the one-site scheme visits children in the same order as the forward half (not mirrored); this affects only the order of the "
            "splitting error at truncated bond dimension, which the property does not constrain, and is reported as a note.",
    "design_ref": "DESIGN.md 3.3, 3.4, 4 (C12); as built: 9.1, 9.3, 9.8",
}
