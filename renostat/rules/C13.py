"""C13 - operations return new objects and never disturb their inputs: EFFECT inference + copy-family completeness."""
import ast

from ..src import AnalysisError, unparse, norm_stmt
from .. import effect as E

SCOPE = [
    "renormalizer/mps/mp.py", "renormalizer/mps/mps.py", "renormalizer/mps/mpo.py", "renormalizer/mps/mpdm.py",
    "renormalizer/mps/lib.py", "renormalizer/mps/gs.py", "renormalizer/mps/thermalprop.py", "renormalizer/mps/matrix.py",
    "renormalizer/mps/tda.py", "renormalizer/mps/hop_expr.py",
    "renormalizer/tn/tree.py", "renormalizer/tn/time_evolution.py", "renormalizer/tn/gs.py", "renormalizer/tn/utils_eph.py",
    "renormalizer/tn/node.py", "renormalizer/tn/treebase.py", "renormalizer/tn/hop_expr.py",
    "renormalizer/utils/tdmps.py", "renormalizer/utils/configs.py", "renormalizer/model/model.py",
]
THOROUGH_EXTRA = [
    "renormalizer/cv/zerot.py", "renormalizer/cv/finitet.py", "renormalizer/cv/spectra_cv.py",
    "renormalizer/spectra/base.py", "renormalizer/spectra/exact.py", "renormalizer/spectra/finitet.py", "renormalizer/spectra/zerot.py",
    "renormalizer/transport/dynamics.py", "renormalizer/transport/kubo.py", "renormalizer/transport/spectral_function.py",
    "renormalizer/sbm/sbm.py", "renormalizer/sbm/lib.py", "renormalizer/vibronic/vibronic.py", "renormalizer/vibration/vscf.py",
    "renormalizer/property/property.py",
]
STATE_CLASSES = ["MatrixProduct", "Mps", "Mpo", "MpDm", "TTNBase", "TTNS", "TTNO"]
# parameters that carry a state / operator although they have no annotation (name -> reason)
STATE_PARAM_NAMES = {"mps", "mpo", "mp", "other", "mpdm", "ttns", "ttno", "tn", "guess", "hint_mpo", "bra", "ket_mps", "bra_mps", "h_mpo",
                     "old_mpdm", "init_mpdm", "mps_conj", "self_conj", "template", "mps_list", "mpos", "ex_mps", "init_mps"}
# functions in which the named parameter is an internal work object by contract (documented in DESIGN.md 3.1)
INTERNAL_WORK = {
    ("renormalizer/tn/time_evolution.py", "evolve_tdvp_ps", "ttns"): "internal registry evolver: receives the private copy made by TTNS.evolve (which is what the rule demands of TTNS.evolve)",
    ("renormalizer/tn/time_evolution.py", "evolve_tdvp_ps2", "ttns"): "same",
    ("renormalizer/tn/time_evolution.py", "evolve_prop_and_compress_tdrk4", "ttns"): "same",
    ("renormalizer/tn/time_evolution.py", "_tdvp_ps_forward", "ttns"): "sweep helper of evolve_tdvp_ps",
    ("renormalizer/tn/time_evolution.py", "_tdvp_ps_backward", "ttns"): "sweep helper of evolve_tdvp_ps",
    ("renormalizer/tn/time_evolution.py", "_tdvp_ps2_recursion_forward", "ttns"): "sweep helper of evolve_tdvp_ps2",
    ("renormalizer/tn/time_evolution.py", "_tdvp_ps2_recursion_backward", "ttns"): "sweep helper of evolve_tdvp_ps2",
    ("renormalizer/tn/gs.py", "optimize_recursion", "ttns"): "sweep helper of optimize_ttns (documented to optimise its ttns in place)",
    ("renormalizer/tn/gs.py", "optimize_2site", "ttns"): "helper of optimize_ttns",
    ("renormalizer/mps/gs.py", "single_sweep", "mps"): "sweep helper of optimize_mps ('The MPS is overwritten')",
    ("renormalizer/mps/lib.py", "_sum", "mps_list"): "private helper of compressed_sum: functools.reduce over a ONE-element list returns that element, which _sum then canonicalises and "
                                                     "compresses in place; it is analysed through its caller, which must prove that every batch holds at least two terms "
                                                     "(EFFECT derives that fact from the reduction-queue loop; without it the caller is reported)",
}
# one narrow suppression keyed by origin (function, statement with local names abstracted to _1, _2, ...); the key changes with the statement's
# structure, so an edit is re-triaged, but a mere renaming of locals is not
ORIGIN_SUPPRESS = {
    "Mps._evolve_prop_and_compress: _1.scale((-1j * evolve_dt) ** _2 * _3[_2], inplace=True)":
        "termlist[0] is self and is scaled by (-i dt)**0 * c[0] with c[0] = 1/0! = 1 (TaylorExpansion.coeff, proved by C19's `taylor` rule); "
        "MatrixProduct.scale takes the real branch for 1+0j, so the represented state of self is unchanged; every other term is a fresh contract() result",
}


def build_engine(src, tier):
    mods = list(SCOPE) + (THOROUGH_EXTRA if tier == "thorough" else [])
    eng = E.Engine(src, mods, STATE_CLASSES, doc_pairs=set(INTERNAL_WORK))
    eng.seed_all()
    eng.solve()
    return eng


def is_state_param(src, fi, i, pname, node_arg):
    if i == 0 and fi.cls is not None and pname == "self":
        names = {c.name for c in src.mro(fi.cls)}
        return bool(names & set(STATE_CLASSES))
    if node_arg is not None and node_arg.annotation is not None:
        an = unparse(node_arg.annotation)
        for sc in STATE_CLASSES:
            if sc in an:
                return True
    return pname in STATE_PARAM_NAMES


def run(chk):
    src = chk.src
    chk.explanation = (
        "Decides C13 for the analysed API surface by effect inference: for every function of the chain/tree state, operator, "
        "density-operator, library, optimiser and evolution modules, and every parameter that carries a state or operator, the "
        "inferred effect on that object is at most GAUGE (representation changes that preserve tensors x prefactor by contract) "
        "unless the function is a documented mutator of that parameter; results of state-producing functions do not alias a "
        "parameter unless documented to return it; copy/metacopy assign every __init__ attribute and every mutable one from a "
        "fresh expression. Summaries are computed by a flow-sensitive (locals) may-alias dataflow iterated to a fixpoint over the "
        "call graph, with `inplace` specialisation and the prefactor-fold idiom. Findings are keyed by root cause. Not modelled: "
        "exceptions between add_child(self.root) and its undo in TTNS.expectation; that GAUGE operations really preserve the vector "
        "(C04's business).")
    chk.assumptions = ["numpy / scipy / opt_einsum functions are pure except the listed in-place ones (np.place, np.copyto, ...)",
                       "canonicalise / ensure_*_canonical / move_qnidx / to_complex(inplace) preserve the represented object (GAUGE contract)",
                       "documented mutators (table DOC_MUTATORS) may change their receiver"]
    chk.rule("effect-bound", "effect of f on state-carrying parameter p is <= GAUGE unless f is a documented mutator of p (one finding per root cause)", 300)
    chk.rule("fresh-result", "a state-producing API function does not return (an alias of) one of its parameters unless documented", 55)
    chk.rule("copy-complete", "metacopy assigns every attribute __init__ assigns; mutable attributes from fresh expressions; copy() copies every tensor/label", 60)
    chk.rule("resolution", "no call on a tracked state object is left unresolved (unresolved = treated as may-mutate)", 1)
    chk.table("documented_mutators", {k: sorted(map(str, v)) for k, v in E.DOC_MUTATORS.items()})
    chk.table("conf_attrs", E.CONF_ATTRS)
    chk.table("gauge_attrs", E.GAUGE_ATTRS)
    chk.table("returns_arg_ok", sorted(E.RETURNS_ARG_OK))
    chk.table("internal_work_params", {f"{k[0]}::{k[1]}[{k[2]}]": v for k, v in INTERNAL_WORK.items()})

    eng = build_engine(src, chk.tier)
    chk.extra["effect_engine"] = {"modules": len(eng.modules), "summaries": len(eng.summ), "function_visits": eng.visits,
                                  "external_calls_with_tracked_args": eng.external_tracked}
    # ---------------------------------------------------------------- effect-bound
    by_origin = {}
    n_pairs = 0
    for (rel, qual, inplace, bind), s in sorted(eng.summ.items(), key=lambda kv: (kv[0][0], kv[0][1], str(kv[0][2]), str(kv[0][3]))):
        fi = src.func(rel, qual)
        if fi.parent is not None and bind is None:
            continue
        if bind is not None:
            # wrapper specialisation: report under the wrapped function's name
            wrapped = src.find_func(rel, bind[0][1])
            label = f"{wrapped.qual}[via {qual}]" if wrapped is not None else qual
        else:
            label = qual
        a = fi.node.args
        allp = a.posonlyargs + a.args
        for i, p in enumerate(allp):
            if not is_state_param(src, fi, i, p.arg, p):
                continue
            mut = E.DOC_MUTATORS.get(fi.name, set())
            documented = (i in mut) or (p.arg in mut)
            if fi.name in E.INPLACE_MUTATORS and i == 0 and inplace is not False:
                documented = True
            if (rel, qual, p.arg) in INTERNAL_WORK:
                documented = True
            if fi.name.startswith("__") and fi.name in ("__init__", "__setitem__", "__del__", "__iadd__"):
                documented = True
            private = fi.name.startswith("_") and not fi.name.startswith("__")
            lvl, why = s.eff.get(i, (E.NONE, None))
            key = f"{label}[{p.arg}]" + (f"[inplace={inplace}]" if inplace is not None else "")
            n_pairs += 1
            if documented or private or lvl <= E.GAUGE:
                # the property quantifies over the public operations: what a private helper does to its parameter is judged where a public function hands it one of its
                # own inputs (the effect is propagated to that caller's parameter by the engine)
                chk.ob("effect-bound", key, True, fi.where, E.LEVEL[lvl] + ((" (documented mutator)" if documented else " (private helper: judged through its public callers)") if lvl > E.GAUGE else ""),
                       "<= GAUGE", line=fi.node.lineno)
            else:
                for w in s.origins(i):
                    by_origin.setdefault(w.key(), []).append((key, fi, w))
    chk.table("origin_suppressions", ORIGIN_SUPPRESS)
    for okey, items in sorted(by_origin.items()):
        why = items[0][2]
        if why.akey() in ORIGIN_SUPPRESS:
            chk.ob("effect-bound", okey + " [suppressed]", True, f"{why.rel}::{why.qual}", "VALUE (suppressed with reason)", "<= GAUGE", line=why.line,
                   detail=ORIGIN_SUPPRESS[why.akey()])
            continue
        via = sorted({k for k, _, _ in items})
        chk.ob("effect-bound", okey, False, f"{why.rel}::{why.qual}", "VALUE", "<= GAUGE", line=why.line,
               detail=f"{why.what}: `{why.stmt}` changes the represented state of an input object; reached via API "
                      f"functions/parameters {via[:8]}{' ...' if len(via) > 8 else ''}"
                      + (f"; call chain: {' <- '.join(why.chain)}" if why.chain else ""))
    chk.extra["api_function_parameter_pairs"] = n_pairs
    # ---------------------------------------------------------------- fresh-result
    PRODUCERS = {"copy", "metacopy", "conj", "conj_trans", "add", "apply", "contract", "evolve", "evolve_exact", "from_mps", "from_tensors",
                 "expand_bond_dimension", "expand_bond_dimension_general", "compressed_sum", "variational_compress",
                 "__add__", "__sub__", "__matmul__", "__mul__", "__rmul__", "calc_bond_singular_values", "max_entangled_ex",
                 "max_entangled_gs", "evolve_tdvp_vmf", "optimize_mps", "evolve_prop", "evolve_single_step"}
    for (rel, qual, inplace, bind), s in sorted(eng.summ.items(), key=lambda kv: (kv[0][0], kv[0][1], str(kv[0][2]), str(kv[0][3]))):
        fi = src.func(rel, qual)
        if fi.parent is not None and bind is None:
            continue
        name = fi.name if bind is None else bind[0][1].split(".")[-1]
        if not (name in PRODUCERS or name.startswith("_evolve_")):
            continue
        if name in E.RETURNS_ARG_OK and inplace is not False:
            continue
        a = fi.node.args
        allp = a.posonlyargs + a.args
        alias = []
        for t in s.ret:
            r = E.root_of(t)
            if r[0] != "P":
                continue
            pth = E.path_of(t)
            if pth and not (len(pth) == 1 and pth[0] == "[]"):
                continue   # a sub-object (config, array), not the state itself
            i = r[1]
            if i < len(allp) and is_state_param(src, fi, i, allp[i].arg, allp[i]):
                if name == "variational_compress" and allp[i].arg == "guess":
                    continue  # documented: "guess is overwritten" and returned
                if name == "optimize_mps":
                    continue
                alias.append(allp[i].arg + ("[element]" if pth else ""))
        label = qual if bind is None else f"{bind[0][1]}[via {qual}]"
        key = label + (f"[inplace={inplace}]" if inplace is not None else "")
        chk.ob("fresh-result", key, not alias, fi.where, f"may return its parameter(s) {sorted(set(alias))}" if alias else "fresh", "fresh object",
               line=fi.node.lineno,
               detail=f"{label} may return an alias of its input {sorted(set(alias))}: a later in-place change of the result changes the input")
    # ---------------------------------------------------------------- copy-complete
    copy_complete(chk, src)
    scalar_prefactor(chk, src)
    buffer_immutable(chk, src)
    # ---------------------------------------------------------------- resolution
    unres = sorted(f"{w} .{m}() x{n}" for (w, m), n in eng.unresolved.items())
    chk.ob("resolution", "unresolved calls on tracked objects", True, "", unres[:40] or "none", "listed; each is treated as may-mutate")
    chk.extra["unresolved_calls"] = unres


_SCALAR_ATTRS = ("coeff", "mp_norm", "ttns_norm", "norm", "real", "imag", "offset")
_MODULE_OF = {}


def _string_values(e, fn):
    """the string values an expression can take: a literal, or a loop variable over a literal / module-level tuple of literals"""
    if isinstance(e, ast.Constant) and isinstance(e.value, str):
        return [e.value]
    if isinstance(e, ast.Name):
        for n in ast.walk(fn):
            if isinstance(n, ast.For) and isinstance(n.target, ast.Name) and n.target.id == e.id:
                it_ = n.iter
                if isinstance(it_, ast.Name):
                    mod = _MODULE_OF.get(id(fn))
                    cands = [st.value for st in (mod.body if mod is not None else []) if isinstance(st, ast.Assign) and len(st.targets) == 1 and unparse(st.targets[0]) == it_.id]
                    it_ = cands[0] if len(cands) == 1 else it_
                if isinstance(it_, (ast.Tuple, ast.List)) and all(isinstance(x, ast.Constant) and isinstance(x.value, str) for x in it_.elts):
                    return [x.value for x in it_.elts]
    return None


def scalar_typed(e, fn, depth=0):
    """RHS of a store to .coeff is an immutable scalar (python / numpy scalar), never an ndarray"""
    if isinstance(e, ast.Constant) and isinstance(e.value, (int, float, complex)):
        return True
    if isinstance(e, ast.Attribute) and e.attr in _SCALAR_ATTRS:
        return True          # propagation of another prefactor (checked at its own stores) / float-valued properties
    if isinstance(e, ast.Call) and unparse(e.func) == "getattr" and len(e.args) >= 2:
        # getattr(x, <name>) with the name ranging over string literals: as the attribute read x.<name>
        names = _string_values(e.args[1], fn)
        return names is not None and all(nm in _SCALAR_ATTRS for nm in names)
    if isinstance(e, ast.Call):
        f = unparse(e.func)
        if f in ("complex", "float", "int", "abs", "np.exp", "np.sqrt", "np.conj", "np.conjugate", "np.linalg.norm", "np.abs", "np.real"):
            # numpy ufuncs of a scalar give numpy scalars; of an array give arrays: judge by the argument
            if f in ("complex", "float", "int", "abs", "np.linalg.norm"):
                return True
            return all(scalar_typed(a, fn, depth) for a in e.args)
        if isinstance(e.func, ast.Attribute) and e.func.attr in ("item", "conjugate", "conj") and (e.func.attr == "item" or scalar_typed(e.func.value, fn, depth)):
            return True
        return False
    if isinstance(e, ast.BinOp):
        return scalar_typed(e.left, fn, depth) and scalar_typed(e.right, fn, depth)
    if isinstance(e, ast.UnaryOp):
        return scalar_typed(e.operand, fn, depth)
    if isinstance(e, ast.Subscript):
        # element of an array selected by an integer index is a scalar; a bare npz entry is a (0-d) array
        return isinstance(e.value, ast.Subscript) and not isinstance(e.slice, ast.Slice)
    if isinstance(e, ast.Name) and depth < 3:
        defs = [n.value for n in ast.walk(fn) if isinstance(n, ast.Assign) and any(isinstance(t, ast.Name) and t.id == e.id for t in n.targets)]
        if not defs:
            return True      # parameter / loop variable: a number by the callers' contract (evolve_dt, val, ...)
        return all(scalar_typed(d, fn, depth + 1) for d in defs)
    if isinstance(e, ast.IfExp):
        return scalar_typed(e.body, fn, depth) and scalar_typed(e.orelse, fn, depth)
    return False


def scalar_prefactor(chk, src):
    chk.rule("scalar-prefactor", "every store to a chain state's .coeff is an immutable scalar: metacopy shares the prefactor by reference and "
             "evolve_exact updates it with `*=`, which is in place for an ndarray", 6)
    fam = ["renormalizer/mps/mp.py", "renormalizer/mps/mps.py", "renormalizer/mps/mpo.py", "renormalizer/mps/mpdm.py", "renormalizer/mps/lib.py",
           "renormalizer/mps/thermalprop.py", "renormalizer/mps/gs.py"]
    inplace = []
    stores = []
    for rel in fam:
        if not src.has_module(rel):
            continue
        for fi in src.funcs_in(rel):
            if fi.parent is not None:
                continue
            _MODULE_OF[id(fi.node)] = src.modules[rel]
            for n in ast.walk(fi.node):
                if isinstance(n, ast.AugAssign) and isinstance(n.target, ast.Attribute) and n.target.attr == "coeff":
                    inplace.append(f"{fi.qual}: {norm_stmt(n, 70)}")
                if isinstance(n, ast.Assign):
                    for t in n.targets:
                        if isinstance(t, ast.Attribute) and t.attr == "coeff":
                            stores.append((fi, n))
    chk.table("in_place_prefactor_updates", inplace)
    if not inplace:
        chk.note("no in-place `.coeff op=` site exists in the chain family: sharing an ndarray prefactor would be harmless; rule vacuous by construction")
    for fi, n in stores:
        ok = scalar_typed(n.value, fi.node) or not inplace
        chk.ob("scalar-prefactor", f"{fi.qual}: {norm_stmt(n, 70)}", ok, fi.where, unparse(n.value)[:80], "python/numpy scalar (literal, complex(), .item(), arithmetic of scalars)",
               line=n.lineno, detail=f"{fi.qual} may store an ndarray as the prefactor; metacopy/copy then share it (`new.coeff = self.coeff`) and "
                                     f"`{inplace[0] if inplace else ''}` multiplies it in place: the input state and every copy of it change with the result")
    # tree family: recorded, not an obligation (no in-place update of a tree prefactor exists)
    tl = src.func("renormalizer/tn/tree.py", "TTNBase.load")
    chk.note("TTNS.load restores coeff as the 0-d array read from the npz (setattr(instance, attr, npload[attr])); harmless today because no tree code updates coeff in place")


def buffer_immutable(chk, src):
    """Site tensors of chain objects are shared between objects: `X.conj()` of a real-valued state / operator wraps the *same* numpy buffers (ndarray.conj() returns the
    array itself for real dtypes and Matrix(...) does not copy), conj_trans of a real operator likewise.  This is sound only because no code writes into a tensor
    buffer in place - every update rebinds a site to a new array.  The rule keeps that invariant: in the chain family no statement writes through `<site>.array`
    (augmented assignment, slice assignment, `out=`), and none slice-assigns / augments a site tensor obtained from a state (`Matrix.__setitem__` writes in place)."""
    chk.rule("buffer-immutable", "no in-place write into a site tensor buffer (buffers are shared by conj() of real objects)", 7)
    fam = ["renormalizer/mps/mp.py", "renormalizer/mps/mps.py", "renormalizer/mps/mpo.py", "renormalizer/mps/mpdm.py", "renormalizer/mps/lib.py",
           "renormalizer/mps/thermalprop.py", "renormalizer/mps/gs.py"]
    cj = src.func("renormalizer/mps/mp.py", "MatrixProduct.conj")
    shares = [norm_stmt(n, 70) for n in ast.walk(cj.node) if isinstance(n, ast.Assign) and isinstance(n.value, ast.Call) and isinstance(n.value.func, ast.Attribute) and n.value.func.attr == "conj"]
    chk.table("buffer_sharing_sites", [f"{cj.where}: {x}  (ndarray.conj() of a real array is the array itself)" for x in shares])
    for rel in fam:
        if not src.has_module(rel):
            continue
        bad = []
        for fi in src.funcs_in(rel):
            if fi.parent is not None:
                continue
            # names bound to site tensors of a state: `x = <obj>[<index>]` / loop variables over a state object, where <obj> is self or a parameter
            params = set(fi.params())
            sites = set()
            for n in ast.walk(fi.node):
                if isinstance(n, ast.Assign) and len(n.targets) == 1 and isinstance(n.targets[0], ast.Name) and isinstance(n.value, ast.Subscript) \
                        and isinstance(n.value.value, ast.Name) and n.value.value.id in params and not isinstance(n.value.slice, ast.Slice):
                    sites.add(n.targets[0].id)
                if isinstance(n, ast.For):
                    it_ = n.iter
                    if isinstance(it_, ast.Call) and unparse(it_.func) == "enumerate" and it_.args:
                        tgt = n.target.elts[1] if isinstance(n.target, ast.Tuple) and len(n.target.elts) == 2 else None
                        it_ = it_.args[0]
                    else:
                        tgt = n.target
                    if isinstance(it_, ast.Name) and it_.id in params and isinstance(tgt, ast.Name) and fi.cls is not None and it_.id == "self":
                        sites.add(tgt.id)

            def through_array(t):
                while isinstance(t, ast.Subscript):
                    t = t.value
                return isinstance(t, ast.Attribute) and t.attr == "array"

            def site_item(t):
                return isinstance(t, ast.Subscript) and isinstance(t.value, ast.Name) and t.value.id in sites
            for n in ast.walk(fi.node):
                if isinstance(n, ast.AugAssign) and (through_array(n.target) or site_item(n.target)):
                    bad.append(f"{fi.qual}:{n.lineno}: {norm_stmt(n, 70)}")
                if isinstance(n, ast.Assign):
                    for t in n.targets:
                        if (isinstance(t, ast.Subscript) and through_array(t)) or site_item(t):
                            bad.append(f"{fi.qual}:{n.lineno}: {norm_stmt(n, 70)}")
                if isinstance(n, ast.Call):
                    for k in n.keywords:
                        if k.arg == "out" and through_array(k.value):
                            bad.append(f"{fi.qual}:{n.lineno}: {norm_stmt(n, 70)}")
        chk.ob("buffer-immutable", rel, not bad, rel, bad[:4] or "no in-place write", "no in-place write", detail=(bad[0] if bad else "") +
               " writes into a tensor buffer in place: a real-valued object and its conj() / conj_trans() share buffers, so the other object changes too "
               "(and `inplace=True` scaling / normalisation of one of them rescales both)")


MUTABLE_ATTRS = {"_mp", "qn", "qntot", "model", "compress_config", "optimize_config", "evolve_config"}
FRESH_CALLS = ("copy", "deepcopy", "metacopy")


def init_attrs(src, ci):
    out = {}
    for c in src.mro(ci):
        init = c.methods.get("__init__")
        if init is None:
            continue
        for n in ast.walk(init.node):
            tg = None
            if isinstance(n, ast.Assign):
                tg = n.targets
            elif isinstance(n, ast.AnnAssign):
                tg = [n.target]
            for t in tg or []:
                if isinstance(t, ast.Attribute) and isinstance(t.value, ast.Name) and t.value.id == "self":
                    out.setdefault(t.attr, c.name)
    return out


def metacopy_attrs(src, ci, new_names=("new",)):
    """attributes assigned on the new object along the metacopy super() chain: attr -> value expr"""
    out = {}
    for c in src.mro(ci):
        mc = c.methods.get("metacopy")
        if mc is None:
            continue
        newn = None
        for n in ast.walk(mc.node):
            if isinstance(n, (ast.Assign, ast.AnnAssign)):
                t = n.targets[0] if isinstance(n, ast.Assign) else n.target
                if isinstance(t, ast.Name) and newn is None:
                    newn = t.id
        for n in ast.walk(mc.node):
            tg = None
            if isinstance(n, ast.Assign):
                tg = n.targets
            for t in tg or []:
                if isinstance(t, ast.Attribute) and isinstance(t.value, ast.Name) and t.value.id == newn:
                    out.setdefault(t.attr, (n.value, c.name, n.lineno))
            # setattr(new, attr, deepcopy(getattr(self, attr))) over a literal list
            if isinstance(n, ast.For) and isinstance(n.iter, (ast.Name, ast.List)):
                lst = n.iter
                if isinstance(lst, ast.Name):
                    for m in ast.walk(mc.node):
                        if isinstance(m, ast.Assign) and unparse(m.targets[0]) == lst.id and isinstance(m.value, ast.List):
                            lst = m.value
                if isinstance(lst, ast.List):
                    for call in ast.walk(n):
                        if isinstance(call, ast.Call) and unparse(call.func) == "setattr" and len(call.args) == 3:
                            for el in lst.elts:
                                if isinstance(el, ast.Constant):
                                    out.setdefault(el.value, (call.args[2], c.name, call.lineno))
    return out


def is_fresh_expr(e):
    """expression creates a new object (no aliasing of the source attribute)"""
    if isinstance(e, ast.Call):
        f = e.func
        if isinstance(f, ast.Attribute) and f.attr in FRESH_CALLS:
            return True
        if isinstance(f, ast.Name) and (f.id in ("deepcopy", "list", "dict") or f.id[:1].isupper()):
            return f.id != "list" or True
        if unparse(f) in ("np.array", "np.zeros", "np.copy"):
            return True
    if isinstance(e, ast.ListComp):
        return is_fresh_expr(e.elt)
    if isinstance(e, ast.BinOp) and isinstance(e.op, ast.Mult) and isinstance(e.left, ast.List):
        return all(isinstance(x, ast.Constant) for x in e.left.elts)
    if isinstance(e, ast.Constant):
        return True
    return False


def copy_complete(chk, src):
    """abstract runs of the copy family on symbolic objects whose attribute values are tagged: metacopy() of every chain class gives a new object of the same class that
    carries every attribute its __init__ chain sets, mutable ones as objects of their own; copy() copies every site tensor; the tree analogues likewise"""
    from ..syminterp import SymInterp, Sym, Blob
    from .chain_rules import class_resolver
    fam = [("renormalizer/mps/mp.py", "MatrixProduct"), ("renormalizer/mps/mps.py", "Mps"), ("renormalizer/mps/mpo.py", "Mpo"),
           ("renormalizer/mps/mpdm.py", "MpDm")]
    EXC = {"symbolic_mpo": "construction-time only, read nowhere after __init__"}
    chk.table("copy_complete_exceptions", EXC)

    class Val(Sym):
        """tagged value: .copy() / deepcopy give a tagged copy"""
        def __init__(self, name, of=None):
            super().__init__(name)
            self.of = of

        def copy(self):
            return Val(f"copy({self._name})", of=self)

        def __deepcopy__(self, memo=None):
            return self.copy()

    def root(v):
        while isinstance(v, Val) and v.of is not None:
            v = v.of
        return v

    def deepcopy(x):
        if isinstance(x, Val):
            return x.copy()
        if isinstance(x, list):
            return [deepcopy(y) for y in x]
        return x
    n_sites = 3
    table = {c: r for r, c in fam}
    resolve = class_resolver(src, table)
    for rel, cname in fam:
        ci = src.cls(rel, cname)
        ia = init_attrs(src, ci)

        class Obj(Sym):
            def __len__(self):
                return n_sites

            def __getitem__(self, k):
                return self._mp[k]

            def __setitem__(self, k, v):
                self._mp[k] = v

            def __iter__(self):
                return iter(self._mp)

        def make(name, filled=True, cname=cname, ia=ia):
            o = Obj(name)
            o._cls = cname
            if filled:
                for a in ia:
                    o.__dict__[a] = Val(a)
                o.__dict__["_mp"] = [Val(f"site{k}") for k in range(n_sites)]
                o.__dict__["qn"] = [Val(f"qn{k}") for k in range(n_sites + 1)]
                o.__dict__["site_num"] = n_sites
            klass = Sym(cname)
            klass.__dict__["__new__"] = lambda c=None: make("new", filled=False)
            o.__dict__["__class__"] = klass
            return o
        me = make("self")
        it = SymInterp(src, resolve, {"deepcopy": deepcopy, "copy": Sym("copy", deepcopy=deepcopy, copy=lambda x: x.copy()), "np": Sym("np", array=lambda x, **k: x), "logger": Blob("logger")})
        it.max_depth = 12
        mc = [c.methods["metacopy"] for c in src.mro(ci) if "metacopy" in c.methods][0]
        new = it.call_function(mc, [me])
        same_cls = isinstance(new, Obj) and new is not me and new._cls == cname
        chk.ob("copy-complete", f"{cname}.metacopy: new object of the same class", same_cls, mc.where, repr(new), "a new object", line=mc.node.lineno)
        for a in sorted(ia):
            if a in EXC:
                continue
            has = isinstance(new, Obj) and a in new.__dict__
            chk.ob("copy-complete", f"{cname}.metacopy:{a}", has, f"{rel}::{cname}.metacopy", "assigned" if has else "missing", "assigned on the new object",
                   detail=f"{cname}.__init__ (via {ia[a]}) sets self.{a} but metacopy never sets it on the new object: copies lack the attribute or share it through the class")
            if has and a in MUTABLE_ATTRS:
                v0, v1 = me.__dict__[a], new.__dict__[a]
                if isinstance(v0, list):
                    fresh = isinstance(v1, list) and v1 is not v0 and all(y is None or (y is not x) for x, y in zip(v0, v1)) and (a == "_mp" or [root(y) for y in v1] == v0)
                else:
                    fresh = v1 is not v0 and root(v1) is v0
                chk.ob("copy-complete", f"{cname}.metacopy:{a} fresh", fresh, f"{rel}::{cname}.metacopy", repr(v1)[:80], "an object of its own holding the same content (.copy(), deepcopy, a list of copies)",
                       detail=f"metacopy binds the source's mutable `{a}` to the copy (or loses its content): later in-place changes of one object change the other")
    # copy(): every site tensor is a copy of the source's
    cp = src.func("renormalizer/mps/mp.py", "MatrixProduct.copy")
    me = make("self")
    new = it.call_function(cp, [me])
    ok = isinstance(new, Obj) and new is not me and len(new._mp) == n_sites and all(isinstance(y, Val) and y is not x and root(y) is x for x, y in zip(me._mp, new._mp))
    chk.ob("copy-complete", "MatrixProduct.copy tensors", ok, cp.where, [repr(y) for y in getattr(new, "_mp", [])], "every site tensor copied", line=cp.node.lineno)
    # ---- tree
    TREE = "renormalizer/tn/tree.py"
    tci = src.cls(TREE, "TTNS")
    tinit = init_attrs(src, tci)
    tres = class_resolver(src, {"TTNS": TREE})

    class Tree(Sym):
        def __iter__(self):
            return iter(self.node_list)

        def __len__(self):
            return len(self.node_list)

    def make_tree(name, filled=True):
        t = Tree(name)
        t._cls = "TTNS"
        t.__dict__["node_list"] = [Sym(f"{name}.node{k}", tensor=Val(f"tensor{k}") if filled else None, qn=Val(f"nodeqn{k}") if filled else None) for k in range(3)]
        t.__dict__["basis"] = "basis"
        for a in ("coeff", "optimize_config", "evolve_config", "compress_config"):
            if a not in tinit:
                raise AnalysisError(f"TTNS.__init__ no longer assigns {a}")
            t.__dict__[a] = Val(a) if filled else None

        class Klass(Sym):
            def __call__(self, basis, *a, **k):
                return make_tree("new", filled=False)
        t.__dict__["__class__"] = Klass("TTNS")
        return t
    itt = SymInterp(src, tres, {"deepcopy": deepcopy, "np": Sym("np", array=lambda x, dtype=None, **k: Val(f"array({x._name})", of=x) if isinstance(x, Val) else x, asarray=lambda x, **k: x),
                                "complex": "complex", "logger": Blob("logger"), "TTNS": lambda basis, *a, **k: make_tree("new", filled=False)})
    itt.max_depth = 12
    tmc = src.func(TREE, "TTNS.metacopy")
    me = make_tree("self")
    new = itt.call_function(tmc, [me])
    for a in ("coeff", "optimize_config", "evolve_config", "compress_config"):
        v0, v1 = me.__dict__[a], getattr(new, "__dict__", {}).get(a)
        ok = isinstance(new, Tree) and new is not me and v1 is not None and root(v1) is v0 and (a == "coeff" or v1 is not v0)
        chk.ob("copy-complete", f"TTNS.metacopy:{a}", ok, tmc.where, repr(v1), "assigned" + ("" if a == "coeff" else " as an object of its own"), line=tmc.node.lineno)
    for qual, args, kw, label in (("TTNS.copy", [], {}, "TTNS.copy tensors+labels"), ("TTNS.to_complex", [], {}, "TTNS.to_complex tensors+labels")):
        fi = src.func(TREE, qual)
        me = make_tree("self")
        new = itt.call_function(fi, [me] + args, kw)
        probs = []
        if not isinstance(new, Tree) or new is me:
            probs.append("no new tree is returned")
        else:
            for k, (n0, n1) in enumerate(zip(me.node_list, new.node_list)):
                for a in ("tensor", "qn"):
                    v0, v1 = n0.__dict__[a], n1.__dict__.get(a)
                    if not (isinstance(v1, Val) and v1 is not v0 and root(v1) is root(v0)):
                        probs.append(f"node {k}: {a} = {v1!r}")
                if n0.__dict__["tensor"]._name != f"tensor{k}" or n0.__dict__["qn"]._name != f"nodeqn{k}":
                    probs.append(f"node {k} of the source was rebound")
        chk.ob("copy-complete", label, not probs, fi.where, probs[:3] or "every node: tensor and labels copied", "every node: tensor and labels copied", line=fi.node.lineno,
               detail=f"{qual} must give every node of the new tree its own copy of the tensor and of the bond label array")


META = {
    "category": "other",
    "engine": "EFFECT",
    "technique": "interprocedural effect/alias inference on the ast (flow-sensitive locals, summaries to a fixpoint over the resolved call graph) + copy-family attribute-set comparison",
    "text": "For the analysed API surface the property is decided for all call sequences at once: every (function, state-carrying parameter) "
            "pair has an inferred effect <= GAUGE unless the function is a documented mutator, producers return fresh objects, and the copy "
            "family is complete and fresh. A summary is independent of inputs and histories, which is what the suite (always rebinding results) "
            "cannot observe.",
    "note": "Sound up to the frozen tables printed in the evidence (attribute classes, documented mutators, pure numpy assumption) and call "
            "resolution by class hints/method names (unresolved calls on state objects are treated as may-mutate and listed). Exceptions are "
            "not modelled.",
    "design_ref": "DESIGN.md 3.1, 4 (C13); as built: 9.1, 9.3, 9.8",
}
