"""C14 - saved states reload identically (key/version agreement) and result dumps survive a crash
(exhaustive abstract interpretation of TdMpsJob.dump_dict over abstract directory states)."""
import ast

from ..src import AnalysisError, unparse, norm_stmt
from .. import fs

MP = "renormalizer/mps/mp.py"
MPS = "renormalizer/mps/mps.py"
TREE = "renormalizer/tn/tree.py"
TDMPS = "renormalizer/utils/tdmps.py"


def keypat(node):
    if isinstance(node, ast.Constant) and isinstance(node.value, str):
        return node.value
    if isinstance(node, ast.JoinedStr):
        return "".join(v.value if isinstance(v, ast.Constant) else "{}" for v in node.values)
    return None


class IO:
    """Symbolic extraction of written / read keys of one dump or load method chain."""

    def __init__(self, src, chk):
        self.src, self.chk = src, chk

    # ---- list-valued expression -> list of literal strings
    def strlist(self, e, bind):
        if e is None:
            return []
        if isinstance(e, ast.Constant) and e.value is None:
            return []
        if isinstance(e, ast.List):
            out = []
            for x in e.elts:
                k = keypat(x)
                if k is None:
                    raise AnalysisError(f"non-literal attribute name in list {unparse(e)}")
                out.append(k)
            return out
        if isinstance(e, ast.Constant) and isinstance(e.value, str):
            return [e.value]
        if isinstance(e, ast.BinOp) and isinstance(e.op, ast.Add):
            return self.strlist(e.left, bind) + self.strlist(e.right, bind)
        if isinstance(e, ast.Name):
            if e.id in bind:
                return list(bind[e.id])
            raise AnalysisError(f"unbound list name {e.id}")
        raise AnalysisError(f"unsupported attribute-list expression {unparse(e)}")

    def writer(self, ci, meth="dump", bind=None, depth=0):
        """Returns dict key-pattern -> source attribute, plus version literal."""
        fi = self.src.method(ci, meth)
        if fi is None:
            raise AnalysisError(f"{ci.name}.{meth} not found")
        fn = fi.node
        params = fi.params()
        bind = dict(bind or {})
        # defaults
        defaults = fn.args.defaults
        for p, d in zip(params[len(params) - len(defaults):], defaults):
            if p not in bind:
                bind[p] = self.strlist(d, {}) if not (isinstance(d, ast.Constant) and d.value is None) else []
        keys = {}
        version = [None]
        dictnames = set()
        for n in ast.walk(fn):
            if isinstance(n, ast.Call) and unparse(n.func) in fs.WRITE:
                for k in n.keywords:
                    if k.arg is None and isinstance(k.value, ast.Name):
                        dictnames.add(k.value.id)
        loopvars = {}

        def source(val, key_is_loopvar=None):
            t = unparse(val)
            if isinstance(val, ast.Call) and unparse(val.func) == "getattr" and len(val.args) >= 2:
                a = val.args[1]
                if isinstance(a, ast.Name) and a.id == key_is_loopvar:
                    return "@same"
                k = keypat(a)
                return k or "?"
            if isinstance(val, ast.Attribute) and isinstance(val.value, ast.Name) and val.value.id in loopvars:
                it = loopvars[val.value.id]
                if it in ("self", "enumerate(self)"):
                    return "tensors" if val.attr == "array" else "?"
                if it in ("self.node_list", "enumerate(self.node_list)", "enumerate(self)"):
                    return val.attr
            if isinstance(val, ast.Subscript) and isinstance(val.value, ast.Name):
                nm = val.value.id
                if nm in localsrc:
                    return localsrc[nm]
            if isinstance(val, ast.Constant):
                return "const"
            if t in ("self.site_num", "len(self)", "len(self.node_list)"):
                return "nsites"
            if isinstance(val, ast.Attribute) and isinstance(val.value, ast.Name) and val.value.id == "self":
                return val.attr
            if isinstance(val, ast.Name) and val.id in localsrc:
                return localsrc[val.id]
            return "?"

        localsrc = {}

        def walk(stmts, loop_keys):
            for s in stmts:
                if isinstance(s, ast.For):
                    tgt = s.target
                    it = unparse(s.iter)
                    names = [x.id for x in ast.walk(tgt) if isinstance(x, ast.Name)]
                    lk = dict(loop_keys)
                    try:
                        lst = self.strlist(s.iter, bind)
                        if len(names) == 1:
                            lk[names[0]] = lst
                    except AnalysisError:
                        for nm in names:
                            loopvars[nm] = it
                    walk(s.body, lk)
                    continue
                if isinstance(s, ast.If):
                    # None / str normalisation of the list parameter
                    t = unparse(s.test)
                    handled = False
                    for p in params:
                        if t == f"{p} is None":
                            handled = True   # bind already maps None to []
                        if t == f"isinstance({p}, str)":
                            handled = True
                    if not handled:
                        walk(s.body, loop_keys)
                        walk(s.orelse, loop_keys)
                    else:
                        walk(s.orelse, loop_keys)
                    continue
                if isinstance(s, ast.Try):
                    walk(s.body, loop_keys)
                    continue
                if isinstance(s, ast.Assign) and len(s.targets) == 1:
                    tg = s.targets[0]
                    if isinstance(tg, ast.Name):
                        if tg.id in params:
                            try:
                                bind[tg.id] = self.strlist(s.value, bind)
                            except AnalysisError:
                                pass
                        if isinstance(s.value, ast.Dict) :
                            dictnames.add(tg.id) if tg.id in dictnames or True else None
                            for k, v in zip(s.value.keys, s.value.values):
                                kp = keypat(k)
                                if kp is not None:
                                    keys[kp] = source(v)
                                    if kp == "version" and isinstance(v, ast.Constant):
                                        version[0] = v.value
                        elif isinstance(s.value, ast.Subscript) and isinstance(s.value.value, ast.Name) \
                                and s.value.value.id in dictnames:
                            kp = keypat(s.value.slice)
                            if kp in keys:
                                localsrc[tg.id] = keys[kp] if keys[kp] != "@same" else kp
                        continue
                    if isinstance(tg, ast.Subscript) and isinstance(tg.value, ast.Name) and tg.value.id in dictnames:
                        kp = keypat(tg.slice)
                        if kp is not None:
                            if kp in keys and source(s.value) == "?":
                                continue  # re-packing of an existing key (e.g. object array of qn)
                            keys[kp] = source(s.value)
                            if kp == "version":
                                if not isinstance(s.value, ast.Constant):
                                    raise AnalysisError("version written is not a literal")
                                version[0] = s.value.value
                        elif isinstance(tg.slice, ast.Name) and tg.slice.id in loop_keys:
                            for k in loop_keys[tg.slice.id]:
                                sv = source(s.value, tg.slice.id)
                                keys[k] = k if sv == "@same" else sv
                        else:
                            raise AnalysisError(f"{fi.where}: key expression not understood: {unparse(tg)}")
                        continue
                if isinstance(s, ast.Expr) and isinstance(s.value, ast.Call):
                    c = s.value
                    if isinstance(c.func, ast.Attribute) and c.func.attr == meth and unparse(c.func.value) == "super()":
                        # bind callee params
                        mro = self.src.mro(ci)
                        owner = [c_ for c_ in mro if fi.node in c_.node.body][0]
                        nxt = mro[mro.index(owner) + 1:]
                        callee = None
                        for c_ in nxt:
                            if meth in c_.methods:
                                callee = c_
                                break
                        if callee is None:
                            raise AnalysisError(f"super().{meth} not resolvable from {fi.where}")
                        cparams = callee.methods[meth].params()[1:]
                        nb = {}
                        for i, a in enumerate(c.args):
                            if i < len(cparams):
                                try:
                                    nb[cparams[i]] = self.strlist(a, bind)
                                except AnalysisError:
                                    pass
                        for k in c.keywords:
                            if k.arg:
                                try:
                                    nb[k.arg] = self.strlist(k.value, bind)
                                except AnalysisError:
                                    pass
                        sub_keys, sub_ver, _ = self.writer(callee, meth, nb, depth + 1)
                        keys.update(sub_keys)
                        if sub_ver is not None:
                            version[0] = sub_ver

        walk(fn.body, {})
        return keys, version[0], fi


def load_info(src, ci, version):
    """Reader side: follows super().load chains; returns (reads: key->dest attr, accepts_version, fi, all_reads)."""
    io = IO(src, None)

    def rec(ci, bind):
        fi = src.method(ci, "load")
        if fi is None:
            raise AnalysisError(f"{ci.name}.load not found")
        fn = fi.node
        params = fi.params()
        bind = dict(bind)
        defaults = fn.args.defaults
        for p, d in zip(params[len(params) - len(defaults):], defaults):
            if p not in bind:
                bind[p] = [] if (isinstance(d, ast.Constant) and d.value is None) else io.strlist(d, {})
        npname = None
        for n in ast.walk(fn):
            if isinstance(n, ast.Assign) and isinstance(n.value, ast.Call) and unparse(n.value.func) in ("np.load", "numpy.load"):
                npname = unparse(n.targets[0])
        reads = {}
        allreads = set()
        local_from_key = {}
        accepted = [None]  # None = no version gate
        rejected = [False]
        objname = [None]

        def keys_in(e):
            out = []
            for x in ast.walk(e):
                if isinstance(x, ast.Subscript) and unparse(x.value) == npname:
                    kp = keypat(x.slice)
                    out.append(kp if kp is not None else ("@" + unparse(x.slice)))
            return out

        def vtest(test):
            """Decide a test on the version variable for the written version; None if not a version test."""
            if isinstance(test, ast.Compare) and len(test.ops) == 1:
                left = test.left
                is_ver = (isinstance(left, ast.Name) and local_from_key.get(left.id) == "version") or keys_in(left) == ["version"]
                if is_ver:
                    try:
                        rhs = ast.literal_eval(test.comparators[0])
                    except Exception:
                        raise AnalysisError(f"version test not literal: {unparse(test)}")
                    if isinstance(test.ops[0], ast.Eq):
                        return version == rhs
                    if isinstance(test.ops[0], ast.In):
                        return version in rhs
                    if isinstance(test.ops[0], ast.NotEq):
                        return version != rhs
            return None

        def walk(stmts, loop_keys):
            for s in stmts:
                if isinstance(s, ast.If):
                    v = vtest(s.test)
                    if v is None:
                        t = unparse(s.test)
                        if any(t == f"{p} is None" for p in params):
                            walk(s.orelse, loop_keys)
                            continue
                        walk(s.body, loop_keys)
                        walk(s.orelse, loop_keys)
                    else:
                        walk(s.body if v else s.orelse, loop_keys)
                    continue
                if isinstance(s, ast.Assert):
                    v = vtest(s.test)
                    if v is False:
                        rejected[0] = True
                    continue
                if isinstance(s, ast.Raise):
                    rejected[0] = True
                    continue
                if isinstance(s, ast.For):
                    names = [x.id for x in ast.walk(s.target) if isinstance(x, ast.Name)]
                    lk = dict(loop_keys)
                    try:
                        lst = io.strlist(s.iter, bind)
                        if len(names) == 1:
                            lk[names[0]] = lst
                    except AnalysisError:
                        pass
                    walk(s.body, lk)
                    continue
                if isinstance(s, ast.Assign) and len(s.targets) == 1:
                    tg = s.targets[0]
                    ks = keys_in(s.value)
                    allreads.update(k for k in ks if not k.startswith("@"))
                    if isinstance(tg, ast.Name):
                        if tg.id in params:
                            try:
                                bind[tg.id] = io.strlist(s.value, bind)
                            except AnalysisError:
                                pass
                        if len(ks) == 1:
                            local_from_key[tg.id] = ks[0]
                        elif not ks:
                            # a value derived from a local that was read from the archive keeps that provenance (t = npload[k].astype(int); x = t.tolist())
                            inh = [local_from_key[x.id] for x in ast.walk(s.value) if isinstance(x, ast.Name) and x.id in local_from_key]
                            if len(set(inh)) == 1:
                                local_from_key[tg.id] = inh[0]
                        if isinstance(s.value, ast.Call) and unparse(s.value.func) == "cls":
                            objname[0] = tg.id
                        continue
                    if isinstance(tg, ast.Attribute) and isinstance(tg.value, ast.Name):
                        for k in ks:
                            reads[k] = tg.attr
                        if not ks:
                            # assigned from locals read earlier
                            for x in ast.walk(s.value):
                                if isinstance(x, ast.Name) and x.id in local_from_key:
                                    reads[local_from_key[x.id]] = tg.attr
                        continue
                if isinstance(s, ast.Expr) and isinstance(s.value, ast.Call):
                    c = s.value
                    fn_txt = unparse(c.func)
                    if fn_txt == "setattr" and len(c.args) == 3:
                        a = c.args[1]
                        if isinstance(a, ast.Name) and a.id in loop_keys:
                            for k in loop_keys[a.id]:
                                reads[k] = k
                                allreads.add(k)
                        else:
                            raise AnalysisError(f"{fi.where}: setattr with non-enumerable name")
                        continue
                    if isinstance(c.func, ast.Attribute) and c.func.attr == "append" and c.args:
                        a = c.args[0]
                        # mp.append(mt) -> tensors ; nodes.append(TreeNodeTensor(tensor, qn)) -> ctor param names
                        if isinstance(a, ast.Name) and a.id in local_from_key:
                            recv = c.func.value
                            if isinstance(recv, ast.Attribute):
                                reads[local_from_key[a.id]] = recv.attr   # mp.qn.append(subqn)
                            else:
                                reads[local_from_key[a.id]] = "tensors"   # mp.append(mt)
                        elif isinstance(a, ast.Call):
                            cc = src.resolve_class_name(fi.rel, unparse(a.func))
                            if cc is not None and "__init__" in cc.methods:
                                cps = cc.methods["__init__"].params()[1:]
                                for i, arg in enumerate(a.args):
                                    if isinstance(arg, ast.Name) and arg.id in local_from_key and i < len(cps):
                                        reads[local_from_key[arg.id]] = cps[i]
                                for kw in a.keywords:
                                    if isinstance(kw.value, ast.Name) and kw.value.id in local_from_key:
                                        reads[local_from_key[kw.value.id]] = kw.arg
                        continue
                if isinstance(s, ast.Return) and s.value is not None:
                    c = s.value
                    if isinstance(c, ast.Call) and isinstance(c.func, ast.Attribute) and c.func.attr == "load" \
                            and unparse(c.func.value) == "super()":
                        mro = src.mro(ci)
                        owner = [c_ for c_ in mro if fi.node in c_.node.body][0]
                        callee = None
                        for c_ in mro[mro.index(owner) + 1:]:
                            if "load" in c_.methods:
                                callee = c_
                                break
                        if callee is None:
                            raise AnalysisError("super().load not resolvable")
                        cparams = callee.methods["load"].params()[1:]
                        nb = {}
                        for i, a in enumerate(c.args):
                            if i < len(cparams):
                                try:
                                    nb[cparams[i]] = io.strlist(a, bind)
                                except AnalysisError:
                                    pass
                        sub = rec(callee, nb)
                        reads.update(sub[0])
                        allreads.update(sub[3])
                        rejected[0] = rejected[0] or sub[1]
                    continue
                # any other statement: note reads
                for k in keys_in(s):
                    if not k.startswith("@"):
                        allreads.add(k)

        walk(fn.body, {})
        return reads, rejected[0], fi, allreads

    return rec(ci, {})


def short(path, primary):
    return path.replace(primary, "<result>")



# ------------------------------------------------------------------------------------------ lossless restore
VALUE_KEY_PREFIXES = ("coeff", "tdh_wfns", "mt_", "tensor_")       # complex-capable numerical content
LOSSLESS = {"item", "copy", "tolist", "asxp", "asnumpy", "Matrix", "TreeNodeTensor", "np.asarray", "np.array", "xp.asarray", "complex", "<subscript>", "<assign>", "setattr"}
LOSSY = {"real", "imag", "astype", "round", "float", "int", "abs", "bool", "np.real", "np.imag", "np.abs", "np.float64", "np.float32", "np.around", "np.round", "clip"}
META_OK = {"range", "int", "bool", "astype", "tolist", "str", "item", "<subscript>", "<assign>", "<compare>", "setattr", "copy", "np.array", "np.asarray"}


def lossless_restore_rule(chk, src):
    """every value read from the archive reaches its attribute through value-preserving conversions only; the archive (or a value read from it) handed to another function of
    the repository is followed into that function"""
    RELS = (MP, MPS, "renormalizer/tn/tree.py")
    by_name = {}
    for rel in RELS:
        for fi in src.funcs_in(rel):
            if fi.parent is None:
                by_name.setdefault(fi.name, []).append(fi)

    def callee_of(call, fi):
        """the repository function a call hands its arguments to (by method / function name, unique among the state modules), and the offset of its first explicit parameter"""
        nm = call.func.attr if isinstance(call.func, ast.Attribute) else (call.func.id if isinstance(call.func, ast.Name) else None)
        cands = by_name.get(nm, [])
        if len(cands) != 1:
            return None, 0
        c = cands[0]
        is_method = c.cls is not None and not any(unparse(d) == "staticmethod" for d in c.node.decorator_list)
        return c, (1 if is_method and isinstance(call.func, ast.Attribute) else 0)

    def param_for(call, node, callee, off):
        ps = callee.params()
        for i, a_ in enumerate(call.args):
            if a_ is node:
                return ps[i + off] if i + off < len(ps) else None
        for k_ in call.keywords:
            if k_.value is node:
                return k_.arg if k_.arg in ps else None
        return None
    n = 0
    work = []          # (function, {archive names}, {value names: key})
    for rel in RELS:
        for fi in src.funcs_in(rel):
            if fi.qual.endswith(".load"):
                arch = {t.id for st in ast.walk(fi.node) if isinstance(st, ast.Assign) and isinstance(st.value, ast.Call) and unparse(st.value.func).endswith("np.load")
                        for t in st.targets if isinstance(t, ast.Name)}
                work.append((fi, frozenset(arch), ()))
    seen = set()
    while work:
        fi, archives, values = work.pop(0)
        if (fi.where, archives, values) in seen:
            continue
        seen.add((fi.where, archives, values))
        values = dict(values)
        parents = {}
        for p_ in ast.walk(fi.node):
            for c_ in ast.iter_child_nodes(p_):
                parents[c_] = p_
        starts = []
        for sub in ast.walk(fi.node):
            if isinstance(sub, ast.Subscript) and isinstance(sub.value, ast.Name) and sub.value.id in archives:
                k = sub.slice
                if isinstance(k, ast.Constant):
                    key = str(k.value)
                elif isinstance(k, ast.JoinedStr):
                    key = "".join(str(v.value) if isinstance(v, ast.Constant) else "{}" for v in k.values)
                else:
                    key = "<" + unparse(k) + ">"       # npload[attr]: any dumped attribute
                starts.append((sub, key))
            elif isinstance(sub, ast.Name) and isinstance(sub.ctx, ast.Load) and sub.id in values:
                starts.append((sub, values[sub.id]))
            elif isinstance(sub, ast.Name) and isinstance(sub.ctx, ast.Load) and sub.id in archives:
                par = parents.get(sub)
                if isinstance(par, ast.Call) and (sub in par.args or any(k_.value is sub for k_ in par.keywords)) and not unparse(par.func).endswith("np.load"):
                    callee, off = callee_of(par, fi)
                    pn = param_for(par, sub, callee, off) if callee is not None else None
                    if pn is None:
                        raise AnalysisError(f"{fi.where}: the archive is handed to `{unparse(par.func)}`, which is not a unique function of the state modules")
                    work.append((callee, frozenset([pn]), ()))
        for sub, key in starts:
            is_value = key.startswith(VALUE_KEY_PREFIXES) or key.startswith("<")
            chain = []
            cur = sub
            while cur in parents and not isinstance(parents[cur], ast.stmt):
                par = parents[cur]
                if isinstance(par, ast.Attribute) and par.value is cur:
                    gp = parents.get(par)
                    if isinstance(gp, ast.Call) and gp.func is par:
                        chain.append(par.attr)
                        cur = gp
                        continue
                    chain.append(par.attr)
                elif isinstance(par, ast.Call) and (cur in par.args or any(k_.value is cur for k_ in par.keywords)):
                    callee, off = callee_of(par, fi)
                    pn = param_for(par, cur, callee, off) if callee is not None else None
                    if pn is not None and unparse(par.func) not in LOSSLESS | LOSSY | META_OK:
                        work.append((callee, frozenset(), ((pn, key),)))     # handed on unchanged; what the callee does with it is judged there
                        break
                    chain.append(unparse(par.func))
                elif isinstance(par, ast.Subscript) and par.value is cur:
                    chain.append("<subscript>")
                elif isinstance(par, ast.Compare):
                    chain.append("<compare>")
                elif isinstance(par, (ast.keyword, ast.Starred, ast.Tuple, ast.List, ast.ListComp, ast.GeneratorExp, ast.SetComp, ast.DictComp, ast.comprehension, ast.Dict, ast.IfExp)):
                    pass        # containers, comprehensions and conditional expressions hand the value on unchanged
                else:
                    chain.append("<" + type(par).__name__ + ">")
                cur = par
            n += 1
            allowed = LOSSLESS if is_value else (META_OK | LOSSLESS)
            lossy = [c for c in chain if c in LOSSY and c not in allowed]
            unknown = [c for c in chain if c not in allowed and c not in LOSSY]
            if unknown:
                raise AnalysisError(f"{fi.where}: conversion {unknown} applied to npload[{key!r}] is not classified (value-preserving or not?) in rules/C14.py")
            chk.ob("lossless-restore", f"{fi.qual}: npload[{key!r}]", not lossy, fi.where, chain or "as stored", "value-preserving conversions only (item, indexing, array wrappers)", line=sub.lineno,
                   detail=f"{fi.qual} restores {key!r} through {lossy}: part of the stored value is dropped (e.g. the phase of a complex prefactor or the imaginary part of the tensors), "
                          "so a reloaded state differs from the dumped one only for complex content")
    return n



# ------------------------------------------------------------------------------------------ spill of large site tensors to disk
def periodic_dump_rule(chk, src, rule):
    """abstract run of TdMpsJob.evolve with recorder stand-ins (evolve_single_step, process_mps, dump_dict, stop criterion) for the four ways of giving the length of a run,
    information intervals 1, 3 and None, with and without an output path: the periodic result file is written after *every* completed step (after the step's results were
    processed and the time appended), never for a step that did not happen, and not at all without an output path; which steps also carry the state is a separate choice
    (information interval)"""
    from ..syminterp import SymInterp, Sym, Blob, OpenSym, SymRaise
    TD = "renormalizer/utils/tdmps.py"
    fi = src.func(TD, "TdMpsJob.evolve")
    from .chain_rules import class_resolver
    resolve = class_resolver(src, {"TdMpsJob": TD})
    for how, args, nwant in (("evolve_dt and nsteps", {"evolve_dt": 0.5, "nsteps": 5}, 5), ("nsteps and evolve_time", {"nsteps": 4, "evolve_time": 2.0}, 4),
                             ("evolve_dt and evolve_time", {"evolve_dt": 0.5, "evolve_time": 2.0}, 5), ("stop criterion after 3 steps", {"evolve_dt": 0.5}, 3)):
        for interval in (1, 3, None):
            for out_path in (True, False):
                ev = []
                class Job(Sym):
                    @property
                    def latest_evolve_time(self):
                        return self.evolve_times[-1]

                    def stop_evolve_criteria(self):
                        return how.startswith("stop") and len(self.evolve_times) - 1 >= 3

                    def evolve_single_step(self, dt):
                        ev.append(("step", len(self.evolve_times)))
                        return f"state after step {len(self.evolve_times)}"

                    def process_mps(self, mps):
                        ev.append(("process", mps, len(self.evolve_times) - 1))

                    def dump_dict(self):
                        ev.append(("dump", len(self.evolve_times) - 1, self.latest_mps, self._dump_mps))
                job = Job("job", evolve_times=[0.0], info_interval=interval, dump_mps="all", _dump_mps=None, latest_mps="initial state", _defined_output_path=out_path)
                job._cls = "TdMpsJob"
                it = SymInterp(src, resolve, {"logger": Blob("logger"), "datetime": Sym("datetime", now=lambda: 0), "float": float, "int": int, "abs": abs, "str": str})
                it.max_depth = 8
                probs = []
                try:
                    res = it.call_function(fi, [job], dict(args))
                except SymRaise as e:
                    probs.append(f"raises {e}")
                    res = None
                steps = [e for e in ev if e[0] == "step"]
                dumps = [e for e in ev if e[0] == "dump"]
                if not probs:
                    if len(steps) != nwant:
                        probs.append(f"{len(steps)} steps taken; expected {nwant}")
                    if not out_path:
                        if dumps:
                            probs.append(f"{len(dumps)} result files written without an output path")
                    else:
                        # after step k: process(k) then dump(k) with the state of step k as latest state, before step k+1
                        k_ = 0
                        for e in ev:
                            if e[0] == "step":
                                if k_ and ("dump", k_) not in [(d[0], d[1]) for d in dumps]:
                                    probs.append(f"step {k_ + 1} begins before the result of step {k_} was written")
                                k_ = e[1]
                            elif e[0] == "dump":
                                if e[1] != k_ or e[2] != f"state after step {k_}" or ("process", f"state after step {k_}", k_) not in ev[:ev.index(e)]:
                                    probs.append(f"result file written with {e[1]} steps recorded and latest state {e[2]!r} while step {k_} is the last completed one (processed: {('process', f'state after step {k_}', k_) in ev})")
                        if k_ and ("dump", k_) not in [(d[0], d[1]) for d in dumps]:
                            probs.append(f"the result of the last step ({k_}) is never written")
                        if len(dumps) != len(steps):
                            probs.append(f"{len(dumps)} result files for {len(steps)} steps")
                        # the state travels with the file on information steps only
                        for d in dumps:
                            want_mps = "all" if (interval is not None and (d[1] - 1) % interval == 0) else None
                            if d[3] != want_mps:
                                probs.append(f"step {d[1]}: state dump setting {d[3]!r}; expected {want_mps!r} (information interval {interval})")
                                break
                    if res is not job:
                        probs.append("evolve does not return the job")
                chk.ob(rule, f"TdMpsJob.evolve[{how}, information interval {interval}, {'with' if out_path else 'without'} output path]", not probs, fi.where, probs[:3] or f"{len(dumps)} result files for {len(steps)} steps",
                       "one result file per completed step, written after the step was processed", line=fi.node.lineno,
                       detail="the periodic result file must hold the current step after every step: otherwise a crash (or a normal end between information steps) leaves a file that is older than the previous step: " + (probs[0] if probs else ""))


def spill_rule(chk, src):
    """MatrixProduct keeps site tensors above a size limit as .npy files.  Abstract run of __setitem__ / _array2mt / __getitem__ / __del__ from source (helpers included)
    on two live objects over a model file system (directories and files as a dictionary, os.path / os / shutil / np.save / np.load as operations on it): every (object,
    site) gets a file of its own holding that tensor; reading a site gives back a Matrix with the same content, the object's dtype and the labels of that site; replacing a
    site replaces what is read back; deleting one object removes its files and nothing of the other; below the size limit nothing is written."""
    from ..syminterp import SymInterp, Sym, Blob, OpenSym, SymRaise
    from .chain_rules import class_resolver
    resolve = class_resolver(src, {"MatrixProduct": MP})
    a2 = src.func(MP, "MatrixProduct._array2mt")
    gi = src.func(MP, "MatrixProduct.__getitem__")
    si = src.func(MP, "MatrixProduct.__setitem__")
    de = src.func(MP, "MatrixProduct.__del__")

    class Arr(Sym):
        """array content token"""
        def __init__(self, content, nbytes=1000, contiguous=True):
            super().__init__(f"array<{content}>")
            self.content, self.nbytes = content, nbytes
            self.flags = Sym("flags", c_contiguous=contiguous, f_contiguous=False)
            self.shape = (2, 3, 5)

    class MT(Sym):
        def __init__(self, array, dtype=None):
            super().__init__("Matrix")
            a = array.array if isinstance(array, MT) else array
            if not isinstance(a, Arr):
                raise TypeError(f"Matrix built from {array!r}")
            self.array, self.dtype, self.sigmaqn = a, dtype, None
            self.pdim, self.shape = [3], a.shape

        def astype(self, dtype):
            return MT(self.array, dtype)

    def world(limit):
        fs = {"dirs": {"/dumps"}, "files": {}}

        def join(*parts):
            return "/".join(str(x) for x in parts)
        osx = Sym("os", path=Sym("path", join=join, exists=lambda p_: p_ in fs["dirs"] or p_ in fs["files"]), mkdir=lambda p_: fs["dirs"].add(p_), makedirs=lambda p_, **k: fs["dirs"].add(p_),
                  remove=lambda p_: fs["files"].pop(p_), getpid=lambda: 4711)

        def rmtree(p_, *a, **k):
            fs["dirs"].discard(p_)
            for f in [f for f in fs["files"] if f.startswith(p_ + "/")]:
                del fs["files"][f]

        def save(name, arr, *a, **k):
            if not isinstance(name, str) or "/" not in name or name.rsplit("/", 1)[0] not in fs["dirs"]:
                raise SymRaise(f"np.save to {name!r}: no such directory")
            fs["files"][name if name.endswith(".npy") else name + ".npy"] = arr

        def load(name, *a, **k):
            return fs["files"][name]
        npx = OpenSym("np", make=lambda t: Blob(t), save=save, load=load, ascontiguousarray=lambda a_: Arr(a_.content, a_.nbytes, True))

        def mk(name, dtype):
            me = Sym(name)
            me._cls = "MatrixProduct"
            me.dtype = dtype
            me._mp = [None, None, None]
            me.pbond_list = [3, 3, 3]
            me.compress_config = Sym("compress_config", dump_matrix_size=limit, dump_matrix_dir="/dumps")
            me._get_sigmaqn = lambda idx, me=me: f"sigmaqn({name}, {idx})"
            return me
        builtins = {"np": npx, "os": osx, "shutil": Sym("shutil", rmtree=rmtree), "logger": Blob("logger"), "Matrix": MT, "isinstance": lambda x, t: isinstance(x, t), "str": str, "list": list,
                    "slice": slice, "int": int, "tuple": tuple}
        it = SymInterp(src, resolve, builtins)
        it.max_depth = 8
        it.check_asserts = True
        return fs, it, mk
    # ---- above the limit
    fs, it, mk = world(limit=10)
    A, B = mk("A", "dtype-of-A"), mk("B", "dtype-of-B")
    probs = []
    try:
        it.call_function(si, [A, 0, Arr("A0")])
        it.call_function(si, [A, 1, MT(Arr("A1", contiguous=False), "other dtype")])
        it.call_function(si, [B, 0, Arr("B0")])
        it.call_function(si, [B, 1, Arr("B1")])
    except (SymRaise, KeyError, TypeError) as e:
        probs.append(f"writer: {type(e).__name__}: {e}")
    files = dict(fs["files"])
    held = {("A", 0): A._mp[0], ("A", 1): A._mp[1], ("B", 0): B._mp[0], ("B", 1): B._mp[1]}
    ok_w = not probs and all(isinstance(v, str) for v in held.values()) and len(set(held.values())) == 4 and all(v in files for v in held.values()) and \
        all(getattr(files[held[(o, k)]], "content", None) == f"{o}{k}" for (o, k) in held) and len(files) == 4
    chk.ob("spill-protocol", "every (object, site) above the limit gets a file of its own that holds that tensor", ok_w, a2.where,
           probs or {f"{o}[{k}]": (v if isinstance(v, str) else type(v).__name__, getattr(files.get(v) if isinstance(v, str) else None, "content", None)) for (o, k), v in held.items()},
           "four distinct files with the four tensors; the site list holds the file names", line=a2.node.lineno,
           detail="the file name must depend on the object (two live objects never share a file) and on the site index (two sites sharing a file silently overwrite each other), and the file must hold the tensor itself")
    # ---- reader
    rd = []
    if ok_w:
        for me, o in ((A, "A"), (B, "B")):
            for k in (0, 1):
                try:
                    m = it.call_function(gi, [me, k])
                except (SymRaise, KeyError, TypeError) as e:
                    rd.append(f"{o}[{k}]: {type(e).__name__}: {e}")
                    continue
                if not isinstance(m, MT) or m.array.content != f"{o}{k}" or m.dtype != me.dtype or m.sigmaqn != f"sigmaqn({o}, {k})":
                    rd.append(f"{o}[{k}] reads back content {getattr(getattr(m, 'array', None), 'content', m)!r}, dtype {getattr(m, 'dtype', None)!r}, labels {getattr(m, 'sigmaqn', None)!r}")
    chk.ob("spill-protocol", "reading a spilled site gives the same tensor with the object's dtype and the site's labels", ok_w and not rd, gi.where, rd[:3] or ("not run: writer failed" if not ok_w else "equal"),
           "content of that (object, site), self.dtype, _get_sigmaqn(site)", line=gi.node.lineno,
           detail="a reloaded site tensor must be indistinguishable from one kept in memory (same dtype conversion as _array2mt, quantum numbers of the same site)")
    # ---- replace
    rp = []
    if ok_w:
        try:
            it.call_function(si, [A, 0, Arr("A0'")])
            m = it.call_function(gi, [A, 0])
            if getattr(getattr(m, "array", None), "content", None) != "A0'":
                rp.append(f"after replacing A[0] the site reads back {getattr(getattr(m, 'array', None), 'content', m)!r}")
            m1 = it.call_function(gi, [A, 1])
            if getattr(getattr(m1, "array", None), "content", None) != "A1":
                rp.append("replacing A[0] changed what A[1] reads back")
            stale = [f for f in fs["files"] if f not in (A._mp[0], A._mp[1], B._mp[0], B._mp[1])]
            if stale:
                rp.append(f"files no site refers to: {stale}")
        except (SymRaise, KeyError, TypeError) as e:
            rp.append(f"{type(e).__name__}: {e}")
    chk.ob("spill-protocol", "replacing a spilled site replaces what is read back and leaves no stale file", ok_w and not rp, si.where, rp[:3] or ("not run" if not ok_w else "replaced"), "new tensor read back", line=si.node.lineno)
    # ---- cleanup
    cl = []
    if ok_w:
        try:
            it.call_function(de, [A])
        except (SymRaise, KeyError, TypeError) as e:
            cl.append(f"{type(e).__name__}: {e}")
        left = sorted(fs["files"])
        if any(isinstance(v, str) and v in fs["files"] for v in A._mp):
            cl.append(f"files of the deleted object remain: {[v for v in A._mp if isinstance(v, str) and v in fs['files']]}")
        if not all(isinstance(v, str) and v in fs["files"] for v in B._mp[:2]):
            cl.append(f"deleting A removed files of B (left: {left})")
        else:
            try:
                m = it.call_function(gi, [B, 1])
                if getattr(getattr(m, "array", None), "content", None) != "B1":
                    cl.append("B[1] no longer reads back its tensor")
            except (SymRaise, KeyError, TypeError) as e:
                cl.append(f"B[1] after deleting A: {type(e).__name__}: {e}")
    chk.ob("spill-protocol", "deleting an object removes its own files and nothing else", ok_w and not cl, de.where, cl[:3] or ("not run" if not ok_w else "own files only"), "own files only", line=de.node.lineno,
           detail="two live objects must never share a spill directory, and the directory removed when an object dies must be its own")
    # ---- below the limit
    fs2, it2, mk2 = world(limit=10 ** 9)
    C = mk2("C", "dtype-of-C")
    lo = []
    try:
        it2.call_function(si, [C, 0, Arr("C0")])
        m = it2.call_function(gi, [C, 0])
        if fs2["files"] or not isinstance(C._mp[0], MT):
            lo.append(f"files {sorted(fs2['files'])}, site list holds {type(C._mp[0]).__name__}")
        if not isinstance(m, MT) or m.array.content != "C0" or m.dtype != "dtype-of-C" or m.sigmaqn != "sigmaqn(C, 0)":
            lo.append(f"in-memory site reads back {getattr(getattr(m, 'array', None), 'content', m)!r}, {getattr(m, 'dtype', None)!r}, {getattr(m, 'sigmaqn', None)!r}")
    except (SymRaise, KeyError, TypeError) as e:
        lo.append(f"{type(e).__name__}: {e}")
    chk.ob("spill-protocol", "below the size limit the tensor stays in memory with the same dtype conversion and labels", not lo, a2.where, lo[:3] or "in memory", "in memory, same Matrix as the reader rebuilds", line=a2.node.lineno)
    # a spilled matrix and an in-memory one must not differ in dtype / labels: the same (dtype, labels) in both worlds is shown by the two obligations above


# ------------------------------------------------------------------------------------------ round trip of tree states (abstract run of dump, then load)
def tree_round_trip_rule(chk, src):
    """TTNBase/TTNS: the writer's dictionary is fed to the reader; node i of the reloaded tree must carry the tensor and labels of node i, extra attributes restored"""
    from ..syminterp import SymInterp, Sym, OpenSym, Blob
    TREE = "renormalizer/tn/tree.py"
    for cname, extra in (("TTNBase", ["coeff"]), ("TTNS", None), ("TTNS", ["time"])):
        fd = src.func(TREE, f"{cname}.dump") if src.find_func(TREE, f"{cname}.dump") else None
        fl = src.func(TREE, f"{cname}.load")
        base_d, base_l = src.func(TREE, "TTNBase.dump"), src.func(TREE, "TTNBase.load")
        for n in (3, 12):
            nodes = [Sym(f"node{i}", tensor=f"tensor-of-node{i}", qn=f"qn-of-node{i}") for i in range(n)]
            saved = {}

            class Tree(Sym):
                def __len__(self):
                    return n
            me = Tree("ttns", _cls=cname, node_list=nodes, coeff="the-coeff", time="the-time")
            from .chain_rules import class_resolver
            tree_resolver = class_resolver(src, {"TTNBase": TREE, "TTNS": TREE})
            itd = SymInterp(src, tree_resolver, {"np": OpenSym("np", savez=lambda fname, **kw: saved.update(kw)), "logger": Blob("logger"),
                                        "super": lambda: Sym("super", dump=lambda fname, other_attrs=None: itd.call_function(base_d, [me, fname, other_attrs]))})
            itd.builtins["len"] = lambda x: n if x is me else len(x)
            from ..syminterp import SymRaise
            fail = None
            try:
                itd.call_function(fd or base_d, [me, "file"] + ([list(extra)] if extra is not None else []))
            except (AttributeError, KeyError, IndexError, TypeError, SymRaise) as e:
                fail = f"writer: {type(e).__name__}: {e}"

            class Archive(Sym):
                """np.load result: mapping with a `files` list (in the archive's own, unspecified order)"""
                def __getitem__(self, k):
                    return saved[k]

                @property
                def files(self):
                    return sorted(saved, key=lambda k: (len(k) % 3, k))[::-1]

                def keys(self):
                    return self.files
            made = []
            conn = []
            inst = []

            def ctor(basis, root=None):
                inst.append(Sym("instance", _cls=cname, root=root))
                return inst[-1]
            itl = SymInterp(src, tree_resolver, {"np": OpenSym("np", load=lambda *a, **k: Archive("npload")), "TreeNodeTensor": lambda t, q=None: made.append((t, q)) or ("node", len(made) - 1),
                                        "copy_connection": lambda a, b: conn.append((a, list(b))),
                                        "super": lambda: Sym("super", load=lambda basis, fname, other_attrs=None: itl.call_function(base_l, [ctor, basis, fname, other_attrs]))})
            basis = Sym("basis", node_list=["bn"] * n)
            out = None
            if fail is None:
                try:
                    out = itl.call_function(fl, [ctor, basis, "file"] + ([list(extra)] if extra is not None else []))
                except (AttributeError, KeyError, IndexError, TypeError, SymRaise) as e:
                    fail = f"reader fed with the writer's archive: {type(e).__name__}: {e}"
            want = [(f"tensor-of-node{i}", f"qn-of-node{i}") for i in range(n)]
            ok = fail is None and made == want and len(conn) == 1 and conn[0][1] == [("node", i) for i in range(n)] and bool(inst) and out is inst[-1] and out.root == ("node", 0) and getattr(out, "coeff", None) == "the-coeff" \
                and saved.get("version") is not None and (extra in (None, ["coeff"]) or getattr(out, "time", None) == "the-time")
            wrong = ([fail] if fail else []) + [f"node {i}: {m}" for i, (m, w) in enumerate(zip(made, want)) if m != w][:2]
            chk.ob("tree-round-trip", f"{cname}.dump -> {cname}.load [{n} nodes" + (", user attributes " + repr(extra) if cname == "TTNS" and extra else "") + "]", ok, fl.where,
                   wrong or {"nodes": len(made), "coeff": getattr(out, "coeff", None), "user attribute": getattr(out, "time", None) if extra == ["time"] else "-", "root": getattr(out, "root", None)},
                   "node i restored from (tensor_i, qn_i) for i = 0..n-1 in node order; extra attributes restored; root = node 0", line=fl.node.lineno,
                   detail=f"{cname}: a dumped tree state must reload with every tensor (and its labels) on its own node: " + (wrong[0] if wrong else "attributes / connectivity differ") +
                          " - e.g. reading the archive's keys in lexicographic order puts tensor_10 before tensor_2 for trees with more than ten nodes")



def chain_round_trip_rule(chk, src):
    """MatrixProduct / Mps: the writer's dictionary is fed to the reader of the same class; sites, labels, centre, direction, total charge (and prefactor) come back in place"""
    from ..syminterp import SymInterp, Sym, OpenSym, Blob

    def _content(name):
        return name.startswith(("array-of-site", "coeff"))

    class Val(Sym):
        """stored value; conversions are recorded in the name (narrowing conversions of numerical content: tensors, prefactor; bookkeeping integers may be cast)"""
        def astype(self, t):
            wide = t in (complex, "complex", "complex128", "c16") or "complex" in str(t)
            return Val(self._name if (wide or not _content(self._name)) else f"{self._name}.astype({getattr(t, '__name__', t)})")

        def __abs__(self):
            return Val(f"abs({self._name})")

        def any(self, *a, **k):
            """a test of the stored values: this run takes the outcome `no entry is non-zero` (a tensor of a complex state whose imaginary part vanishes is a legitimate input)"""
            return False

        def all(self, *a, **k):
            return False

        def __float__(self):
            raise TypeError(f"float() of the stored value {self._name}")

        def round(self, *a):
            return Val(f"{self._name}.round()")

        def tolist(self):
            return Val(self._name)

        def item(self, *a):
            return Val(self._name)

        def __getitem__(self, k):
            return Val(f"{self._name}[{k!r}]")

        @property
        def real(self):
            return Val(self._name + ".real")

        @property
        def imag(self):
            return Val(self._name + ".imag")
    MPDM_, MPO_ = "renormalizer/mps/mpdm.py", "renormalizer/mps/mpo.py"
    for cname, rel in (("MatrixProduct", MP), ("Mps", MPS), ("MpDm", MPDM_), ("Mpo", MPO_)):
        # the reader / writer the class inherits
        owner = {c.name: c for c in src.mro(src.cls(rel, cname))}
        fl = next(c.methods["load"] for c in src.mro(src.cls(rel, cname)) if "load" in c.methods)
        base_d = src.func(MP, "MatrixProduct.dump")
        fd = next(c.methods["dump"] for c in src.mro(src.cls(rel, cname)) if "dump" in c.methods)
        for n in (2, 11):
            sites = [Sym(f"site{i}", array=Val(f"array-of-site{i}")) for i in range(n)]
            qn = [Val(f"qn-of-bond{i}") for i in range(n + 1)]
            saved = {}

            class Chain(Sym):
                def __iter__(self):
                    return iter(sites)
            me = Chain("mp", site_num=n, qn=qn, qnidx=Val("qnidx"), qntot=Val("qntot"), to_right=Val("to_right"), coeff=Val("coeff"))
            me._cls = cname
            from .chain_rules import class_resolver
            resolve = class_resolver(src, {"MatrixProduct": MP, "Mps": MPS, "MpDm": MPDM_, "Mpo": MPO_})

            class ObjArr(Sym):
                def __init__(self):
                    super().__init__("object-array")
                    self.items = None

                def __setitem__(self, k, v):
                    self.items = list(v)

                def __getitem__(self, k):
                    return self.items[k]

                def __len__(self):
                    return len(self.items)
            itd = SymInterp(src, resolve, {"np": OpenSym("np", savez=lambda fname, **kw: saved.update(kw), empty=lambda n_, t=None, dtype=None, **k_: ObjArr(), iscomplexobj=lambda x: True, iscomplex=lambda x: True,
                                                             isrealobj=lambda x: False, real=lambda x: x.real, imag=lambda x: x.imag),
                                           "logger": Blob("logger"), "object": object,
                                        "super": lambda: Sym("super", dump=lambda fname, other_attrs=None: itd.call_function(base_d, [me, fname, other_attrs]))})
            itd.builtins["isinstance"] = lambda x, t: isinstance(x, t) if isinstance(t, type) else False
            from ..syminterp import SymRaise
            fail = None
            try:
                itd.call_function(fd, [me, "file"])
            except (AttributeError, KeyError, IndexError, TypeError, SymRaise) as e:
                fail = f"writer: {type(e).__name__}: {e}"

            class Archive(Sym):
                def __getitem__(self, k):
                    return saved[k]
            got = {"sites": []}

            class New(Sym):
                def append(self, mt):
                    got["sites"].append(repr(mt))

            def maker(klass):
                def make():
                    got["obj"] = New("loaded")
                    got["obj"]._cls = klass
                    return got["obj"]
                return make
            cls_ = maker(cname)
            itl = SymInterp(src, resolve, {"np": OpenSym("np", load=lambda *a, **k: Archive("npload"), iscomplexobj=lambda x: False), "backend": Blob("backend"), "logger": Blob("logger"),
                                        "int": lambda x: x if not (isinstance(x, Val) and _content(x._name)) else Val(f"int({x._name})"), "bool": lambda x: x,
                                        "float": lambda x: Val(f"float({x._name})") if isinstance(x, Val) else float(x), "abs": lambda x: abs(x), **{k_: maker(k_) for k_ in ("MatrixProduct", "Mps", "MpDm", "Mpo")}})
            out = None
            if fail is None:
                try:
                    out = itl.call_function(fl, [cls_, "model", "file"])
                except (AttributeError, KeyError, IndexError, TypeError, SymRaise) as e:
                    fail = f"reader fed with the writer's archive: {type(e).__name__}: {e}"
            o = got.get("obj")
            probs = [fail] if fail else []
            if got["sites"] != [f"array-of-site{i}" for i in range(n)]:
                probs.append(f"sites restored as {got['sites'][:4]}...")
            oq = getattr(o, "qn", None)
            oq = oq.items if isinstance(oq, ObjArr) else oq
            if [repr(x) for x in (oq or [])] != [f"qn-of-bond{i}" for i in range(n + 1)]:
                probs.append(f"bond labels restored as {[repr(x) for x in (oq or [])][:4]}...")
            if getattr(o, "_cls", None) != cname:
                probs.append(f"{cname}.load returns an object of class {getattr(o, '_cls', None)}")
            for attr in ("qnidx", "qntot", "to_right") + (("coeff",) if fl.cls is not None and fl.cls.name == "Mps" else ()):
                if repr(getattr(o, attr, None)) != attr:
                    probs.append(f"{attr} restored as {getattr(o, attr, None)!r}")
            if getattr(o, "model", None) != "model" or out is not o:
                probs.append("model / returned object")
            chk.ob("chain-round-trip", f"{cname}.dump -> {cname}.load [{n} sites]", not probs, fl.where, probs[:3] or "class, sites, labels, centre, direction, charge" + (", prefactor" if fl.cls is not None and fl.cls.name == "Mps" else ""),
                   "every quantity restored from what was written for it, sites and bonds in order", line=fl.node.lineno,
                   detail=f"{cname}: " + (probs[0] if probs else "") + " - a dumped state must reload identically")


def run(chk):
    src = chk.src
    chk.explanation = (
        "Decides two structural clauses of C14. (1) key/version agreement: for every state class, the key set and version "
        "literal written by its dump chain (followed through super() with parameter binding) is accepted by its load chain, "
        "every key read on the accepted branch is written, every key is wired to the same attribute on both sides, and "
        "every state-defining attribute is dumped and restored. (2) crash safety of TdMpsJob.dump_dict: the function is "
        "reduced to its file-system effects and abstractly interpreted from every abstract directory state in the closure "
        "of 'crash at any effect (including inside the writer) or IOError, then run the protocol again'; at every crash "
        "instant a complete result file must exist if one existed at the start. Not decided: bit-identical npz round trip "
        "of values (numpy is the trusted base), the optional per-step MPS dump file.")
    chk.assumptions = ["np.savez is not atomic (a crash inside it leaves a partial file); os.rename/os.replace/os.remove are atomic",
                       "a file is loadable iff its writer completed", "numpy's npz round trip preserves arrays"]

    chk.rule("crash-points", "from every reachable abstract directory state holding a complete result file, a complete result "
             "file exists after every file-system effect of dump_dict (exhaustive)", 3)
    chk.rule("lossless-restore", "numerical content read from the archive is restored without narrowing conversions", 10)
    lossless_restore_rule(chk, src)
    chk.rule("tree-round-trip", "abstract run of the tree writer followed by the tree reader (3 and 12 nodes; with and without a user attribute list)", 6)
    tree_round_trip_rule(chk, src)
    chk.rule("chain-round-trip", "abstract run of the chain writer followed by the chain reader each class inherits (2 and 11 sites; MatrixProduct, Mps, MpDm, Mpo): an object of the same class comes back", 8)
    chain_round_trip_rule(chk, src)
    chk.rule("spill-protocol", "disk spill of large site tensors (abstract run on two objects over a model file system): one file per (object, site), round trip of content, dtype and labels, replacement, cleanup of own files only, nothing written below the limit", 5)
    spill_rule(chk, src)
    chk.rule("dump-completes", "normal completion of dump_dict leaves the primary result file complete", 1)
    chk.rule("periodic-dump", "TdMpsJob.evolve (abstract run with recorders, 24 configurations): the result file is written after every completed and processed step", 24)
    periodic_dump_rule(chk, src, "periodic-dump")

    # ------------------------------------------------------------------ crash points
    fi = src.func(TDMPS, "TdMpsJob.dump_dict")

    def is_result_writer(call):
        return any(k.arg is None for k in call.keywords)

    res = fs.explore(fi.node, is_result_writer)
    primary = res["primary"]
    chk.table("fs_model", {"primary": primary, "family": [short(p, primary) for p in res["family"]],
                           "temporary_names (not counted as result files)": [short(p, primary) for p in res["temp_paths"]],
                           "start_states": [{short(k, primary): v for k, v in s.items()} for s in res["start_states"]],
                           "effects": sorted(fs.REMOVE | fs.MOVE | fs.COPY | fs.WRITE)})
    chk.extra["states"] = res["states"]
    chk.extra["transitions"] = res["transitions"]
    chk.extra["fs_samples"] = [{"start": {short(k, primary): v for k, v in s["start"].items()},
                                "crash_instants": s["crash_instants"],
                                "example_trace": [short(t, primary) for t in s["example_trace"]]} for s in res["samples"]]
    viol_by_start = {}
    completion_viol = []
    for v in res["violations"]:
        if v["after"].startswith("normal completion"):
            completion_viol.append(v)
            continue
        sk = ",".join(f"{short(k, primary)}={val}" for k, val in sorted(v["start"].items()))
        viol_by_start.setdefault(sk, []).append(v)
    for st in res["start_states"]:
        if not any(v == fs.C for k, v in st.items() if k not in res["temp_paths"]):
            continue
        sk = ",".join(f"{short(k, primary)}={val}" for k, val in sorted(st.items()))
        vs = viol_by_start.get(sk, [])
        if not vs:
            chk.ob("crash-points", f"start[{sk}]", True, fi.where, "a complete file exists at every crash instant", "")
        else:
            v = vs[0]
            chk.ob("crash-points", f"start[{sk}] after {short(v['after'], primary)}", False, fi.where,
                   {short(k, primary): val for k, val in v["state"].items()}, "some file complete",
                   detail="from directory state {" + sk + "}, after `" + short(v["after"], primary) +
                          "` no complete result file is left; trace: " + " ; ".join(short(t, primary) for t in v["trace"]),
                   line=v["line"])
    chk.ob("dump-completes", "TdMpsJob.dump_dict", not completion_viol, fi.where,
           [short(v["after"], primary) for v in completion_viol[:2]] or "primary complete on every normal exit", "primary complete")


def run_thorough(chk):
    """Thorough: every TdMpsJob subclass in the repository inherits dump_dict (no override changes the protocol),
    and every other np.savez-to-fixed-name site in job classes is listed."""
    src = chk.src
    chk.rule("protocol-override", "no TdMpsJob subclass overrides dump_dict with a different protocol (each override is analysed)", 0)
    base = src.cls(TDMPS, "TdMpsJob")
    subs = src.subclasses(base)
    n = 0
    for c in subs:
        if "dump_dict" in c.methods:
            fi = c.methods["dump_dict"]
            res = fs.explore(fi.node, lambda call: any(k.arg is None for k in call.keywords))
            bad = [v for v in res["violations"]]
            chk.ob("protocol-override", f"{c.name}.dump_dict", not bad, fi.where, len(bad), 0)
        n += 1
    chk.note(f"thorough: {n} TdMpsJob subclasses inspected: {[c.name for c in subs]}")


META = {
    "category": "other",
    "engine": "FS",
    "technique": "abstract interpretation: writer run followed by the reader on the writer's archive (chains and trees), site accessors of two live objects over a model file system, TdMpsJob.evolve with recorders; exhaustive abstract interpretation of the dump protocol's file-system effects over abstract directory states",
    "text": "Structural clauses of C14 decided on the source: (a) every key/version a state class writes is what its loader accepts and "
            "reads, wired to the same attribute, and all state-defining attributes round-trip; (b) TdMpsJob.dump_dict is reduced to its "
            "file-system effects and interpreted from every abstract directory state reachable by crashing (also inside the writer, also "
            "via IOError) and restarting: a complete result file must survive every instant. The state space is finite and enumerated "
            "completely. The numerical identity of reloaded values is not decided (numpy round trip is trusted)."
            ' Values read back from the archive pass only through value-preserving conversions; the disk spill of large site tensors uses one file per (object, site), read back with the same dtype and quantum numbers.',
    "note": "Assumes rename/replace/remove are atomic, savez is not; models a path as absent/partial/complete. Unknown os/shutil calls or "
            "effects inside loops stop the analysis with exit 2 instead of a verdict.",
    "design_ref": "DESIGN.md 3.8, 4 (C14); as built: 9.1, 9.3, 9.8",
}
