"""C15 - symbolic operator algebra: eq/hash key agreement, array-valued truth tests on quantum numbers,
quantum numbers carried through every Op rebuilt from an Op, aggregation order in Op.product, and the
factor homomorphism of the scalar/negation/division/simplify constructors (symbolic, sympy)."""
import ast

from ..src import AnalysisError, unparse, norm_stmt, walk_no_nested

OP = "renormalizer/model/op.py"
MODEL = "renormalizer/model/model.py"
SYMMPO = "renormalizer/mps/symbolic_mpo.py"
HQC = "renormalizer/model/h_qc.py"

REDUCERS = {"np.all", "np.any", "np.array_equal", "np.allclose", "numpy.all", "numpy.any", "all", "any", "np.isclose", "np.count_nonzero"}


# ------------------------------------------------------------------ eq / hash
def self_attr_reads(src, ci, fi, seen=None, recv="self"):
    """Attributes of `recv` (self) read by method fi, transitively through self.method() / properties."""
    seen = seen if seen is not None else set()
    if fi.where in seen:
        return set()
    seen.add(fi.where)
    out = set()
    for n in ast.walk(fi.node):
        if isinstance(n, ast.Attribute) and isinstance(n.value, ast.Name) and n.value.id == recv:
            m = src.method(ci, n.attr)
            if m is not None:
                out |= self_attr_reads(src, ci, m, seen, m.params()[0] if m.params() else "self")
            else:
                out.add(n.attr)
    return out


# ------------------------------------------------------------------ array truth
class ArrayTruth:
    def __init__(self, src, chk, fi, array_attrs=("qn_list",), array_props=("qn",), op_names=()):
        self.src, self.chk, self.fi = src, chk, fi
        self.array_attrs, self.array_props = set(array_attrs), set(array_props)
        self.op_names = set(op_names)
        self.arr = set()      # local names holding one ndarray
        self.count = 0

    def is_list_of_arrays(self, e):
        return isinstance(e, ast.Attribute) and e.attr in self.array_attrs

    def is_array(self, e):
        if isinstance(e, ast.Name):
            return e.id in self.arr
        if isinstance(e, ast.Subscript) and self.is_list_of_arrays(e.value) and not isinstance(e.slice, ast.Slice):
            return True
        if isinstance(e, ast.Attribute) and e.attr in self.array_props and isinstance(e.value, ast.Name) \
                and (e.value.id in self.op_names):
            return True
        if isinstance(e, ast.Call) and unparse(e.func) == "sum" and e.args and self.is_list_of_arrays(e.args[0]):
            return True
        if isinstance(e, ast.BinOp):
            return self.is_array(e.left) or self.is_array(e.right)
        if isinstance(e, ast.UnaryOp) and isinstance(e.op, ast.USub):
            return self.is_array(e.operand)
        return False

    def bind_loops(self):
        fn = self.fi.node
        for n in ast.walk(fn):
            gens = []
            if isinstance(n, ast.For):
                gens.append((n.target, n.iter))
            if isinstance(n, (ast.ListComp, ast.GeneratorExp, ast.SetComp, ast.DictComp)):
                gens.extend((g.target, g.iter) for g in n.generators)
            for tgt, it in gens:
                if self.is_list_of_arrays(it) and isinstance(tgt, ast.Name):
                    self.arr.add(tgt.id)
                if isinstance(it, ast.Call) and unparse(it.func) == "zip" and isinstance(tgt, ast.Tuple):
                    for pos, a in enumerate(it.args):
                        if self.is_list_of_arrays(a) and pos < len(tgt.elts) and isinstance(tgt.elts[pos], ast.Name):
                            self.arr.add(tgt.elts[pos].id)
                if isinstance(it, ast.Call) and unparse(it.func) == "enumerate" and it.args and self.is_list_of_arrays(it.args[0]) \
                        and isinstance(tgt, ast.Tuple) and len(tgt.elts) == 2 and isinstance(tgt.elts[1], ast.Name):
                    self.arr.add(tgt.elts[1].id)
        # parameters annotated as Op
        a = fn.args
        for p in a.args + a.kwonlyargs:
            if p.annotation is not None and unparse(p.annotation).strip("'\"") == "Op":
                self.op_names.add(p.arg)
        for n in ast.walk(fn):
            if isinstance(n, ast.AnnAssign) and isinstance(n.target, ast.Name) and unparse(n.annotation).strip("'\"") == "Op":
                self.op_names.add(n.target.id)

    def bool_contexts(self):
        fn = self.fi.node
        for n in ast.walk(fn):
            if isinstance(n, (ast.If, ast.While, ast.Assert, ast.IfExp)):
                yield n.test, n
            elif isinstance(n, ast.BoolOp):
                for v in n.values:
                    yield v, n
            elif isinstance(n, ast.UnaryOp) and isinstance(n.op, ast.Not):
                yield n.operand, n
            elif isinstance(n, (ast.ListComp, ast.GeneratorExp, ast.SetComp, ast.DictComp)):
                for g in n.generators:
                    for c in g.ifs:
                        yield c, n
            elif isinstance(n, ast.Call) and unparse(n.func) == "bool" and n.args:
                yield n.args[0], n

    def run(self):
        self.bind_loops()
        done = set()
        for e, ctx in self.bool_contexts():
            if id(e) in done:
                continue
            done.add(id(e))
            if isinstance(e, (ast.BoolOp,)) or (isinstance(e, ast.UnaryOp) and isinstance(e.op, ast.Not)):
                continue  # their operands are visited on their own
            verdict = None
            if isinstance(e, ast.Compare):
                ops_ok = all(isinstance(o, (ast.Is, ast.IsNot, ast.In, ast.NotIn)) for o in e.ops)
                operands = [e.left] + list(e.comparators)
                if any(self.is_array(x) for x in operands):
                    verdict = ops_ok
            elif self.is_array(e):
                verdict = False
            if verdict is None:
                # a reducer call wrapping a comparison on an array value: an ok instance
                if isinstance(e, ast.Call) and (unparse(e.func) in REDUCERS or (isinstance(e.func, ast.Attribute) and e.func.attr in ("all", "any"))):
                    inner = [x for x in ast.walk(e) if isinstance(x, ast.Compare)]
                    if any(self.is_array(y) or self.is_list_of_arrays(y) or any(self.is_list_of_arrays(z) for z in ast.walk(y))
                           for c in inner for y in [c.left] + list(c.comparators)):
                        verdict = True
            if verdict is None:
                continue
            self.count += 1
            st = ctx
            self.chk.ob("array-truth", f"{self.fi.qual}: {norm_stmt(e, 80)}", verdict, self.fi.where,
                        "element-wise comparison of an ndarray used as a truth value" if not verdict else "reduced / identity test",
                        "np.all(...) / np.any(...) / `is None`",
                        detail="a quantum-number array (one entry per conserved quantity) is compared with == and the result used "
                               "as a bool: raises ValueError for more than one component" if not verdict else "",
                        line=e.lineno)


# ------------------------------------------------------------------ qn carry
def qn_carry(src, chk, fi):
    fn = fi.node
    tainted = set()
    SYMATTR = {"symbol", "split_symbol"}

    def reads_sym(e):
        for x in ast.walk(e):
            if isinstance(x, ast.Attribute) and x.attr in SYMATTR:
                return True
            if isinstance(x, ast.Name) and x.id in tainted:
                return True
        return False

    changed = True
    while changed:
        changed = False
        for n in walk_no_nested(fn):
            tg = []
            if isinstance(n, ast.Assign) and reads_sym(n.value):
                for t in n.targets:
                    tg += [x.id for x in ast.walk(t) if isinstance(x, ast.Name)]
            if isinstance(n, ast.For) and reads_sym(n.iter):
                tg += [x.id for x in ast.walk(n.target) if isinstance(x, ast.Name)]
            if isinstance(n, (ast.ListComp, ast.GeneratorExp)):
                for g in n.generators:
                    if reads_sym(g.iter):
                        tg += [x.id for x in ast.walk(g.target) if isinstance(x, ast.Name)]
            if isinstance(n, ast.Call) and isinstance(n.func, ast.Attribute) and n.func.attr in ("append", "extend", "insert") \
                    and isinstance(n.func.value, ast.Name) and any(reads_sym(a) for a in n.args):
                tg.append(n.func.value.id)
            for t in tg:
                if t not in tainted:
                    tainted.add(t)
                    changed = True
    n_inst = 0
    for n in walk_no_nested(fn):
        if isinstance(n, ast.Call) and unparse(n.func) in ("Op", "cls", "self.__class__") and n.args:
            if unparse(n.func) != "Op" and not (fi.cls is not None and fi.cls.name == "Op"):
                continue
            a0 = n.args[0]
            if isinstance(a0, (ast.Constant, ast.JoinedStr)) and not reads_sym(a0):
                continue
            if not reads_sym(a0):
                continue
            qn = None
            if len(n.args) >= 4:
                qn = n.args[3]
            for k in n.keywords:
                if k.arg == "qn":
                    qn = k.value
            ok = qn is not None and not (isinstance(qn, ast.Constant) and qn.value is None)
            n_inst += 1
            chk.ob("qn-carry", f"{fi.qual}: {norm_stmt(n, 90)}", ok, fi.where, "qn passed: " + (unparse(qn) if qn is not None else "<missing>"),
                   "explicit qn argument", line=n.lineno,
                   detail="an Op is rebuilt from the symbols of an existing Op without its quantum numbers; the default (a^dagger -> +1, a -> -1, "
                          "others 0) silently replaces user-specified / multi-component quantum numbers" if not ok else "")
    return n_inst


# ------------------------------------------------------------------ factor algebra
def factor_expr(node, env):
    import sympy as sp
    if isinstance(node, ast.Constant) and isinstance(node.value, (int, float)) and not isinstance(node.value, bool):
        return sp.nsimplify(node.value)
    if isinstance(node, ast.Name):
        if node.id in env:
            return env[node.id]
        raise AnalysisError(f"factor expression: unbound name {node.id}")
    if isinstance(node, ast.Attribute):
        t = unparse(node)
        if t in env:
            return env[t]
        raise AnalysisError(f"factor expression: unknown attribute {t}")
    if isinstance(node, ast.UnaryOp) and isinstance(node.op, ast.USub):
        return -factor_expr(node.operand, env)
    if isinstance(node, ast.BinOp):
        a, b = factor_expr(node.left, env), factor_expr(node.right, env)
        if isinstance(node.op, ast.Add):
            return a + b
        if isinstance(node.op, ast.Sub):
            return a - b
        if isinstance(node.op, ast.Mult):
            return a * b
        if isinstance(node.op, ast.Div):
            return a / b
    if isinstance(node, ast.Call):
        fn = unparse(node.func)
        if fn in ("np.prod", "numpy.prod", "math.prod") and len(node.args) == 1 and isinstance(node.args[0], (ast.ListComp, ast.GeneratorExp)):
            comp = node.args[0]
            t = unparse(comp.elt)
            if t in env.get("__elem__", {}):
                return env["__elem__"][t][1]   # product over the list
        if fn == "sum" and len(node.args) == 1 and isinstance(node.args[0], (ast.ListComp, ast.GeneratorExp)):
            comp = node.args[0]
            import sympy as sp
            if isinstance(comp.elt, ast.Attribute) and comp.elt.attr == "factor":
                return env["__sum_factor__"]
    raise AnalysisError(f"factor expression outside the interpreted fragment: {unparse(node)}")



# ------------------------------------------------------------------------------------------ operand order of products (abstract run of the dunder methods)
def product_order_rule(chk, src):
    """Op / OpSum / plain list products keep the left operand on the left: (sum_l L_l)(sum_r R_r) = sum_{l,r} L_l R_r as ordered words"""
    from ..syminterp import SymInterp, Sym
    f = {q: src.func(OP, q) for q in ("Op.__mul__", "Op.__rmul__", "OpSum.__mul__", "OpSum.__rmul__", "Op.__add__", "Op.__radd__", "Op.__neg__", "Op.__sub__",
                                      "OpSum.__add__", "OpSum.__iadd__", "OpSum.__neg__", "OpSum.__sub__", "OpSum.__truediv__")}
    cur_self = []
    from .chain_rules import class_resolver
    it = SymInterp(src, class_resolver(src, {"Op": OP, "OpSum": OP}), {})
    it.max_depth = 30
    it.check_asserts = True

    class Word(Sym):
        """an operator: ordered word of elementary operator names and a scalar factor"""
        def __init__(self, letters, factor=()):
            super().__init__("*".join(letters) + ("" if not factor else "[" + "*".join(factor) + "]"))
            self._cls = "Op"
            self.letters, self.fac = tuple(letters), tuple(sorted(factor))
            self.symbol, self.dofs, self.qn_list = ("symbol", self.letters), ("dofs", self.letters), ("qn", self.letters)

        @property
        def factor(self):
            return Fac(self.fac)

        def __mul__(self, o):
            return it.call_function(f["Op.__mul__"], [self, o])

        def __rmul__(self, o):
            return it.call_function(f["Op.__rmul__"], [self, o])

        def __add__(self, o):
            return it.call_function(f["Op.__add__"], [self, o])

        def __radd__(self, o):
            return it.call_function(f["Op.__radd__"], [self, o])

        def __neg__(self):
            return it.call_function(f["Op.__neg__"], [self])

        def __sub__(self, o):
            return it.call_function(f["Op.__sub__"], [self, o])

    class Fac:
        def __init__(self, names):
            self.names = tuple(sorted(names))

        def __mul__(self, o):
            return Fac(self.names + (o.names if isinstance(o, Fac) else (repr(o),)))

        __rmul__ = __mul__

        def __neg__(self):
            return Fac(self.names + ("-1",))

    class Scal(Sym):
        def __init__(self, name):
            super().__init__(name)
            self.name = name

        def __repr__(self):
            return self.name

        def __rtruediv__(self, o):
            return Scal(f"{o}/{self.name}")

    class NpScal(Scal):
        """a numpy scalar that is not an instance of a Python number type (np.int64, np.float32, ...): only `np.generic` (or a numpy abstract scalar type) recognises it"""
        def item(self):
            return Scal(self.name)

        def __rtruediv__(self, o):
            return NpScal(f"{o}/{self.name}")

    class Sum(list):
        _cls = "OpSum"

        def _call(self, q, *a):
            cur_self.append(self)
            try:
                return it.call_function(f[q], [self] + list(a))
            finally:
                cur_self.pop()

        def __mul__(self, o):
            return self._call("OpSum.__mul__", o)

        def __rmul__(self, o):
            return self._call("OpSum.__rmul__", o)

        def __add__(self, o):
            return self._call("OpSum.__add__", o)

        def __iadd__(self, o):
            return self._call("OpSum.__iadd__", o)

        def __neg__(self):
            return self._call("OpSum.__neg__")

        def __sub__(self, o):
            return self._call("OpSum.__sub__", o)

        def __truediv__(self, o):
            return self._call("OpSum.__truediv__", o)

    class ListSuper(Sym):
        """super() of the list subclass: plain list behaviour on the current receiver"""
        def __init__(self):
            super().__init__("super")

        def __add__(self, o):
            return list.__add__(cur_self[-1], list(o))

        def __iadd__(self, o):
            list.extend(cur_self[-1], list(o))
            return cur_self[-1]

        def __mul__(self, o):
            # reaching list.__mul__ is a verdict about the analysed code (the operand is treated as a repetition count), not an incapacity of the stand-ins
            raise RuntimeError("the plain list repetition list * n is reached: the operand is not recognised as a scalar factor")

        __rmul__ = __mul__

    def isinst(x, t):
        ts = t if isinstance(t, tuple) else (t,)
        if x == 0 and isinstance(x, int) and any(tt in (int, float) for tt in ts):
            return True
        for tt in ts:
            if tt == "Op" and isinstance(x, Word):
                return True
            if tt is list and isinstance(x, list):
                return True
            if tt in (int, float, complex) and ((isinstance(x, Scal) and not isinstance(x, NpScal)) or (isinstance(x, (int, float, complex)) and not isinstance(x, bool))):
                return True
            if tt in ("np.generic", "np.number", "np.integer") and isinstance(x, NpScal):
                return True
        return False

    def op_ctor(symbol, dofs, factor=None, qn=None):
        return Word(symbol[1], factor.names if isinstance(factor, Fac) else ())

    opcls = Sym("Op", product=lambda ops: Word(tuple(l for o in ops for l in o.letters), tuple(x for o in ops for x in o.fac)))
    it.builtins.update({"isinstance": isinst, "Op": "Op", "OpSum": lambda x=(): Sum(x), "np": Sym("np", generic="np.generic", number="np.number", integer="np.integer", ndarray="np.ndarray", array_equal=lambda a_, b_: False, array=lambda x: x), "TypeError": lambda *a: Exception("TypeError"),
                        "super": lambda: ListSuper()})
    # `Op` is used both as a class in isinstance and as a constructor / namespace: a callable symbol that compares equal to the tag
    class OpTag(Sym):
        def __call__(self, *a, **k):
            return op_ctor(*a, **k)

        def __eq__(self, o):
            return o == "Op" or o is self

        def __hash__(self):
            return hash("Op")
    tag = OpTag("Op")
    tag.__dict__["product"] = opcls.product
    it.builtins["Op"] = tag
    a, b, c, d = (Word((x,)) for x in "abcd")
    k = Scal("k")
    n_ = NpScal("n")

    def words(x):
        xs = x if isinstance(x, list) else [x]
        return sorted((w.letters, w.fac) for w in xs)

    def expect(ls, rs, fac=()):
        return sorted((l.letters + r.letters, tuple(sorted(fac))) for l in ls for r in rs)
    cases = [("Op * Op", lambda: a * b, expect([a], [b])),
             ("Op * list", lambda: a * [b, c], expect([a], [b, c])),
             ("list * Op", lambda: [a, b] * c, expect([a, b], [c])),
             ("OpSum * Op", lambda: Sum([a, b]) * c, expect([a, b], [c])),
             ("Op * OpSum", lambda: a * Sum([b, c]), expect([a], [b, c])),
             ("OpSum * OpSum", lambda: Sum([a, b]) * Sum([c, d]), expect([a, b], [c, d])),
             ("OpSum * list", lambda: Sum([a, b]) * [c, d], expect([a, b], [c, d])),
             ("scalar * Op", lambda: it.call_function(f["Op.__rmul__"], [a, k]), sorted([(("a",), ("k",))])),
             ("Op * scalar", lambda: a * k, sorted([(("a",), ("k",))])),
             ("scalar * OpSum", lambda: it.call_function(f["OpSum.__rmul__"], [Sum([a, b]), k]), sorted([(("a",), ("k",)), (("b",), ("k",))])),
             ("OpSum * scalar", lambda: Sum([a, b]) * k, sorted([(("a",), ("k",)), (("b",), ("k",))])),
             ("Op + Op", lambda: a + b, sorted([(("a",), ()), (("b",), ())])),
             ("Op + list", lambda: a + [b, c], sorted([(("a",), ()), (("b",), ()), (("c",), ())])),
             ("0 + Op (sum() start value)", lambda: it.call_function(f["Op.__radd__"], [a, 0]), sorted([(("a",), ())])),
             ("Op - Op", lambda: a - b, sorted([(("a",), ()), (("b",), ("-1",))])),
             ("-Op", lambda: -a, sorted([(("a",), ("-1",))])),
             ("OpSum + Op", lambda: Sum([a, b]) + c, sorted([(("a",), ()), (("b",), ()), (("c",), ())])),
             ("OpSum + OpSum", lambda: Sum([a, b]) + Sum([c, d]), sorted([(("a",), ()), (("b",), ()), (("c",), ()), (("d",), ())])),
             ("OpSum += Op", lambda: Sum([a, b]).__iadd__(c), sorted([(("a",), ()), (("b",), ()), (("c",), ())])),
             ("OpSum += list", lambda: Sum([a, b]).__iadd__([c, d]), sorted([(("a",), ()), (("b",), ()), (("c",), ()), (("d",), ())])),
             ("-OpSum", lambda: -Sum([a, b]), sorted([(("a",), ("-1",)), (("b",), ("-1",))])),
             ("OpSum - Op", lambda: Sum([a, b]) - c, sorted([(("a",), ()), (("b",), ()), (("c",), ("-1",))])),
             ("OpSum - OpSum", lambda: Sum([a, b]) - Sum([c, d]), sorted([(("a",), ()), (("b",), ()), (("c",), ("-1",)), (("d",), ("-1",))])),
             ("OpSum / scalar", lambda: Sum([a, b]) / k, sorted([(("a",), ("1/k",)), (("b",), ("1/k",))])),
             ("numpy scalar * Op", lambda: it.call_function(f["Op.__rmul__"], [a, n_]), sorted([(("a",), ("n",))])),
             ("Op * numpy scalar", lambda: a * n_, sorted([(("a",), ("n",))])),
             ("numpy scalar * OpSum", lambda: it.call_function(f["OpSum.__rmul__"], [Sum([a, b]), n_]), sorted([(("a",), ("n",)), (("b",), ("n",))])),
             ("OpSum * numpy scalar", lambda: Sum([a, b]) * n_, sorted([(("a",), ("n",)), (("b",), ("n",))])),
             ("OpSum / numpy scalar", lambda: Sum([a, b]) / n_, sorted([(("a",), ("1/n",)), (("b",), ("1/n",))]))]
    for name, run_, want in cases:
        try:
            got = words(run_())
            err = None
        except AnalysisError:
            raise                   # the stand-ins cannot follow the code: no verdict
        except Exception as e:      # TypeError raised by the interpreted code, recursion ...
            got, err = None, f"{type(e).__name__}: {e}"
        chk.ob("operand-order", name, got == want, f["Op.__mul__"].where, err or [".".join(w) + ("" if not fc else "*" + "*".join(fc)) for w, fc in got],
               [".".join(w) + ("" if not fc else "*" + "*".join(fc)) for w, fc in want], line=f["Op.__mul__"].node.lineno,
               detail=f"{name}: the result must contain every term of the mathematical expression exactly once, with operands of a product in the written order (a reversed pair is a "
                      "different operator when the factors share a degree of freedom and do not commute) and with the written sign / scalar factor")
    # ---- a sum / difference / product is a new object, also when one operand contributes nothing: the result is routinely extended in place (`total += term`)
    fresh = [("OpSum + []", lambda s_: s_ + []), ("OpSum + OpSum()", lambda s_: s_ + Sum([])), ("OpSum - OpSum()", lambda s_: s_ - Sum([])), ("OpSum + Op", lambda s_: s_ + c),
             ("OpSum * scalar", lambda s_: s_ * k), ("-OpSum", lambda s_: -s_)]
    for name, op_ in fresh:
        s0 = Sum([a, b])
        try:
            r = op_(s0)
            err = None
        except AnalysisError:
            raise
        except Exception as e:
            r, err = None, f"{type(e).__name__}: {e}"
        ok = err is None and isinstance(r, list) and r is not s0 and words(s0) == sorted([(("a",), ()), (("b",), ())])
        chk.ob("operand-order", f"{name}: the result is a new object, the left operand keeps its terms", ok, f["OpSum.__add__"].where, err or ("the left operand itself" if r is s0 else "a new object"), "a new object",
               line=f["OpSum.__add__"].node.lineno, detail=f"{name} hands back its left operand: extending the result in place (`total += term`) then also changes the operand, which afterwards denotes a different operator")


def term_validation_rule(chk, src):
    """abstract run of Model.check_operator_terms: sums are flattened in order, terms with an exactly zero factor are dropped (and nothing else, whatever a tolerance test would say),
    unknown degrees of freedom and non-operators are rejected"""
    from ..syminterp import SymInterp, Sym, OpenSym, SymRaise
    fi = src.func("renormalizer/model/model.py", "Model.check_operator_terms")

    class OpV(Sym):
        pass

    class SumV(list):
        pass

    def mk(name, dofs, factor):
        return OpV(name, dofs=list(dofs), factor=factor)
    from fractions import Fraction as _Fr
    # factors of ordinary size, far below any tolerance (a Hamiltonian in small units), and exactly zero
    a, b, c, z = mk("a", ["x"], 2), mk("b", ["x", "y"], _Fr(1, 10 ** 20)), mk("c", ["y"], -3.5e-17j), mk("z", ["x"], 0)
    outs = []
    for verdict in (True, False):
        it = SymInterp(src, None, {"Op": "Op", "OpSum": "OpSum", "np": OpenSym("np", isclose=lambda *x, **k: verdict, allclose=lambda *x, **k: verdict)})
        it.builtins["isinstance"] = lambda x, t: (t == "Op" and isinstance(x, OpV)) or (t == "OpSum" and isinstance(x, SumV))
        outs.append(it.call_function(fi, [Sym("model", dofs=["x", "y"]), [a, SumV([b, z]), c]]))
    ok = all(isinstance(o, list) and len(o) == 3 and o[0] is a and o[1] is b and o[2] is c for o in outs)
    chk.ob("term-validation", "sums flattened in order, exact zeros dropped, everything else kept", ok, fi.where, [[repr(x) for x in o] if isinstance(o, list) else repr(o) for o in outs], "[a, b, c] for [a, OpSum[b, 0*z], c]",
           line=fi.node.lineno, detail="terms of the Hamiltonian must reach the MPO builder: a tolerance filter drops small couplings, a lost or reordered term changes the operator")
    rej = []
    for bad_terms, why in (([mk("u", ["nope"], Sym("f"))], "unknown degree of freedom"), (["not an operator"], "non-operator")):
        it = SymInterp(src, None, {"Op": "Op", "OpSum": "OpSum", "np": OpenSym("np")})
        it.builtins["isinstance"] = lambda x, t: (t == "Op" and isinstance(x, OpV)) or (t == "OpSum" and isinstance(x, SumV))
        it.builtins["type"] = lambda x: "type"
        try:
            it.call_function(fi, [Sym("model", dofs=["x", "y"]), bad_terms])
            rej.append(f"{why}: accepted")
        except SymRaise:
            pass
    chk.ob("term-validation", "unknown degrees of freedom and non-operators are rejected", not rej, fi.where, rej or "both rejected", "ValueError", line=fi.node.lineno)


def op_scalar_rule(chk, src, rule, rule_product=None):
    """abstract runs of the scalar side of the operator algebra on operator stand-ins whose class is the source class (constructor = a recorder of its four arguments):
    -op, op * scalar (python int / float / complex, numpy scalar), Op.product, squeeze_identity keep the denoted operator: factor(-op) = -f, factor(op * s) = f * s,
    a product has the operands' symbols / degrees of freedom / quantum numbers in operand order and the product of the factors, removing identity factors keeps the factor"""
    from ..syminterp import SymInterp, Sym, OpenSym, Blob, SymRaise
    from .chain_rules import class_resolver
    from fractions import Fraction as Fr

    class OpCls(Sym):
        _cls = "Op"

        def __call__(self, symbol, dof, factor=1.0, qn=None):
            return OpV(symbol, dof, factor, qn)
    OPC = OpCls("Op")

    class OpV(Sym):
        def __init__(self, symbol, dof, factor=1.0, qn=None):
            super().__init__(f"Op({symbol!r})")
            self._cls = "Op"
            self.symbol, self.factor = symbol, factor
            self.split_symbol = symbol.split(" ")
            self.dofs = list(dof) if isinstance(dof, list) else [dof]
            self.qn_list = list(qn) if isinstance(qn, list) else [qn] * len(self.dofs)
            self.qn_size = 1

        @property
        def __class__(self):
            return OPC

    class NpScalar(Sym):
        pass
    generic = Sym("np.generic")

    def isinst(x, t):
        ts = t if isinstance(t, tuple) else (t,)
        for tt in ts:
            if tt is OPC and type(x) is OpV:
                return True
            if tt is generic and type(x) is NpScalar:
                return True
            if isinstance(tt, type) and tt in (int, float, complex, list, str, tuple) and type(x) is not OpV and type(x) is not NpScalar and isinstance(x, tt) and not (tt is int and isinstance(x, bool)):
                return True
        return False

    def prod(xs, *a, **k):
        out = 1
        for x in xs:
            out = out * x
        return out
    resolve = class_resolver(src, {"Op": OP})

    def interp():
        zeros = lambda n, dtype=None: ("zero-qn", n)      # noqa: E731
        return SymInterp(src, resolve, {"Op": OPC, "np": OpenSym("np", make=lambda t: Blob(t), generic=generic, prod=prod, zeros=zeros, all=lambda x: True), "math": Sym("math", prod=prod),
                                        "isinstance": isinst, "OpSum": lambda x=(): ("OpSum", list(x))})
    f = 7
    qa, qb, qc = ("qn", "a"), ("qn", "b"), ("qn", "c")
    a = OpV("A", ["x"], f, [qa])
    # ---- negation
    fi = src.func(OP, "Op.__neg__")
    r = interp().call_function(fi, [a])
    ok = type(r) is OpV and r.factor == -f and (r.symbol, r.dofs, r.qn_list) == ("A", ["x"], [qa])
    chk.ob(rule, "Op.__neg__", ok, fi.where, repr((getattr(r, "symbol", r), getattr(r, "dofs", None), str(getattr(r, "factor", None)), getattr(r, "qn_list", None))), "same operator string, factor -f", line=fi.node.lineno,
           detail="factor of -op is not -factor(op), or the operator string / quantum numbers change")
    # ---- scalars
    fi = src.func(OP, "Op.__mul__")
    sc = NpScalar("numpy scalar", item=lambda: 5)
    for name, s_, val in (("int", 3, 3), ("float", 0.5, Fr(1, 2)), ("complex", 2j, 2j), ("numpy scalar", sc, 5)):
        try:
            r = interp().call_function(fi, [a, s_])
        except SymRaise as e:
            r = f"raises {e}"
        want = f * val if not isinstance(val, complex) else complex(f) * val
        ok = type(r) is OpV and r.factor == want and (r.symbol, r.dofs, r.qn_list) == ("A", ["x"], [qa])
        chk.ob(rule, f"Op.__mul__[{name}]", ok, fi.where, repr((getattr(r, "symbol", r), getattr(r, "dofs", None), str(getattr(r, "factor", None)), getattr(r, "qn_list", None))), f"same operator string, factor f * s = {want}",
               line=fi.node.lineno, detail="factor of op * s is not factor(op) * s")
    # ---- product of operators
    fi = src.func(OP, "Op.product")
    b, c = OpV("B1 B2", ["y", "z"], Fr(5), [qb, qb]), OpV("C", ["x"], Fr(1, 2), [qc])
    r = interp().call_function(fi, [OPC, [a, b, c]])
    ok = type(r) is OpV and (r.symbol, r.dofs, r.qn_list) == ("A B1 B2 C", ["x", "y", "z", "x"], [qa, qb, qb, qc]) and r.factor == f * 5 * Fr(1, 2)
    ok_order = type(r) is OpV and (r.symbol, r.dofs, r.qn_list) == ("A B1 B2 C", ["x", "y", "z", "x"], [qa, qb, qb, qc])
    if rule_product:
        chk.ob(rule_product, "Op.product: operand order of symbols, degrees of freedom and quantum numbers", ok_order, fi.where, repr((getattr(r, "symbol", r), getattr(r, "dofs", None), getattr(r, "qn_list", None))),
               repr(("A B1 B2 C", ["x", "y", "z", "x"], [qa, qb, qb, qc])), line=fi.node.lineno,
               detail="symbol / DoF / quantum-number lists of a product are aggregated in different orders: the k-th symbol no longer belongs to the k-th DoF and quantum number")
    chk.ob(rule, "Op.product", ok, fi.where, repr((getattr(r, "symbol", r), getattr(r, "dofs", None), str(getattr(r, "factor", None)), getattr(r, "qn_list", None))),
           "symbols, degrees of freedom and quantum numbers in operand order; product of the factors", line=fi.node.lineno,
           detail="the k-th symbol of a product must belong to the k-th degree of freedom and quantum number, and the factor of a product is the product of the factors")
    # ---- identity factors removed
    fi = src.func(OP, "Op.squeeze_identity")
    z = ("zero-qn", 1)
    cases = [("mixed string", OpV("X I Y I", ["d0", "d1", "d2", "d3"], f, [qa, z, qb, z]), ("X Y", ["d0", "d2"], [qa, qb])),
             ("single identity", OpV("I", ["d0"], f, [z]), ("I", ["d0"], [z])),
             ("product of identities", OpV("I I I", ["d0", "d1", "d2"], f, [z, z, z]), ("I", ["d0"], [z]))]
    for name, op_, (wsym, wdofs, wqn) in cases:
        try:
            r = interp().call_function(fi, [op_])
        except SymRaise as e:
            r = f"raises {e}"
        ok = type(r) is OpV and r.factor == f and (r.symbol, r.dofs) == (wsym, wdofs) and len(r.qn_list) == len(wqn)
        chk.ob(rule, f"Op.squeeze_identity[{name}]", ok, fi.where, repr((getattr(r, "symbol", r), getattr(r, "dofs", None), str(getattr(r, "factor", None)))), repr((wsym, wdofs, str(f))), line=fi.node.lineno,
               detail="removing identity factors never changes the denoted operator: the factor stays, also when nothing but identities is left")


def run(chk):
    import sympy as sp
    src = chk.src
    chk.explanation = (
        "Decides structural necessary conditions of the operator-algebra homomorphism in model/op.py: (1) __hash__ reads only "
        "fields that __eq__ compares (a == b implies equal hashes) and both exist; (2) no element-wise ndarray comparison of a "
        "quantum-number value is used as a truth value without a reduction; (3) every Op rebuilt from the symbols of an existing "
        "Op passes its quantum numbers explicitly; (4) Op.product aggregates symbol, DoF, factor and quantum numbers over the "
        "same iterable in the same order; (5) the factor expression of negation, scalar multiple, division, product and term "
        "merging is the ring homomorphism image (symbolic comparison). Not decided: the homomorphism for all expressions / models "
        "(value-level), string formatting, tolerance semantics of simplify.")
    chk.assumptions = ["qn_list elements and Op.qn are numpy arrays (annotation List[np.ndarray] in Op.__init__)",
                       "Op(symbol, dof, factor, qn) is the only constructor of symbolic operators"]
    chk.rule("eq-hash-key", "Op defines both __eq__ and __hash__, and every field read by __hash__ is read by __eq__ on both operands", 2)
    chk.rule("array-truth", "a quantum-number ndarray compared with ==/!=/< (or used bare) in a boolean context is reduced by np.all/np.any", 1)
    chk.rule("qn-carry", "Op(...) whose symbol derives from an existing Op's symbol/split_symbol passes an explicit qn", 9)
    chk.rule("product-order", "Op.product (abstract run on three operands, one of them a two-symbol operator): symbols, degrees of freedom and quantum numbers of the result in operand order", 1)
    chk.rule("operand-order", "abstract run of Op / OpSum / list arithmetic (*, +, -, unary -, +=, /): every term present once, operands in order, signs and scalar factors as written", 20)
    product_order_rule(chk, src)
    chk.rule("term-validation", "Model.check_operator_terms (abstract run)", 2)
    term_validation_rule(chk, src)
    chk.rule("factor-algebra", "factor of -a is -f(a); of a*s is f(a)*s; of prod is the product; of merged terms is the sum; a/s is a*(1/s)", 5)

    opc = src.cls(OP, "Op")
    # ---- eq/hash
    eq, hs = opc.methods.get("__eq__"), opc.methods.get("__hash__")
    chk.ob("eq-hash-key", "Op defines __eq__ and __hash__", eq is not None and hs is not None, f"{OP}::Op",
           {"__eq__": eq is not None, "__hash__": hs is not None}, "both defined",
           detail="Op is used as a dict key (op2idx, term grouping); defining __eq__ alone makes it unhashable, "
                  "__hash__ alone breaks value equality")
    if eq is not None and hs is not None:
        h_attrs = self_attr_reads(src, opc, hs)
        e_self = self_attr_reads(src, opc, eq)
        other = eq.params()[1] if len(eq.params()) > 1 else None
        # fields of `other` read (through the same methods)
        e_other = set()
        for n in ast.walk(eq.node):
            if isinstance(n, ast.Attribute) and isinstance(n.value, ast.Name) and n.value.id == other:
                m = src.method(opc, n.attr)
                if m is not None:
                    e_other |= self_attr_reads(src, opc, m, None, m.params()[0])
                else:
                    e_other.add(n.attr)
        ok = h_attrs <= e_self and h_attrs <= e_other and bool(h_attrs)
        chk.ob("eq-hash-key", "Op.__hash__ fields subset of Op.__eq__ fields", ok, hs.where,
               {"hash": sorted(h_attrs), "eq(self)": sorted(e_self), "eq(other)": sorted(e_other)}, "hash fields within eq fields",
               detail="__hash__ depends on a field that __eq__ does not compare: equal operators may hash differently "
                      "(dict/set lookups of operators silently miss)", line=hs.node.lineno)
    # ---- array truth over op.py, model.py (Op-typed values)
    for rel in (OP, MODEL, SYMMPO, HQC):
        for fi in src.funcs_in(rel):
            if fi.parent is not None:
                continue
            opn = {"self"} if (fi.cls is not None and fi.cls.name == "Op") else set()
            ArrayTruth(src, chk, fi, op_names=opn).run()
    # ---- qn carry
    for rel in (OP, MODEL, SYMMPO, HQC):
        for fi in src.funcs_in(rel):
            qn_carry(src, chk, fi)
    # ---- product order, factor algebra: abstract runs
    op_scalar_rule(chk, src, "factor-algebra", rule_product="product-order")
    simplify_order_rule(chk, src)
    # subtraction, negation and division of sums are decided by the operand-order runs (every term once, with its sign / scalar factor)


def simplify_order_rule(chk, src):
    """abstract run of OpSum.simplify on sums of stand-in terms (a term = operator string after identity squeezing + an exact coefficient): equal operator strings are
    merged by adding their coefficients, in the order of first appearance; the tolerance is applied to the merged coefficients only - several copies of one term, each
    below atol but summing above it, survive; terms that cancel or stay below the tolerance disappear; nothing else changes"""
    from fractions import Fraction as Fr
    from ..syminterp import SymInterp, Sym
    chk.rule("filter-after-merge", "OpSum.simplify (abstract run): equal terms merged by summing coefficients, tolerance applied after merging, order of first appearance", 3)
    fi = src.func(OP, "OpSum.simplify")

    class Term(Sym):
        def __init__(self, word, factor, squeezed=True):
            super().__init__(f"{factor}*{word}")
            self._cls = "Op"
            self.word, self.factor, self.squeezed = word, factor, squeezed
            self.symbol, self.dofs, self.qn_list = ("symbol", word), ("dofs", word), ("qn", word)

        def squeeze_identity(self):
            return Term(self.word.replace(" I", "").replace("I ", "") or "I", self.factor)

        def same_term(self, o):
            return self.word == o.word

    class OpS(list):
        _cls = "OpSum"
    from .chain_rules import class_resolver
    resolve = class_resolver(src, {"Op": OP, "OpSum": OP})
    cases = {
        "duplicates and cancellation": ([("X Y", Fr(2)), ("Z", Fr(3)), ("X Y", Fr(-2)), ("Z", Fr(1, 2)), ("W", Fr(5))], Fr(0), [("Z", Fr(7, 2)), ("W", Fr(5))]),
        "copies below the tolerance summing above it": ([("A", Fr(6, 10 ** 11)), ("B", Fr(1)), ("A", Fr(6, 10 ** 11)), ("C", Fr(1, 10 ** 12))], Fr(1, 10 ** 10), [("A", Fr(12, 10 ** 11)), ("B", Fr(1))]),
        "identity factors squeezed before comparing": ([("X I Y", Fr(1, 2)), ("X Y", Fr(1, 2)), ("Z", Fr(1, 10 ** 4))], Fr(1, 10 ** 3), [("X Y", Fr(1))]),
    }
    for name, (terms, atol, want) in cases.items():
        it = SymInterp(src, resolve, {"OpSum": lambda x=(): OpS(x), "Op": lambda symbol, dofs, factor=1, qn=None: Term(symbol[1], factor), "np": Sym("np", abs=abs, isclose=lambda a, b, **k: a == b, allclose=lambda a, b, **k: a == b),
                                   "abs": abs, "sum": lambda xs, start=0: sum(xs, start)})
        it.max_depth = 8
        me = OpS([Term(w, f) for w, f in terms])
        before = [(t.word, t.factor) for t in me]
        res = it.call_function(fi, [me, atol])
        got = [(t.word, t.factor) for t in res] if isinstance(res, list) else repr(res)
        ok = got == want and [(t.word, t.factor) for t in me] == before and res is not me
        chk.ob("filter-after-merge", f"OpSum.simplify[{name}]", ok, fi.where, str(got)[:200], str(want)[:200], line=fi.node.lineno,
               detail="the simplified sum must be the same operator up to terms whose *merged* coefficient is within the tolerance; the receiver is not changed")


def run_thorough(chk):
    """Whole repository: every class defining __eq__/__hash__, every Op(...) rebuild anywhere."""
    src = chk.src
    chk.rule("eq-hash-repo", "repository-wide: a class that defines __hash__ also defines __eq__ whose fields cover the hash fields", 0)
    for (rel, name), ci in sorted(src.classes.items()):
        hs, eq = ci.methods.get("__hash__"), ci.methods.get("__eq__")
        if hs is None or (rel == OP and name == "Op"):
            continue
        if eq is None:
            chk.note(f"{rel}::{name} defines __hash__ without __eq__ (identity equality; hash-only key) - informational")
            continue
        h = self_attr_reads(src, ci, hs)
        e = self_attr_reads(src, ci, eq)
        chk.ob("eq-hash-repo", f"{name}", h <= e or not h, f"{rel}::{name}", {"hash": sorted(h), "eq": sorted(e)}, "hash fields within eq fields")
    done = {OP, MODEL, SYMMPO, HQC}
    n = 0
    for rel in sorted(src.modules):
        if rel in done:
            continue
        for fi in src.funcs_in(rel):
            n += qn_carry(src, chk, fi)
    chk.note(f"thorough: qn-carry scanned every other module, {n} additional rebuild sites")


META = {
    "category": "other",
    "engine": "OPS",
    "technique": "abstract interpretation of the Op / OpSum dunder methods, simplify and check_operator_terms on ordered words with symbolic factors (helper methods from the source class); ast lints specific to model/op.py (eq/hash field sets, ndarray truth-value typing, taint from Op.symbol to Op(...) constructors)",
    "text": "Decides five structural necessary conditions of the symbolic-operator homomorphism on the current source (eq/hash key "
            "agreement, no ambiguous ndarray truth tests on quantum numbers, quantum numbers carried by every rebuilt Op, aggregation "
            "order in Op.product, factor expressions of neg/mul/div/product/merge are the homomorphic image). It does not decide the "
            "value-level homomorphism for all expressions and models; that remainder is declared, not claimed."
            ' The dunder methods of Op / OpSum are run abstractly on symbolic operators: every term of a sum, difference, product, negation, in-place sum or scalar division is present once with operands in written order and the written sign.'
            ' The scalar side of the algebra (negation, multiplication by python and numpy scalars, Op.product, removal of identity factors) is run on operator stand-ins of the source class: the factor of the result is the homomorphic image, also when nothing but identities is left.',
    "note": "Types come from the annotation List[np.ndarray] on qn_list and from loop/zip binding; an Op(...) site is in scope when its "
            "symbol argument is data-dependent on .symbol/.split_symbol. Forms outside the interpreted fragment give exit 2.",
    "design_ref": "DESIGN.md 3.9, 4 (C15); as built: 9.1, 9.3, 9.8",
}
