"""C16 - basis sets: ladder-algebra check of BasisSHO.op_mat branches, sine-DVR helper algebra, exact folding
of the 2x2 spin/electron matrices against the Pauli / fermion relations, copy(new_dof) forwards every
stored constructor parameter."""
import ast

import sympy as sp

from ..src import AnalysisError, unparse, norm_stmt, walk_no_nested
from ..alg import Poly, normal_order, equal, StrEval, Opaque

BASIS = "renormalizer/model/basis.py"

w = sp.Symbol("omega", positive=True)
x0 = sp.Symbol("x0", real=True)
xi = sp.Symbol("xi", real=True)
b, B = Poly.gen("b"), Poly.gen("B")

SHO_AXIOMS = {
    "b": b, r"b^\dagger": B, "b b": b * b, r"b^\dagger b^\dagger": B * B, r"b^\dagger b": B * b, r"b b^\dagger": b * B,
    "n": B * b,
}


class Val:
    def __init__(self, poly, rot="raw"):
        self.p, self.rot = poly, rot

    @staticmethod
    def join(a, c):
        if a == "inv":
            return c
        if c == "inv":
            return a
        return a if a == c else "mixed"


def const_scalar(e):
    if isinstance(e, ast.Constant) and isinstance(e.value, (int, float, complex)) and not isinstance(e.value, bool):
        v = e.value
        if isinstance(v, complex):
            return sp.nsimplify(v.real) + sp.I * sp.nsimplify(v.imag)
        return sp.nsimplify(v)
    return None


# ------------------------------------------------------------------ op_mat dispatchers run by the symbolic interpreter in the operator-polynomial domain
def _scal(x):
    """python / exact / sympy number -> sympy; None when x is not a number"""
    from fractions import Fraction
    if isinstance(x, bool):
        return None
    if isinstance(x, Fraction):
        return sp.Rational(x.numerator, x.denominator)
    if isinstance(x, (int, float)):
        return sp.nsimplify(x)
    if isinstance(x, complex):
        return sp.nsimplify(x.real) + sp.I * sp.nsimplify(x.imag)
    if isinstance(x, sp.Basic):
        return sp.nsimplify(x, rational=True) if x.has(sp.Float) else x
    return None


def _make_pv():
    from ..syminterp import Sym

    class PV(Sym):
        """operator value of an abstract run: polynomial in non-commuting generators + the basis it is expressed in
        (raw = oscillator eigenbasis, rot = DVR basis, inv = basis independent (multiple of the identity), mixed)"""
        def __init__(self, poly, rot="raw", log=None):
            super().__init__("operator")
            self.p, self.rot, self.log = poly, rot, log if log is not None else []

        def _mk(self, p, rot):
            return PV(p, rot, self.log)

        def _bin(self, o, f, what):
            if isinstance(o, PV):
                return self._mk(f(self.p, o.p), Val.join(self.rot, o.rot))
            if _scal(o) is not None:
                raise Opaque(f"matrix {what} bare scalar")
            raise Opaque(f"matrix {what} {type(o).__name__}")

        def __add__(self, o):
            return self._bin(o, lambda a, c: a + c, "+")

        def __radd__(self, o):
            return self._bin(o, lambda a, c: c + a, "+")

        def __sub__(self, o):
            return self._bin(o, lambda a, c: a - c, "-")

        def __rsub__(self, o):
            return self._bin(o, lambda a, c: c - a, "-")

        def __mul__(self, o):
            c = _scal(o)
            if c is None:
                raise Opaque("element-wise product of two matrices" if isinstance(o, PV) else f"matrix * {type(o).__name__}")
            return self._mk(self.p * Poly.scalar(c), self.rot)

        __rmul__ = __mul__

        def __truediv__(self, o):
            c = _scal(o)
            if c is None:
                raise Opaque("division by matrix")
            return self._mk(self.p * Poly.scalar(1 / c), self.rot)

        def __neg__(self):
            return self._mk(-self.p, self.rot)

        def __matmul__(self, o):
            if isinstance(o, PV):
                return self._mk(self.p * o.p, Val.join(self.rot, o.rot))
            if isinstance(o, _Rot):
                return o.__rmatmul__(self)
            raise Opaque("matrix product with a non-operator")

        def __pow__(self, k):
            raise Opaque("matrix power")

        @property
        def real(self):
            if not self.p.coeffs_real():
                self.log.append(("real of", repr(self.p)))
            return self

        @property
        def T(self):
            raise Opaque("transpose of an operator value")

        def copy(self):
            return self

    class _Rot(Sym):
        """the DVR rotation V (kind 'V') or its transpose ('VT'); V^T M V moves M from the oscillator basis into the DVR basis, V M V^T back"""
        def __init__(self, kind, pending=None):
            super().__init__(kind)
            self.kind, self.pending = kind, pending

        @property
        def T(self):
            return _Rot("VT" if self.kind == "V" else "V")

        def __matmul__(self, o):
            if isinstance(o, PV) and self.pending is None:
                return _Rot(self.kind, pending=o)
            raise Opaque("rotation applied to a non-operator")

        def __rmatmul__(self, o):
            raise Opaque("operator times rotation without the other half")
    _orig = PV.__matmul__

    def matmul(self, o):
        return _orig(self, o)
    PV.__matmul__ = matmul

    def rot_close(left, right):
        """(V^T @ M) @ V and (V @ M) @ V^T"""
        m = left.pending
        if left.kind == "VT" and right.kind == "V":
            return PV(m.p, "rot" if m.rot == "raw" else ("inv" if m.rot == "inv" else "mixed"), m.log)
        if left.kind == "V" and right.kind == "VT":
            return PV(m.p, "raw" if m.rot == "rot" else m.rot, m.log)
        raise Opaque("rotation with the same factor on both sides")

    def rot_matmul(self, o):
        if self.pending is not None and isinstance(o, _Rot) and o.pending is None:
            return rot_close(self, o)
        if isinstance(o, PV) and self.pending is None:
            return _Rot(self.kind, pending=o)
        raise Opaque("rotation applied to a non-operator")
    _Rot.__matmul__ = rot_matmul
    return PV, _Rot


PV, _Rot = _make_pv()


class OpMatRun:
    """value(symbol): abstract run of <Class>.op_mat from source (helper methods included) on a stand-in whose numeric leaves are generators of an operator algebra.
    kind 'sho': leaves are the ladder words of `axioms` (op_mat of such a symbol is not entered), scalars omega, x0; np.diag(dvr_x**k) is x**k in the DVR basis;
    kind 'sine': leaves are the helper monomials _I, _u, _uu, _uuu, _du, _udu, _uudu and the spectrum _eigene (times 2 through the column-scaling einsum = p^2)."""
    def __init__(self, src, cname, flags, axioms=None, kind="sho"):
        from ..syminterp import SymInterp, Sym, Blob, OpenSym, SymRaise
        from .chain_rules import class_resolver
        self.src, self.cname, self.flags, self.axioms, self.kind = src, cname, dict(flags), axioms or {}, kind
        self.fi = src.func(BASIS, f"{cname}.op_mat")
        self.log = []
        self.depth = 0
        self._SymRaise = SymRaise
        run = self

        class Stand(Sym):
            def op_mat(me, op):
                sym = op if isinstance(op, str) else op.symbol
                return run._value(sym, me)
        self.Stand = Stand
        self.resolve = class_resolver(src, {cname: BASIS})
        self._mods = (SymInterp, Sym, Blob, OpenSym)

    def _stand(self):
        SymInterp, Sym, Blob, OpenSym = self._mods
        me = self.Stand("basis")
        me._cls = self.cname
        me._recursion_flag = 0
        me.nbas = 2
        for k, v in self.flags.items():
            setattr(me, k, v)
        if self.kind == "sho":
            me.omega, me.x0 = w, x0
            me.dvr_v = _Rot("V")
            me.dvr_x = Sym("dvr_x")
        else:
            me.xi, me.L, me.xf = xi, sp.Symbol("L", positive=True), xi + sp.Symbol("L", positive=True)
            me.dvr_v, me.dvr_x = _Rot("V"), Sym("dvr_x")
            u, d = Poly.gen("u"), Poly.gen("d")
            for name, mono in (("_I", Poly.scalar(1)), ("_u", u), ("_uu", u * u), ("_uuu", u * u * u), ("_du", d), ("_udu", u * d), ("_uudu", u * u * d)):
                me.__dict__[name] = (lambda mono=mono: PV(mono, "raw", self.log))
            me.__dict__["_eigene"] = lambda: _Eig(1)
        return me

    def value(self, symbol, factor=1, **flags):
        me = self._stand()
        for k, v in flags.items():
            setattr(me, k, v)
        self._factor = factor
        try:
            return self._value(symbol, me, top=True)
        finally:
            self._factor = 1

    def _value(self, symbol, me, top=False):
        SymInterp, Sym, Blob, OpenSym = self._mods
        if not top and symbol in self.axioms:
            return PV(self.axioms[symbol], "raw", self.log)
        if top and symbol in self.axioms and getattr(self, "_factor", 1) == 1:
            return PV(self.axioms[symbol], "raw", self.log)
        # a leaf symbol run for its own sake (with a factor): the one matrix its branch builds from index arithmetic stands for the leaf's word
        self._leaf = symbol if (top and symbol in self.axioms) else None
        self.depth += 1
        if self.depth > 12:
            self.depth = 0
            raise AnalysisError(f"{self.fi.where}: recursion too deep for symbol {symbol!r}")
        try:
            it = SymInterp(self.src, self.resolve, self._builtins(me))
            it.max_depth = 14
            it.exact = True
            op = Sym("op", symbol=symbol, factor=(getattr(self, "_factor", 1) if top else 1), split_symbol=symbol.replace(r"b^\dagger + b", r"b^\dagger+b").split(" "), dofs=[getattr(me, "dof", "dof")] * len(symbol.split(" ")))
            try:
                res = it.call_function(self.fi, [me, op])
            except self._SymRaise as e:
                raise Opaque(f"dispatcher raises ({e})")
            if not isinstance(res, PV):
                raise Opaque(f"op_mat({symbol!r}) returns {type(res).__name__}")
            return res
        finally:
            self.depth -= 1

    def _builtins(self, me):
        SymInterp, Sym, Blob, OpenSym = self._mods
        log = self.log
        run = self

        class Legacy(Sym):
            """matrix filled element by element by a loop (`legacy for check` blocks, general moments): not interpreted"""
            def __init__(self):
                super().__init__("loop-built matrix")

            def __setitem__(self, k, v):
                pass

            def __getitem__(self, k):
                return 0

            @property
            def T(self):
                return self

            def __sub__(self, o):
                return self

            __isub__ = __rsub__ = __add__ = __radd__ = __iadd__ = __pow__ = __mul__ = __rmul__ = __truediv__ = __rtruediv__ = __matmul__ = __rmatmul__ = __sub__

            def __neg__(self):
                return self

        def diag(v, k=0):
            if getattr(run, "_leaf", None) is not None and isinstance(v, Legacy):
                return PV(run.axioms[run._leaf], "raw", log)
            if run.kind == "sho" and isinstance(v, Sym) and v._name == "dvr_x":
                return PV(run._plain("x").p, "rot", log)
            if isinstance(v, _DvrPow):
                return PV(run._plain("x").p ** v.k, "rot", log)
            if run.kind == "sine":
                return Legacy()
            raise Opaque("np.diag of a computed vector")

        def zeros(*a, **k):
            if getattr(run, "_leaf", None) is not None:
                return PV(Poly.scalar(0), "raw", log)
            if run.kind == "sine":
                return Legacy()
            raise Opaque("loop-built matrix")

        def einsum(spec, m, v):
            if spec.replace(" ", "") == "jk,k->jk" and isinstance(m, PV) and isinstance(v, _Eig) and v.k == 2:
                return PV(m.p * Poly.gen("P"), m.rot, log)
            raise Opaque("einsum")

        def sqrt(x):
            c = _scal(x)
            if c is None:
                raise Opaque("sqrt of a non-scalar")
            return sp.sqrt(c)
        me.dvr_x.__class__ = _DvrX if not isinstance(me.dvr_x, _DvrX) else me.dvr_x.__class__
        npx = OpenSym("np", make=lambda t: Blob(t), eye=lambda n, *a, **k: PV(Poly.scalar(1), "inv", log), diag=diag, zeros=zeros, einsum=einsum, sqrt=sqrt, allclose=lambda *a, **k: True,
                      pi=sp.pi, arange=lambda *a, **k: Legacy(), real=lambda x: x, float64="float64", complex128="complex128")
        return {"np": npx, "logger": Blob("logger"), "isinstance": lambda x, t: True, "Op": "Op", "round": lambda x: int(round(float(x))), "float": lambda x: float(x),
                "scipy": Blob("scipy"), "x_power_k": lambda *a: 0, "p_power_k": lambda *a: 0}

    def _plain(self, symbol):
        """value of a symbol in the plain (non-DVR) mode, used for np.diag(self.dvr_x)"""
        other = OpMatRun(self.src, self.cname, dict(self.flags, dvr=False), self.axioms, self.kind)
        other.depth = self.depth
        return other.value(symbol)


def _mk_tokens():
    from ..syminterp import Sym

    class _DvrPow(Sym):
        def __init__(self, k):
            super().__init__(f"dvr_x**{k}")
            self.k = k

    class _DvrX(Sym):
        def __pow__(self, k):
            kk = _scal(k)
            if kk is None or kk != int(kk) or kk < 0:
                raise Opaque("non-integer power of the DVR grid")
            return _DvrPow(int(kk))

    class _Eig(Sym):
        def __init__(self, k):
            super().__init__(f"{k}*E")
            self.k = k

        def __mul__(self, o):
            return _Eig(self.k * int(_scal(o)))

        __rmul__ = __mul__
    return _DvrPow, _DvrX, _Eig


_DvrPow, _DvrX, _Eig = _mk_tokens()


# ------------------------------------------------------------------ 2x2 folding
def fold2(e, env, selfcall):
    """Fold a numpy expression over literal 2x2 data to a sympy Matrix (or scalar)."""
    c = const_scalar(e)
    if c is not None:
        return c
    if isinstance(e, ast.Name):
        if e.id in env:
            return env[e.id]
        raise Opaque(e.id)
    if isinstance(e, (ast.List, ast.Tuple)):
        return [fold2(x, env, selfcall) for x in e.elts]
    if isinstance(e, ast.Call):
        ft = unparse(e.func)
        if ft in ("np.eye", "numpy.eye"):
            n = fold2(e.args[0], env, selfcall)
            return sp.eye(int(n))
        if ft in ("np.zeros", "numpy.zeros"):
            shp = fold2(e.args[0], env, selfcall)
            return sp.zeros(int(shp[0]), int(shp[1]))
        if ft in ("np.diag", "numpy.diag"):
            v = fold2(e.args[0], env, selfcall)
            k = 0
            for kw in e.keywords:
                if kw.arg == "k":
                    k = int(fold2(kw.value, env, selfcall))
            if len(e.args) > 1:
                k = int(fold2(e.args[1], env, selfcall))
            n = len(v) + abs(k)
            m = sp.zeros(n, n)
            for i, x in enumerate(v):
                if k >= 0:
                    m[i, i + k] = x
                else:
                    m[i - k, i] = x
            return m
        if ft == "self.op_mat" and len(e.args) == 1 and isinstance(e.args[0], ast.Constant):
            return selfcall(e.args[0].value)
        if isinstance(e.func, ast.Attribute) and e.func.attr == "conj" and not e.args:
            v = fold2(e.func.value, env, selfcall)
            return v.conjugate()
        raise Opaque(ft)
    if isinstance(e, ast.Attribute):
        if e.attr == "T":
            return fold2(e.value, env, selfcall).T
        if e.attr == "real":
            v = fold2(e.value, env, selfcall)
            if isinstance(v, sp.MatrixBase):
                if any(sp.im(x) != 0 for x in v):
                    raise AnalysisError(f".real drops a non-zero imaginary part in {unparse(e)}")
                return v.applyfunc(sp.re)
            return sp.re(v)
        raise Opaque(unparse(e))
    if isinstance(e, ast.UnaryOp) and isinstance(e.op, ast.USub):
        return -fold2(e.operand, env, selfcall)
    if isinstance(e, ast.BinOp):
        a, c2 = fold2(e.left, env, selfcall), fold2(e.right, env, selfcall)
        if isinstance(e.op, ast.Add):
            return a + c2
        if isinstance(e.op, ast.Sub):
            return a - c2
        if isinstance(e.op, ast.Mult):
            if isinstance(a, sp.MatrixBase) and isinstance(c2, sp.MatrixBase):
                return a.multiply_elementwise(c2)
            return a * c2
        if isinstance(e.op, ast.MatMult):
            return a * c2
        if isinstance(e.op, ast.Div):
            return a / c2
    raise Opaque(unparse(e)[:40])


class Mat2:
    """value of op_mat(symbol) of a two-level basis class by an abstract run of the method on exact 2 x 2 matrices (sympy): recursion through self.op_mat, products,
    class-level alias tables, helper methods and early returns are followed.  Raises Opaque when the symbol is not supported / not foldable."""

    SRC = None     # set by run(): the source model

    def __init__(self, fi, split=None, src=None):
        self.fi = fi
        self.src = src or Mat2.SRC

    def value(self, symbol, dofs=None, attrs=None, factor=1):
        from ..syminterp import SymInterp, Sym, SymRaise, Blob, OpenSym
        from .chain_rules import class_resolver
        import functools

        class M(Sym):
            """exact matrix"""
            def __init__(self, m):
                super().__init__("matrix")
                self.m = sp.Matrix(m)

            @property
            def T(self):
                return M(self.m.T)

            @property
            def real(self):
                if any(sp.im(x) != 0 for x in self.m):
                    raise AnalysisError(".real drops a non-zero imaginary part")
                return M(self.m.applyfunc(sp.re))

            @property
            def shape(self):
                return self.m.shape

            def conj(self):
                return M(self.m.conjugate())

            conjugate = conj

            def copy(self):
                return M(self.m)

            def dot(self, o):
                return M(self.m * o.m)

            def __matmul__(self, o):
                return M(self.m * o.m)

            def __mul__(self, o):
                return M(self.m.multiply_elementwise(o.m)) if isinstance(o, M) else M(self.m * sp.nsimplify(o))

            __rmul__ = __mul__

            def __add__(self, o):
                return M(self.m + o.m)

            def __sub__(self, o):
                return M(self.m - o.m)

            def __neg__(self):
                return M(-self.m)

            def __truediv__(self, o):
                return M(self.m / sp.nsimplify(o))

            def __getitem__(self, k):
                return self.m[k]

            def __setitem__(self, k, v):
                self.m[k] = sp.nsimplify(v)

        def num(x):
            return sp.nsimplify(x) if not isinstance(x, sp.Basic) else x

        def diag(v, k=0):
            v = [num(x) for x in v]
            n = len(v) + abs(int(k))
            m = sp.zeros(n, n)
            for q, x in enumerate(v):
                m[(q, q + k) if k >= 0 else (q - k, q)] = x
            return M(m)

        def array(x, dtype=None, **kw):
            return x if isinstance(x, M) else M([[num(v) for v in r] for r in x])
        npx = OpenSym("np", make=lambda t: Blob(t), eye=lambda n, **k: M(sp.eye(int(n))), diag=diag, array=array, asarray=array, zeros=lambda shape, **k: M(sp.zeros(*[int(d) for d in (shape if isinstance(shape, (list, tuple)) else (shape, shape))])),
                      conj=lambda x: x.conj(), real=lambda x: x.real, kron=lambda a, b: M(sp.kronecker_product(a.m, b.m)))
        cname = self.fi.qual.split(".")[0]

        class OpS(Sym):
            def __init__(self, symbol, dofs=None, factor=1, qn=None):
                super().__init__(f"Op({symbol})")
                self.symbol, self.factor, self.dofs = symbol, factor, dofs
                self.split_symbol = symbol.split(" ")
        me = Sym("basis", nbas=2, dof="dof", dofs=["dof"], sigmaqn=[0, 1], multi_dof=False)
        me._cls = cname
        resolve = class_resolver(self.src, {cname: self.fi.rel})
        # class-level constants (alias tables) are attributes of the stand-in
        for ci in self.src.mro(self.src.cls(self.fi.rel, cname)):
            for st in ci.node.body:
                if isinstance(st, ast.Assign) and len(st.targets) == 1 and isinstance(st.targets[0], ast.Name):
                    try:
                        me.__dict__.setdefault(st.targets[0].id, ast.literal_eval(st.value))
                    except (ValueError, SyntaxError, TypeError):
                        pass
        it = SymInterp(self.src, resolve, {"np": npx, "xp": npx, "Op": lambda symbol, dofs=None, factor=1, qn=None: OpS(symbol, dofs), "isinstance": lambda x, t: isinstance(x, OpS) if t is not None and not isinstance(t, type) else (isinstance(x, t) if isinstance(t, type) else False),
                                          "functools": Sym("functools", reduce=functools.reduce), "reduce": functools.reduce, "logger": Blob("logger"), "ValueError": lambda *a: Exception("ValueError")})
        it.max_depth = 14
        me.__dict__.update(attrs or {})
        try:
            res = it.call_function(self.fi, [me, symbol if (dofs is None and factor == 1) else OpS(symbol, dofs if dofs is not None else ["dof"] * len(symbol.split(" ")), factor)])
        except SymRaise as e:
            raise Opaque(f"unsupported: {e}")
        except KeyError as e:
            raise Opaque(f"KeyError: {e}")
        if not isinstance(res, M):
            raise Opaque(f"op_mat({symbol!r}) gives {res!r}")
        return res.m


# ------------------------------------------------------------------ copy forward
def stored_params(src, ci):
    """{param name: attribute name} for params of ci.__init__ stored on self (directly or through super().__init__)."""
    init = src.method(ci, "__init__")
    if init is None:
        return {}, []
    params = init.params()[1:]
    owner = [c for c in src.mro(ci) if init.node in c.node.body][0]
    stored = {}
    assigned = set()
    for n in ast.walk(init.node):
        if isinstance(n, (ast.Assign, ast.AnnAssign)):
            tgs = n.targets if isinstance(n, ast.Assign) else [n.target]
            for t in tgs:
                if isinstance(t, ast.Attribute) and isinstance(t.value, ast.Name) and t.value.id == "self":
                    assigned.add(t.attr)
    for p in params:
        if p in assigned:
            stored[p] = p
    # through super().__init__(...)
    for n in ast.walk(init.node):
        if isinstance(n, ast.Call) and unparse(n.func) == "super().__init__":
            mro = src.mro(ci)
            rest = mro[mro.index(owner) + 1:]
            base = None
            for c in rest:
                if "__init__" in c.methods:
                    base = c
                    break
            if base is None:
                continue
            bstored, bparams = stored_params(src, base)
            for i, a in enumerate(n.args):
                if i < len(bparams) and isinstance(a, ast.Name) and a.id in params and bparams[i] in bstored:
                    stored.setdefault(a.id, bstored[bparams[i]])
            for k in n.keywords:
                if k.arg in bstored and isinstance(k.value, ast.Name) and k.value.id in params:
                    stored.setdefault(k.value.id, bstored[k.arg])
    return stored, params



# ------------------------------------------------------------------------------------------ unit conversion table
def unit_table_rule(chk, src):
    """Quantity: value_au = value / ratio[unit] with ratio[unit] = (unit per a.u.).  Constants of utils/constant.py are named <from>2<to> (1 <from> = x <to>), so every
    table entry must be au2<unit> (times a power of ten for a prefixed unit) or 1 / <unit>2au; reciprocal constants must be defined as reciprocals of each other"""
    import re
    Q = "renormalizer/utils/quantity.py"
    CST = "renormalizer/utils/constant.py"
    qm, cm_ = src.module(Q), src.module(CST)
    table = [n for n in qm.body if isinstance(n, ast.Assign) and unparse(n.targets[0]) == "au_ratio_dict" and isinstance(n.value, ast.Dict)]
    if len(table) != 1:
        raise AnalysisError(f"{Q}: au_ratio_dict literal not found")
    UNIT = {"mev": ("ev", 3), "ev": ("ev", 0), "cm^{-1}": ("cm", 0), "cm-1": ("cm", 0), "k": ("K", 0), "fs": ("fs", 0), "a.u.": (None, 0), "au": (None, 0)}
    for k, v in zip(table[0].value.keys, table[0].value.values):
        key = k.value
        base, power = UNIT.get(key.lower(), ("?", 0))
        if base == "?":
            raise AnalysisError(f"{Q}: unit {key!r} is not classified in rules/C16.py")
        t = unparse(v).replace(" ", "")
        if base is None:
            ok, want = t in ("1", "1.0"), "1"
        else:
            forms = {f"constant.au2{base}": 0, f"1/constant.{base}2au": 0, f"1.0/constant.{base}2au": 0}
            m = re.fullmatch(r"(.*?)\*(1e\d+|1000(?:\.0)?|10\*\*\d+)", t)
            mult = 0
            core = t
            if m:
                core = m.group(1)
                lit = m.group(2)
                mult = 3 if lit.startswith("1000") else int(lit.split("e")[1]) if "e" in lit else int(lit.split("**")[1])
            ok = core.lower() in {f.lower() for f in forms} and mult == power
            want = f"constant.au2{base}" + (f" * 1e{power}" if power else "") + f"  (or 1 / constant.{base}2au)"
        chk.ob("unit-table", f"au_ratio_dict[{key!r}]", ok, Q, t, want, line=v.lineno,
               detail=f"Quantity divides by this entry to obtain atomic units, so it must be the number of {key} per atomic unit; the inverse factor or a wrong power of ten converts "
                      "every energy / temperature / time given in this unit wrongly")
    # uses of the table: divide on the way in, multiply on the way out
    ca = src.func(Q, "convert_to_au")
    r = [unparse(x.value).replace(" ", "") for x in ast.walk(ca.node) if isinstance(x, ast.Return)]
    chk.ob("unit-table", "convert_to_au divides by the ratio", r == [f"{ca.params()[0]}/au_ratio_dict[{ca.params()[1]}]"], ca.where, r, "num / au_ratio_dict[unit]", line=ca.node.lineno)
    au = src.func(Q, "Quantity.as_unit")
    mul = [unparse(x.value).replace(" ", "") for x in ast.walk(au.node) if isinstance(x, ast.Assign)]
    chk.ob("unit-table", "as_unit multiplies the atomic-unit value by the ratio", mul == [f"self.as_au()*au_ratio_dict[{au.params()[1]}]"], au.where, mul, "self.as_au() * au_ratio_dict[unit]", line=au.node.lineno)
    tb = src.func(Q, "Quantity.to_beta")
    rb = [unparse(x.value).replace(" ", "") for x in ast.walk(tb.node) if isinstance(x, ast.Return)]
    chk.ob("unit-table", "to_beta = 1 / (k_B T in a.u.)", "1.0/self.as_au()" in rb or "1/self.as_au()" in rb, tb.where, rb, "1.0 / self.as_au()", line=tb.node.lineno)
    # reciprocal pairs of constant.py (symbolic: physical constants are opaque positive symbols)
    defs = {unparse(n.targets[0]): n.value for n in cm_.body if isinstance(n, ast.Assign) and isinstance(n.targets[0], ast.Name)}

    def sym(e, depth=0):
        if depth > 8:
            raise AnalysisError("constant.py: definition too deep")
        if isinstance(e, ast.Constant) and isinstance(e.value, (int, float)):
            return sp.nsimplify(e.value, rational=True)
        if isinstance(e, ast.Name):
            if e.id in defs:
                return sym(defs[e.id], depth + 1)
            raise AnalysisError(f"constant.py: unknown name {e.id}")
        if isinstance(e, ast.Subscript):
            return sp.Symbol(re.sub(r"\W+", "_", unparse(e)), positive=True)
        if isinstance(e, ast.BinOp):
            a_, b_ = sym(e.left, depth), sym(e.right, depth)
            return {ast.Mult: a_ * b_, ast.Div: a_ / b_, ast.Add: a_ + b_, ast.Sub: a_ - b_, ast.Pow: a_ ** b_}[type(e.op)]
        raise AnalysisError(f"constant.py: expression {unparse(e)} outside the folded fragment")
    pairs = [(a_, b_) for a_ in defs for b_ in defs if re.fullmatch(r"[A-Za-z]+2[A-Za-z]+", a_) and b_ == "2".join(reversed(a_.split("2"))) and a_ < b_]
    INDEPENDENT = {("K2au", "au2K"): "both taken from scipy's CODATA table (hartree-kelvin and kelvin-hartree relationship)"}
    for a_, b_ in pairs:
        if (a_, b_) in INDEPENDENT or (b_, a_) in INDEPENDENT:
            continue
        prod = sp.simplify(sym(defs[a_]) * sym(defs[b_]))
        chk.ob("unit-table", f"constant.{a_} * constant.{b_} == 1", prod == 1, CST, str(prod), "1", line=defs[a_].lineno,
               detail="a conversion constant and its inverse must be reciprocals by construction")
    e3 = sp.simplify(sym(defs["cm2ev"]) - sym(defs["cm2au"]) * sym(defs["au2ev"])) if "cm2ev" in defs else None
    chk.ob("unit-table", "cm2ev = cm2au * au2ev", e3 == 0, CST, str(e3), "0")



# ------------------------------------------------------------------------------------------ packaged model builders (abstract runs)
def model_terms_rule(chk, src):
    from ..syminterp import SymInterp, Sym, Blob
    MODEL = "renormalizer/model/model.py"
    # ---- translationally invariant model: every local term once per cell, every non-local term once per cell with cell ids wrapped periodically
    fi = src.func(MODEL, "TI1DModel.__init__")
    for ncell in (2, 3, 5):
        got = {}

        class BS(Sym):
            def __init__(self, name, dofs, multi):
                super().__init__(name)
                self.dofs, self.multi_dof = list(dofs), multi

            def copy(self, new):
                return ("basis", self._name, tuple(new) if isinstance(new, list) else new)
        basis = [BS("bE", ["e"], False), BS("bM", ["m1", "m2"], True)]
        loc = [Sym("L0", symbol="sL0", dofs=["e"], factor="fL0", qn_list="qL0"), Sym("L1", symbol="sL1", dofs=["e", "m1"], factor="fL1", qn_list="qL1")]
        # N2 is N0 written from the neighbouring cell: on a ring of two cells the images of N0 and N2 coincide term by term, and H = sum over cells still counts each of them
        non = [Sym("N0", symbol="sN0", dofs=[(0, "e"), (1, "e")], factor="fN0", qn_list="qN0"), Sym("N1", symbol="sN1", dofs=[(1, "e"), (3, "m2")], factor="fN1", qn_list="qN1"),
               Sym("N2", symbol="sN0", dofs=[(1, "e"), (0, "e")], factor="fN0", qn_list="qN0")]
        it = SymInterp(src, None, {"Op": lambda symbol, dofs, factor=None, qn=None: ("op", symbol, tuple(dofs), factor, qn),
                                   "super": lambda: Sym("super", __init__=lambda b_, h_, **k: got.update(basis=list(b_), ham=list(h_)))})
        it.builtins["isinstance"] = lambda x, t: isinstance(x, t) if isinstance(t, type) or (isinstance(t, tuple) and all(isinstance(y, type) for y in t)) else False
        it.call_function(fi, [Sym("self"), basis, loc, non, ncell])
        want_b = []
        for i in range(ncell):
            want_b += [("basis", "bE", (f"cell{i}", "e")), ("basis", "bM", ((f"cell{i}", "m1"), (f"cell{i}", "m2")))]
        want_h = []
        for i in range(ncell):
            for o in loc:
                want_h.append(("op", o.symbol, tuple((f"cell{i}", d) for d in o.dofs), o.factor, o.qn_list))
            for o in non:
                want_h.append(("op", o.symbol, tuple((f"cell{(i + d[0]) % ncell}", d[1]) for d in o.dofs), o.factor, o.qn_list))
        ok = got.get("basis") == want_b and sorted(map(repr, got.get("ham", []))) == sorted(map(repr, want_h))
        chk.ob("model-terms", f"TI1DModel[ncell={ncell}]", ok, fi.where, {"basis": len(got.get("basis", [])), "terms": [repr(t)[:70] for t in got.get("ham", []) if t not in want_h][:3]},
               {"basis": len(want_b), "terms": "every local term once per cell, every non-local term once per cell (coinciding periodic images included), cell index (i + offset) mod ncell"}, line=fi.node.lineno,
               detail="a translationally invariant periodic model: a missing wrap-around, a skipped cell or a dropped factor / quantum number changes the Hamiltonian only at the boundary cells")
    # ---- nearest-neighbour coupling matrix
    fj = src.func(MODEL, "construct_j_matrix")

    class Vec(Sym):
        def __init__(self, items):
            super().__init__("vec")
            self.items = list(items)

        def __mul__(self, o):
            return Vec([o for _ in self.items])

        __rmul__ = __mul__

    class Mat(Sym):
        def __init__(self, n, cells=None):
            super().__init__("mat")
            self.n, self.cells = n, dict(cells or {})

        def __add__(self, o):
            c = dict(self.cells)
            for k_, v_ in o.cells.items():
                c[k_] = (c[k_] + "+" + v_) if k_ in c else v_
            return Mat(self.n, c)

        def __setitem__(self, k_, v_):
            self.cells[(k_[0] % self.n, k_[1] % self.n)] = v_

    def diag(v, k=0):
        n = len(v.items) + abs(k)
        return Mat(n, {((i, i + k) if k > 0 else (i - k, i)): x for i, x in enumerate(v.items)})
    for n in (2, 3, 4, 6):
        for periodic in (False, True):
            it = SymInterp(src, None, {"np": Sym("np", ones=lambda k_: Vec([1] * k_), diag=diag)})
            m = it.call_function(fj, [n, Sym("J", as_au=lambda: "J"), periodic])
            want = {}
            for i in range(n - 1):
                want[(i, i + 1)] = want[(i + 1, i)] = "J"
            if periodic:
                want[(n - 1, 0)] = want[(0, n - 1)] = "J"
            chk.ob("model-terms", f"construct_j_matrix[n={n}, periodic={periodic}]", isinstance(m, Mat) and m.n == n and m.cells == want, fj.where,
                   {f"{k_}": v_ for k_, v_ in sorted(getattr(m, "cells", {}).items()) if want.get(k_) != v_} or "as expected", "J on |i-j| = 1" + (" and on the two corners" if periodic else ""),
                   line=fj.node.lineno, detail="nearest-neighbour coupling matrix: symmetric, J on the first off-diagonals, and for a periodic chain on the (0, n-1) / (n-1, 0) corners")


def counter_balance_rule(chk, src):
    """a method that raises an instance counter (`self.<c> += 1`) to mark 'inside a recursive evaluation' and lowers it again before it post-processes its result
    must lower it on every way out: a `return` between the two leaves the counter raised for the lifetime of the object, and every later top-level call is then
    treated as a nested one (no origin shift, no DVR rotation)."""
    chk.rule("counter-balance", "recursion counters raised by a method are lowered again on every return path", 2)
    n = 0
    for fi in src.funcs_in(BASIS):
        body = fi.node.body
        incs = [(k, st) for k, st in enumerate(body) if isinstance(st, ast.AugAssign) and isinstance(st.op, ast.Add) and isinstance(st.target, ast.Attribute)
                and isinstance(st.target.value, ast.Name) and st.target.value.id == "self" and isinstance(st.value, ast.Constant) and st.value.value == 1]
        for k, inc in incs:
            name = inc.target.attr
            decs = [j for j, st in enumerate(body) if j > k and isinstance(st, ast.AugAssign) and isinstance(st.op, ast.Sub) and unparse(st.target) == unparse(inc.target)
                    and isinstance(st.value, ast.Constant) and st.value.value == 1]
            n += 1
            if not decs:
                chk.ob("counter-balance", f"{fi.qual}: self.{name}", False, fi.where, "raised, never lowered at the top level of the method", "lowered before the method returns", line=inc.lineno)
                continue
            early = []

            def is_dec(st, inc=inc):
                return isinstance(st, ast.AugAssign) and isinstance(st.op, ast.Sub) and unparse(st.target) == unparse(inc.target) and isinstance(st.value, ast.Constant) and st.value.value == 1

            def scan(stmts, lowered):
                for st in stmts:
                    if is_dec(st):
                        lowered = True
                    elif isinstance(st, ast.Return):
                        if not lowered:
                            early.append(st)
                    elif isinstance(st, (ast.FunctionDef, ast.AsyncFunctionDef, ast.ClassDef)):
                        continue
                    else:
                        for fld in ("body", "orelse", "finalbody", "handlers"):
                            sub = getattr(st, fld, None)
                            if isinstance(sub, list):
                                scan([h for x in sub for h in (x.body if isinstance(x, ast.ExceptHandler) else [x])], lowered)
            scan(body[k + 1:decs[0]], False)
            chk.ob("counter-balance", f"{fi.qual}: self.{name}", not early, fi.where, [f"line {r.lineno}: {norm_stmt(r, 60)}" for r in early] or "no return while raised", "no return while raised",
                   line=inc.lineno, detail=f"{fi.qual} returns at line {early[0].lineno if early else '?'} while self.{name} is still raised: after one such call the object treats every "
                                           "request as a nested one and returns matrices without the origin shift / in the unrotated basis")
    if n == 0:
        raise AnalysisError("no recursion counter found in model/basis.py (anchor of the counter-balance rule)")


def factor_rule(chk, src, rule):
    """op_mat(Op(symbol, dofs, factor)) = factor x op_mat(Op(symbol, dofs, 1)) for every accepted symbol of every basis class whose op_mat takes operator objects: the
    dispatchers are run with a symbolic factor and with factor 1 and the two results compared (exact 2 x 2 / n x n algebra for the spin and electron classes, the
    operator-polynomial domain for the oscillator and sine-DVR classes)"""
    fct = sp.Symbol("factor")
    # oscillator and sine DVR
    for cname, flags, axioms, kind in (("BasisSHO", {"general_xp_power": False, "dvr": False}, SHO_AXIOMS, "sho"), ("BasisSineDVR", {"dvr": False, "quadrature": False}, {}, "sine")):
        r = OpMatRun(src, cname, flags, axioms, kind)
        bad, n = [], 0
        for sym in sorted(accepted_symbols(src, cname, r)):
            try:
                v1, vf = r.value(sym), r.value(sym, factor=fct)
            except Opaque:
                continue
            n += 1
            d = vf.p - v1.p * Poly.scalar(fct)
            if any(sp.simplify(c_) != 0 for c_ in d.t.values()):
                bad.append(f"{sym!r}: with factor f the result is {vf.p!r}, f x (factor 1) is {(v1.p * Poly.scalar(fct))!r}")
        chk.ob(rule, f"{cname}.op_mat: factor applied exactly once for each of {n} symbols", not bad and n > 0, r.fi.where, bad[:2] or "homogeneous", "op_mat(f * O) = f * op_mat(O)", line=r.fi.node.lineno,
               detail="the matrix of an operator object must carry the operator's factor, on every return path: " + (bad[0] if bad else ""))
    # two-level and multi-electron classes
    for cname, cases in (("BasisHalfSpin", [(s_, None, None) for s_ in ("X", "Y", "Z", "sigma_+", "sigma_-", "I", "X Y", "sigma_z sigma_x")]),
                         ("BasisSimpleElectron", [(s_, None, None) for s_ in (r"a^\dagger", "a", r"a^\dagger a", "I")]),
                         ("BasisMultiElectron", None), ("BasisMultiElectronVac", None)):
        fi = src.func(BASIS, f"{cname}.op_mat")
        mm = Mat2(fi, src=src)
        if cases is None:
            off = 1 if cname.endswith("Vac") else 0
            dn = ["d0", "d1", "d2"]
            attrs = {"nbas": 3 + off, "dof_name_map": {d: q + off for q, d in enumerate(dn)}, "dof": dn, "dofs": dn}
            cases = [(r"a^\dagger a", ["d0", "d2"], attrs), (r"a a^\dagger", ["d1", "d0"], attrs), ("I I", ["d0", "d1"], attrs), ("I", ["d0"], attrs)] + \
                ([(r"a^\dagger", ["d1"], attrs), ("a", ["d2"], attrs), ("I I I", ["d0", "d1", "d2"], attrs)] if off else [])
        bad, n = [], 0
        for sym, dofs, attrs in cases:
            try:
                m1 = mm.value(sym, dofs=dofs if dofs is not None else ["dof"] * len(sym.split(" ")), attrs=attrs)
                mf = mm.value(sym, dofs=dofs if dofs is not None else ["dof"] * len(sym.split(" ")), attrs=attrs, factor=fct)
            except Opaque:
                continue
            n += 1
            if sp.simplify(mf - fct * m1) != sp.zeros(*m1.shape):
                bad.append(f"{sym!r}: with factor f the result is {mf.tolist()}, expected f x {m1.tolist()}")
        chk.ob(rule, f"{cname}.op_mat: factor applied exactly once for each of {n} symbols", not bad and n > 0, fi.where, bad[:2] or "homogeneous", "op_mat(f * O) = f * op_mat(O)", line=fi.node.lineno,
               detail="the matrix of an operator object must carry the operator's factor, on every return path: " + (bad[0] if bad else ""))


def accepted_symbols(src, cname, runner):
    """operator symbols of a basis class: every string literal of the class body and of the module-level tuples / lists it names that looks like an operator symbol and that
    the dispatcher does not reject (decided by running it); how the dispatcher compares (if-chain, membership in a constant, dict) does not matter"""
    import re
    ci = src.cls(BASIS, cname)
    mod = src.modules[BASIS]
    cands = {n.value for n in ast.walk(ci.node) if isinstance(n, ast.Constant) and isinstance(n.value, str)}
    used = {n.id for n in ast.walk(ci.node) if isinstance(n, ast.Name)}
    for st in mod.body:
        if isinstance(st, ast.Assign) and any(isinstance(t, ast.Name) and t.id in used for t in st.targets):
            cands |= {n.value for n in ast.walk(st.value) if isinstance(n, ast.Constant) and isinstance(n.value, str)}
    out = set()
    for c in sorted(cands):
        if not c or len(c) > 24 or not re.fullmatch(r"[A-Za-z0-9^+\\ _-]+", c) or c.strip() != c or "  " in c:
            continue
        try:
            runner.value(c)
        except Opaque as e:
            if "dispatcher raises" in str(e):
                continue
        except (AnalysisError, ValueError, TypeError, KeyError, IndexError, AttributeError):
            continue
        out.add(c)
    return out


def sinedvr_grid_rule(chk, src):
    """abstract run of BasisSineDVR.__init__ on exact numbers (xnp): the DVR grid is the equidistant interior grid of the box the object reports (xi, xf, L), and with
    endpoint=True its first and last points are the bounds the caller gave"""
    from fractions import Fraction as Fr
    from ..syminterp import SymInterp, Sym, Blob
    from .. import xnp
    BASIS = "renormalizer/model/basis.py"
    chk.rule("sinedvr-grid", "BasisSineDVR.__init__ (abstract run on exact numbers): dvr_x[k] = xi + (k+1) L / (nbas+1) for the box (xi, xf, L) the object stores; endpoint=True puts the first and "
             "last grid point on the bounds given by the caller", 4)
    fi = src.func(BASIS, "BasisSineDVR.__init__")
    for nbas, xi, xf, endpoint in ((4, Fr(0), Fr(3), True), (5, Fr(-2), Fr(2), True), (4, Fr(0), Fr(5), False), (3, Fr(1), Fr(2), False)):
        me = Sym("basis")
        npx = xnp.namespace()
        npx.__dict__["sin"] = lambda x: Blob("sin")
        npx.__dict__["pi"] = Blob("pi")
        npx.__dict__["tensordot"] = lambda a, b, axes=0: Blob("outer")
        npx.__dict__["outer"] = lambda a, b: Blob("outer")
        npx.__dict__["multiply"] = Sym("multiply", outer=lambda a, b: Blob("outer"))
        npx.__dict__["sqrt"] = lambda x: Blob("sqrt")
        it = SymInterp(src, None, {"np": npx, "super": lambda *a: Sym("super", __init__=lambda *a2, **k2: None)})
        it.call_function(fi, [me, "dof", nbas, xi, xf], {"endpoint": endpoint})
        probs = []
        try:
            grid = [Fr(v) for v in xnp.asx(me.dvr_x).flat]
            sxi, sxf, sl = Fr(me.xi), Fr(me.xf), Fr(me.L)
        except (AttributeError, TypeError, ValueError) as e:
            probs.append(f"{type(e).__name__}: {e}")
            grid = None
        if grid is not None:
            if sl != sxf - sxi:
                probs.append(f"L = {sl}, xf - xi = {sxf - sxi}")
            want = [sxi + (k + 1) * sl / (nbas + 1) for k in range(nbas)]
            if grid != want:
                probs.append(f"grid {[str(v) for v in grid]}; the interior grid of the stored box ({sxi}, {sxf}) is {[str(v) for v in want]}")
            if endpoint and (grid[0], grid[-1]) != (xi, xf):
                probs.append(f"endpoint=True: first / last grid point {grid[0]} / {grid[-1]}; the caller gave the bounds {xi} / {xf}")
            if not endpoint and (sxi, sxf) != (xi, xf):
                probs.append(f"endpoint=False: the stored box is ({sxi}, {sxf}), the caller gave ({xi}, {xf})")
        chk.ob("sinedvr-grid", f"BasisSineDVR(nbas={nbas}, xi={xi}, xf={xf}, endpoint={endpoint})", not probs, fi.where, probs[:2] or "grid of the stored box", "equidistant interior grid of the stored box",
               line=fi.node.lineno, detail="potentials without analytic matrix elements are evaluated on dvr_x: a grid shifted against the box the sine functions live in gives wrong matrix elements: "
               + (probs[0] if probs else ""))


def run(chk):
    src = chk.src
    Mat2.SRC = src
    chk.explanation = (
        "Decides structural/algebraic clauses of C16 on the source of model/basis.py: (1) every product / power branch of "
        "BasisSHO.op_mat, translated to a polynomial in the ladder generators b, b+ over Q(sqrt(omega), x0, i) and normal "
        "ordered with [b, b+] = 1, equals the ordered product of its factors' branches (shifted origin included), x and p "
        "satisfy [x, p] = i, `.real` is only taken of real-coefficient operators, and in DVR mode every position-representation "
        "symbol is expressed in the rotated basis; (2) the sine-DVR branches equal the binomial expansion of (xi + u)^k times "
        "the derivative/kinetic helper in the written order; (3) the literal 2x2 matrices of BasisHalfSpin and "
        "BasisSimpleElectron satisfy the Pauli and fermion relations exactly; (4) multi-electron branches put the single 1 at "
        "(row of a^dagger's DoF, column of a's DoF); (5) every BasisSet.copy(new_dof) forwards each stored constructor "
        "parameter from the attribute of the same name in the right position. Not decided: leaf matrices (np.diag formulas), "
        "x_power_k / p_power_k, sine-DVR integrals, the model builders' term lists, unit conversion.")
    chk.assumptions = ["ladder leaves b, b^dagger, b b, b^dagger b^dagger, b^dagger b, b b^dagger, n denote the words they are named after (test_basis pins them)",
                       "matrix truncation at the highest level is ignored (documented)",
                       "sine-DVR helpers _u/_uu/_uuu/_du/_udu/_uudu/_eigene denote the integrals in their comments"]
    chk.rule("sho-product", "BasisSHO: branch(product/power symbol) == ordered product of branch(factor) after normal ordering", 8)
    chk.rule("sho-commutator", "BasisSHO: x p - p x == i (from the x and p branches, and from the 'x p' / 'p x' branches)", 2)
    chk.rule("sho-real", "BasisSHO: `.real` is applied only to operators with real coefficients", 1)
    chk.rule("sho-dvr", "BasisSHO(dvr=True): every x/p-type symbol is returned in the DVR-rotated basis", 6)
    sinedvr_grid_rule(chk, src)
    chk.rule("sinedvr-algebra", "BasisSineDVR: branch == (xi + u)^k [d | p^2] expanded over the helper monomials, in written order", 8)
    chk.rule("pauli", "BasisHalfSpin / BasisSimpleElectron literal matrices satisfy Pauli / fermion relations (exact)", 12)
    chk.rule("multi-electron", "BasisMultiElectron(Vac): a^dagger_i a_j sets element [i, j]; a_i a^dagger_j sets [j, i]", 4)
    chk.rule("model-terms", "abstract run of TI1DModel and construct_j_matrix: term lists / coupling matrix as documented, including the periodic wrap", 10)
    model_terms_rule(chk, src)
    chk.rule("unit-table", "unit conversion table of Quantity and the reciprocal constants it is built from", 14)
    unit_table_rule(chk, src)
    counter_balance_rule(chk, src)
    chk.rule("factor-applied", "op_mat of an operator object carries the operator's factor exactly once, for every accepted symbol of every basis class (abstract runs with a symbolic factor)", 6)
    factor_rule(chk, src, "factor-applied")
    chk.rule("copy-forward", "copy(new_dof) passes every stored __init__ parameter from self.<same attribute> in the matching slot", 9)

    # ------------------------------------------------------------ SHO
    sho = src.func(BASIS, "BasisSHO.op_mat")
    bi = OpMatRun(src, "BasisSHO", {"general_xp_power": False, "dvr": False}, SHO_AXIOMS, "sho")
    # candidate symbols: literals compared with op_symbol
    lits = accepted_symbols(src, "BasisSHO", bi) | {"x x", "p p", "x^1", "p^1"}
    chk.table("sho_symbols", sorted(lits))

    def factors(sym):
        s = sym.replace(r"b^\dagger + b", r"b^\dagger+b")
        if " " in s:
            return s.split(" ")
        if "^" in s and not s.startswith("b"):
            base, k = s.split("^", 1)
            if k.isdigit() and int(k) >= 1:
                return [base] * int(k)
        return None

    cache = {}

    def val(sym):
        if sym not in cache:
            try:
                cache[sym] = bi.value(sym)
            except Opaque as e:
                cache[sym] = e
        return cache[sym]

    n_prod = 0
    for sym in sorted(lits):
        fs_ = factors(sym)
        if not fs_ or sym in SHO_AXIOMS:
            continue
        v = val(sym)
        fv = [val(f) if f not in SHO_AXIOMS else Val(SHO_AXIOMS[f]) for f in fs_]
        if isinstance(v, Opaque) or any(isinstance(f, Opaque) for f in fv):
            chk.note(f"sho-product {sym!r}: branch outside the algebraic fragment ({v if isinstance(v, Opaque) else [str(f) for f in fv if isinstance(f, Opaque)]}); not decided")
            continue
        prod = Poly.scalar(1)
        for f in fv:
            prod = prod * f.p
        ok = equal(v.p, prod)
        n_prod += 1
        chk.ob("sho-product", f"BasisSHO[{sym!r}]", ok, sho.where, repr(normal_order(v.p)), repr(normal_order(prod)),
               detail=f"op_mat({sym!r}) is not the matrix product of {fs_} in the written order (b = lowering, B = raising, "
                      f"normal ordered; omega, x0 symbolic)", line=sho.node.lineno)
    # sums
    for sym, expect in ((r"b^\dagger+b", B + b), (r"b^\dagger-b", B - b)):
        if sym in lits:
            v = val(sym)
            if not isinstance(v, Opaque):
                chk.ob("sho-product", f"BasisSHO[{sym!r}]", equal(v.p, expect), sho.where, repr(v.p), repr(expect), line=sho.node.lineno)
    # derivative symbols: dx = i p, dx^2 = -p^2 are covered as products only through p; check dx == i*p directly
    vx, vp, vdx = val("x"), val("p"), val("dx")
    if any(isinstance(v, Opaque) for v in (vx, vp)):
        raise AnalysisError(f"BasisSHO: x / p branch outside the fragment: {vx} {vp}")
    if not isinstance(vdx, Opaque):
        chk.ob("sho-product", "BasisSHO['dx'] == i p", equal(vdx.p, Poly.scalar(sp.I) * vp.p), sho.where, repr(vdx.p), "i*p", line=sho.node.lineno,
               detail="dx is not d/dx = i p")
    comm = vx.p * vp.p - vp.p * vx.p
    chk.ob("sho-commutator", "[x, p] from branches x, p", equal(comm, Poly.scalar(sp.I)), sho.where, repr(normal_order(comm)), "i",
           detail="x and p do not satisfy the canonical commutator", line=sho.node.lineno)
    vxp, vpx = val("x p"), val("p x")
    if not isinstance(vxp, Opaque) and not isinstance(vpx, Opaque):
        comm2 = vxp.p - vpx.p
        chk.ob("sho-commutator", "'x p' - 'p x'", equal(comm2, Poly.scalar(sp.I)), sho.where, repr(normal_order(comm2)), "i",
               detail="the 'x p' and 'p x' branches differ by something other than i (ordering swapped or wrong)", line=sho.node.lineno)
    chk.ob("sho-real", "BasisSHO .real operands", not bi.log, sho.where, bi.log[:3] or "all real", "real coefficients",
           line=sho.node.lineno)
    # shifted origin
    chk.ob("sho-product", "BasisSHO['x'] == (b+ + b)/sqrt(2 omega) + x0", equal(vx.p, (B + b) * Poly.scalar(1 / sp.sqrt(2 * w)) + Poly.scalar(x0)),
           sho.where, repr(vx.p), "(B+b)/sqrt(2w) + x0", line=sho.node.lineno)
    # DVR mode
    bid = OpMatRun(src, "BasisSHO", {"general_xp_power": False, "dvr": True}, SHO_AXIOMS, "sho")
    for sym in ("x", "x^2", "p", "p^2", "x p", "p x", "x dx", "dx x", "dx", "dx^2"):
        if sym not in lits:
            continue
        try:
            v = bid.value(sym)
        except Opaque as e:
            chk.note(f"sho-dvr {sym!r}: outside fragment ({e})")
            continue
        ok = v.rot in ("rot", "inv")
        chk.ob("sho-dvr", f"BasisSHO(dvr)[{sym!r}]", ok, sho.where, v.rot, "rot",
               detail=f"with dvr=True, op_mat({sym!r}) is returned in the harmonic-oscillator eigenbasis while x, p, x^2, p^2 are "
                      f"returned in the DVR basis (V^T M V): operators of one basis set live in different bases", line=sho.node.lineno)
        # algebra must agree with the plain variant (unitary consistency)
        pv = val(sym)
        if not isinstance(pv, Opaque):
            chk.ob("sho-dvr", f"BasisSHO(dvr)[{sym!r}] same operator as plain", equal(v.p, pv.p), sho.where, repr(v.p), repr(pv.p), line=sho.node.lineno)

    # ------------------------------------------------------------ sine DVR
    sine = src.func(BASIS, "BasisSineDVR.op_mat")
    u, d, P2 = Poly.gen("u"), Poly.gen("d"), Poly.gen("P")   # P = p^2 (diagonal 2E)
    si = OpMatRun(src, "BasisSineDVR", {"dvr": False, "quadrature": False}, {}, "sine")
    X = Poly.scalar(xi) + u
    expect = {
        "x": X, "x^1": X, "x^2": X * X, "x^3": X * X * X, "x x": X * X, "dx": d, "p": Poly.scalar(-sp.I) * d, "p^2": P2,
        "dx^2": -P2, "dx dx": -P2, "x dx": X * d, "x^2 dx": X * X * d, "x p^2": X * P2, "x dx^2": -(X * P2),
        "x^2 p^2": X * X * P2, "x^2 dx^2": -(X * X * P2), "x^3 p^2": X * X * X * P2, "x^3 dx^2": -(X * X * X * P2),
    }
    slits = accepted_symbols(src, "BasisSineDVR", si)
    chk.table("sinedvr_symbols", sorted(slits))
    for sym in sorted(slits | {"x x"}):
        if sym == "I":
            continue
        if sym not in expect:
            chk.note(f"sinedvr-algebra: no oracle for symbol {sym!r}; not decided")
            continue
        try:
            v = si.value(sym)
        except Opaque as e:
            chk.note(f"sinedvr-algebra {sym!r}: outside fragment ({e}); not decided")
            continue
        # u and d do not commute, compare word by word (no rewriting rule is applied)
        diff = v.p - expect[sym]
        ok = all(sp.simplify(c) == 0 for c in diff.t.values())
        chk.ob("sinedvr-algebra", f"BasisSineDVR[{sym!r}]", ok, sine.where, repr(v.p), repr(expect[sym]),
               detail=f"op_mat({sym!r}) is not the binomial expansion of (xi + u)^k times the written derivative factor "
                      f"(u = x - xi, d = d/du, P = p^2)", line=sine.node.lineno)

    # ------------------------------------------------------------ 2x2 matrices
    hs = src.func(BASIS, "BasisHalfSpin.op_mat")
    m2 = Mat2(hs, split=True)
    I2 = sp.eye(2)
    try:
        Xm, Ym, Zm = m2.value("X"), m2.value("Y"), m2.value("Z")
        iY, sm, spl = m2.value("iY"), m2.value("sigma_-"), m2.value("sigma_+")
    except Opaque as e:
        raise AnalysisError(f"BasisHalfSpin.op_mat: literal branch not foldable: {e}")
    rel = [
        ("X^2 = I", Xm * Xm, I2), ("Y^2 = I", Ym * Ym, I2), ("Z^2 = I", Zm * Zm, I2),
        ("X Y = i Z", Xm * Ym, sp.I * Zm), ("Y Z = i X", Ym * Zm, sp.I * Xm), ("Z X = i Y", Zm * Xm, sp.I * Ym),
        ("iY = i*Y", iY, sp.I * Ym), ("sigma_+ = (X + iY)/2", spl, (Xm + sp.I * Ym) / 2), ("sigma_- = (X - iY)/2", sm, (Xm - sp.I * Ym) / 2),
        ("Z = diag(1,-1)", Zm, sp.Matrix([[1, 0], [0, -1]])),
        ("X hermitian", Xm, Xm.H), ("Y hermitian", Ym, Ym.H),
    ]
    for name, a, c in rel:
        chk.ob("pauli", f"BasisHalfSpin: {name}", sp.simplify(a - c) == sp.zeros(2, 2), hs.where, str(a.tolist()), str(c.tolist()),
               line=hs.node.lineno, detail=f"spin-1/2 matrices violate {name}")
    # aliases go to the same branch
    for group in (["sigma_x", "X", "x"], ["sigma_y", "Y", "y"], ["sigma_z", "Z", "z"], ["isigma_y", "iY", "iy"], ["sigma_-", "-"], ["sigma_+", "+"]):
        vals = []
        for g in group:
            try:
                vals.append(m2.value(g))
            except Opaque:
                vals.append(None)
        ok = all(v is not None and v == vals[0] for v in vals)
        chk.ob("pauli", f"BasisHalfSpin aliases {group}", ok, hs.where, [None if v is None else v.tolist() for v in vals], "identical", line=hs.node.lineno)
    se_ = src.func(BASIS, "BasisSimpleElectron.op_mat")
    e2 = Mat2(se_, split=False)
    try:
        ad, a_, n_, id_ = e2.value(r"a^\dagger"), e2.value("a"), e2.value(r"a^\dagger a"), e2.value("I")
    except Opaque as e:
        raise AnalysisError(f"BasisSimpleElectron.op_mat not foldable: {e}")
    for name, a, c in [("a = (a^dagger)^T", a_, ad.T), ("a^dagger a = a^dagger @ a", n_, ad * a_), ("{a, a^dagger} = I", a_ * ad + ad * a_, I2),
                       ("a^dagger raises |0> to |1>", ad, sp.Matrix([[0, 0], [1, 0]])), ("I", id_, I2), ("a a = 0", a_ * a_, sp.zeros(2, 2))]:
        chk.ob("pauli", f"BasisSimpleElectron: {name}", sp.simplify(a - c) == sp.zeros(2, 2), se_.where, str(a.tolist()), str(c.tolist()),
               line=se_.node.lineno, detail=f"electron matrices violate {name}")

    # ------------------------------------------------------------ multi electron element placement: abstract run of op_mat on three degrees of freedom
    for cname, off in (("BasisMultiElectron", 0), ("BasisMultiElectronVac", 1)):
        fi = src.func(BASIS, f"{cname}.op_mat")
        mm = Mat2(fi, src=src)
        dof_names = ["d0", "d1", "d2"]
        attrs = {"nbas": 3 + off, "dof_name_map": {d: q + off for q, d in enumerate(dof_names)}, "dof": dof_names, "dofs": dof_names}
        for s1, s2 in ((r"a^\dagger", "a"), ("a", r"a^\dagger")):
            probs = []
            for (qa, da) in enumerate(dof_names):
                for (qb, db) in enumerate(dof_names):
                    try:
                        m = mm.value(f"{s1} {s2}", dofs=[da, db], attrs=attrs)
                    except Opaque as e:
                        probs.append(f"({da}, {db}): {e}")
                        continue
                    row, col = (qa, qb) if s1 != "a" else (qb, qa)      # row = the a^dagger DoF, column = the a DoF
                    want = sp.zeros(3 + off, 3 + off)
                    want[row + off, col + off] = 1
                    if m != want:
                        probs.append(f"({s1} on {da}, {s2} on {db}): non-zero elements {[(r_, c_, m[r_, c_]) for r_ in range(m.shape[0]) for c_ in range(m.shape[1]) if m[r_, c_] != 0]}, expected a single 1 at [{row + off}, {col + off}]")
            chk.ob("multi-electron", f"{cname}: ({s1}, {s2})", not probs, fi.where, probs[:2] or "single 1 at [index of the a^dagger DoF, index of the a DoF] for all 9 pairs", "single 1 at [index of the a^dagger DoF, index of the a DoF]",
                   line=fi.node.lineno, detail=f"{cname}.op_mat: for the symbol pair ({s1} on DoF i, {s2} on DoF j) the single 1 must sit at [index of the a^dagger DoF, index of the a DoF]; "
                                               f"a_i a_j^dagger is the Hermitian conjugate of a_i^dagger a_j, not the same matrix")
    holstein_rule(chk, src)
    # ------------------------------------------------------------ copy forward
    base = src.cls(BASIS, "BasisSet")
    for ci in [base] + sorted(src.subclasses(base), key=lambda c: c.node.lineno):
        if "copy" not in ci.methods:
            continue
        cp = ci.methods["copy"]
        if any(isinstance(n, ast.Raise) for n in cp.node.body):
            continue
        stored, params = stored_params(src, ci)
        calls = [n for n in ast.walk(cp.node) if isinstance(n, ast.Call) and unparse(n.func) in ("self.__class__", "type(self)", ci.name)]
        if len(calls) != 1:
            raise AnalysisError(f"{cp.where}: constructor call not found")
        call = calls[0]
        slot = {}
        for i, a in enumerate(call.args):
            if i < len(params):
                slot[params[i]] = a
        for k in call.keywords:
            if k.arg:
                slot[k.arg] = k.value
        for p in params:
            if p == params[0]:
                ok = p in slot and unparse(slot[p]) == cp.params()[1]
                chk.ob("copy-forward", f"{ci.name}.copy:{p}", ok, cp.where, unparse(slot[p]) if p in slot else "<missing>", cp.params()[1], line=call.lineno)
                continue
            if p not in stored:
                if p in slot:
                    chk.note(f"{ci.name}.copy passes non-stored parameter {p}")
                continue
            attr = stored[p]
            got = unparse(slot[p]) if p in slot else "<missing>"
            ok = p in slot and any(isinstance(x, ast.Attribute) and x.attr == attr and unparse(x.value) == "self" for x in ast.walk(slot[p]))
            chk.ob("copy-forward", f"{ci.name}.copy:{p}", ok, cp.where, got, f"self.{attr}", line=call.lineno,
                   detail=f"{ci.name}.copy(new_dof) does not forward constructor parameter {p!r} (stored as self.{attr}): the copy silently "
                          f"falls back to the default / receives another parameter's value; TI1DModel and add_auxiliary_space replicate bases with copy()")


def op_term(e, env):
    """Op(...) [* Op(...)] [* scalar] expression -> (symbol string, sympy coefficient)"""
    from . import C09
    if isinstance(e, ast.Call) and unparse(e.func) == "Op":
        sym = e.args[0].value if isinstance(e.args[0], ast.Constant) else None
        if sym is None:
            raise AnalysisError(f"non-literal operator symbol in {unparse(e)[:60]}")
        coef = sp.Integer(1)
        fac = e.args[2] if len(e.args) > 2 else None
        for k in e.keywords:
            if k.arg == "factor":
                fac = k.value
        if fac is not None:
            coef = scal(fac, env)
        return sym, coef
    if isinstance(e, ast.BinOp) and isinstance(e.op, ast.Mult):
        try:
            ls, lc = op_term(e.left, env)
        except AnalysisError:
            ls, lc = None, scal(e.left, env)
        try:
            rs, rc = op_term(e.right, env)
        except AnalysisError:
            rs, rc = None, scal(e.right, env)
        sym = " ".join(x for x in (ls, rs) if x)
        return (sym or None), lc * rc
    raise AnalysisError(f"term expression outside the fragment: {unparse(e)[:60]}")


def scal(e, env):
    t = unparse(e).replace(" ", "")
    for k, v in env.items():
        t = t.replace(k, v)
    from . import C09
    return C09.scalar_sym(ast.parse(t, mode="eval").body, {"W0": sp.Symbol("w0", positive=True), "W1": sp.Symbol("w1", positive=True),
                                                          "D1": sp.Symbol("d1", real=True), "D0": sp.Symbol("d0", real=True)})


def holstein_rule(chk, src):
    """the displaced-oscillator potential of the excited state must be a perfect square consistent with the reorganisation energy"""
    chk.rule("holstein-square", "HolsteinModel: excited-state potential = 1/2 w_e^2 (x - d)^2 across the vibration terms, the electron-phonon terms "
             "and Phonon.reorganization_energy; the equal-frequency branch is the general branch at w_e = w_g; Phonon.term10 is the same linear coupling", 5)
    MODEL = "renormalizer/model/model.py"
    PH = "renormalizer/model/phonon.py"
    fi = src.func(MODEL, "HolsteinModel.__init__")
    env = {"ph.omega[0]": "W0", "ph.omega[1]": "W1", "ph.dis[1]": "D1", "ph.dis[0]": "D0"}
    w0, w1, d1 = sp.Symbol("w0", positive=True), sp.Symbol("w1", positive=True), sp.Symbol("d1", real=True)
    # the term list: abstract run of HolsteinModel.__init__ on one molecule with one vibration whose frequencies and displacement are symbols
    from ..syminterp import SymInterp, Sym, Blob
    from .chain_rules import class_resolver

    class OpT(Sym):
        """operator term: symbol string, degrees of freedom, coefficient"""
        def __init__(self, symbol, dofs=None, factor=1, qn=None):
            super().__init__(f"{factor}*{symbol}")
            self.symbol, self.dofs, self.factor = symbol, dofs, sp.sympify(factor)

        def __mul__(self, o):
            if isinstance(o, OpT):
                return OpT(self.symbol + " " + o.symbol, (self.dofs, o.dofs), self.factor * o.factor)
            return OpT(self.symbol, self.dofs, self.factor * sp.sympify(o))

        __rmul__ = __mul__

    def terms_of(equal):
        wa, wb = (w0, w0) if equal else (w0, w1)
        ph = Sym("ph", omega=[wa, wb], dis=[sp.Integer(0), d1], n_phys_dim=4)
        mol = Sym("mol", ph_list=[ph], elocalex=sp.Symbol("elocalex"), e0=sp.Symbol("e0"), dipole="dipole")
        got = {}

        class J(Sym):
            shape = (1, 1)

            def __getitem__(self, k):
                return sp.Symbol("J")
        me = Sym("model")
        me._cls = "HolsteinModel"
        me.__dict__["n_edofs"] = 1

        def model_init(basis, ham, dipole=None, **k):
            got["ham"], got["basis"] = list(ham), list(basis)
        me.__dict__["super___init__"] = model_init
        it = SymInterp(src, class_resolver(src, {"HolsteinModel": MODEL}), {
            "Op": lambda symbol, dofs=None, factor=1, qn=None: OpT(symbol, dofs, factor), "np": Sym("np", allclose=lambda a, b, **k: sp.simplify(sp.sympify(a) - sp.sympify(b)) == 0),
            "isinstance": lambda x, t: False, "Quantity": "Quantity", "construct_j_matrix": lambda *a: J("j"), "BasisSimpleElectron": lambda *a, **k: ("e",) + a,
            "BasisSHO": lambda *a, **k: ("sho",) + a, "BasisMultiElectronVac": lambda *a, **k: ("multi",) + a, "logger": Blob("logger")})
        it.max_depth = 10
        it.call_function(fi, [me, [mol], J("j")], {"scheme": 2})
        out = {}
        for t_ in got.get("ham", []):
            if not isinstance(t_, OpT):
                raise AnalysisError(f"{fi.where}: the Hamiltonian list holds {t_!r}")
            out[t_.symbol] = sp.simplify(out.get(t_.symbol, 0) + t_.factor)
        return out
    res = {}
    for equal in (False, True):
        terms = terms_of(equal)
        terms.pop(r"a^\dagger a", None)        # the electronic block is the subject of the on-site obligation below
        res[equal] = terms
    gen = res[False]
    k2 = gen.get(r"a^\dagger a x^2", 0)
    k1 = gen.get(r"a^\dagger a x", 0)
    c2 = sp.simplify(gen.get("x^2", 0) + k2)
    ro = src.func(PH, "Phonon.reorganization_energy")
    # the reorganisation energy: the property function is interpreted on a phonon stand-in with symbolic frequencies and displacement
    from ..syminterp import SymInterp as _SI, Sym as _Sym
    ph_ = _Sym("phonon", omega=[w0, w1], dis=[sp.Integer(0), d1])
    c0 = _SI(src, None, {"Quantity": lambda v, *a_, **k_: v, "np": _Sym("np", sqrt=sp.sqrt, abs=sp.Abs)}).call_function(ro, [ph_])
    c0 = sp.sympify(getattr(c0, "value", c0))
    chk.ob("holstein-square", "kinetic and ground-state potential: 1/2 p^2 + 1/2 w_g^2 x^2", sp.simplify(gen.get("p^2", 0) - sp.Rational(1, 2)) == 0 and sp.simplify(gen.get("x^2", 0) - w0 ** 2 / 2) == 0,
           fi.where, {"p^2": str(gen.get("p^2")), "x^2": str(gen.get("x^2"))}, {"p^2": "1/2", "x^2": "w0**2/2"}, line=fi.node.lineno)
    chk.ob("holstein-square", "excited-state curvature = 1/2 w_e^2", sp.simplify(c2 - w1 ** 2 / 2) == 0, fi.where, str(c2), "w1**2/2", line=fi.node.lineno)
    chk.ob("holstein-square", "perfect square: (linear coupling)^2 = 4 * curvature * reorganisation energy", sp.simplify(k1 ** 2 - 4 * c2 * c0) == 0 and sp.simplify(k1 + w1 ** 2 * d1) == 0, fi.where,
           {"linear": str(k1), "curvature": str(c2), "reorganisation": str(c0)}, "linear = -w_e^2 d, reorganisation = 1/2 w_e^2 d^2", line=fi.node.lineno,
           detail="the electron-phonon coupling, the excited-state frequency and the on-site reorganisation energy (Phonon.reorganization_energy, added through Mol.e0) no longer form "
                  "1/2 w_e^2 (x-d)^2; invisible when ground and excited state frequencies coincide")
    eq = res[True]
    gen_at_eq = {k: sp.simplify(sp.sympify(v).subs(w1, w0)) for k, v in gen.items()}
    gen_at_eq = {k: v for k, v in gen_at_eq.items() if v != 0}
    eqn = {k: v for k, v in eq.items() if v != 0}
    chk.ob("holstein-square", "equal-frequency branch == general branch at w_e = w_g", eqn == gen_at_eq, fi.where, {k: str(v) for k, v in eqn.items()}, {k: str(v) for k, v in gen_at_eq.items()},
           line=fi.node.lineno)
    t10 = src.func(PH, "Phonon.term10")
    phc = src.cls(PH, "Phonon")

    def ph_eval(e, depth=0):
        """Phonon-level scalar expression -> sympy, inlining other Phonon properties"""
        if depth > 5:
            raise AnalysisError("Phonon property recursion")
        if isinstance(e, ast.Constant):
            return sp.nsimplify(e.value)
        t_ = unparse(e).replace(" ", "")
        if t_ == "self.omega[0]":
            return w0
        if t_ == "self.omega[1]":
            return w1
        if t_ == "self.dis[1]":
            return d1
        if t_ == "self.dis[0]":
            return sp.Integer(0)
        if isinstance(e, ast.Attribute) and isinstance(e.value, ast.Name) and e.value.id == "self" and e.attr in phc.methods:
            m = phc.methods[e.attr]
            env_ = {}
            for st in m.node.body:
                if isinstance(st, ast.Assign) and isinstance(st.targets[0], ast.Name):
                    env_[st.targets[0].id] = st.value
            rr = [r.value for r in ast.walk(m.node) if isinstance(r, ast.Return)]
            if len(rr) != 1:
                raise AnalysisError(f"Phonon.{e.attr}: not a single-return property")
            return ph_eval_in(rr[0], env_, depth + 1)
        if isinstance(e, ast.Call):
            f_ = unparse(e.func)
            if f_ in ("np.sqrt", "math.sqrt"):
                return sp.sqrt(ph_eval(e.args[0], depth))
            if f_ in ("float", "Quantity", "abs") and e.args:
                v_ = ph_eval(e.args[0], depth)
                return sp.Abs(v_) if f_ == "abs" else v_
            if isinstance(e.func, ast.Attribute) and e.func.attr == "as_au":
                return ph_eval(e.func.value, depth)
        if isinstance(e, ast.UnaryOp) and isinstance(e.op, ast.USub):
            return -ph_eval(e.operand, depth)
        if isinstance(e, ast.BinOp):
            a_, b_ = ph_eval(e.left, depth), ph_eval(e.right, depth)
            return {ast.Add: lambda: a_ + b_, ast.Sub: lambda: a_ - b_, ast.Mult: lambda: a_ * b_, ast.Div: lambda: a_ / b_, ast.Pow: lambda: a_ ** b_}[type(e.op)]()
        raise AnalysisError(f"Phonon expression outside the fragment: {t_}")

    def ph_eval_in(e, local, depth):
        class Sub(ast.NodeTransformer):
            def visit_Name(self_, n):
                if n.id in local:
                    return Sub().visit(ast.parse(unparse(local[n.id]), mode="eval").body)
                return n
        return ph_eval(Sub().visit(ast.parse(unparse(e), mode="eval").body), depth)

    r10 = [r.value for r in ast.walk(t10.node) if isinstance(r, ast.Return)][0]
    v10 = ph_eval(r10)
    chk.ob("holstein-square", "Phonon.term10 * sqrt(2 w_g) == linear coupling of the model", sp.simplify(v10 * sp.sqrt(2 * w0) - k1) == 0, t10.where, str(v10), str(k1 / sp.sqrt(2 * w0)), line=t10.node.lineno,
           detail="the exact propagator (EX space) couples through term10 (b^dagger + b) with x = (b^dagger + b)/sqrt(2 w_g); it must be the model's linear coupling")
    diag = [n for n in ast.walk(fi.node) if isinstance(n, ast.Assign) and unparse(n.targets[0]) == "factor" and "e0" in unparse(n.value)]
    chk.ob("holstein-square", "on-site energy includes the reorganisation energy (elocalex + e0)", len(diag) == 1 and unparse(diag[0].value).replace(" ", "") == "mol_list[imol].elocalex+mol_list[imol].e0",
           fi.where, [unparse(d.value) for d in diag], "mol_list[imol].elocalex + mol_list[imol].e0", line=fi.node.lineno)


META = {
    "category": "other",
    "engine": "ALG",
    "technique": "abstract interpretation of the op_mat dispatchers in an operator-polynomial domain (non-commutative generators, Weyl normal ordering, sympy coefficients, DVR rotation tokens), of the model builders on symbolic terms, exact 2x2 algebra for spin / fermion matrices, constructor-slot dataflow for copy()",
    "text": "Decides on the source, for all omega/x0/xi symbolically: product and power branches of BasisSHO and BasisSineDVR equal the ordered "
            "product of their factors, [x,p]=i, DVR variants stay in one basis, Pauli/fermion relations of the literal 2x2 matrices hold "
            "exactly, multi-electron element placement, and copy() forwards every stored constructor parameter. Leaf matrices, power "
            "formulas, sine integrals, model builders and units are declared undecided."
            ' The unit conversion table (entries = units per atomic unit, reciprocal constants) and the term lists of TI1DModel / construct_j_matrix (periodic wrap) are decided by folding and abstract runs.',
    "note": "Axioms: ladder leaves and sine-DVR helper integrals denote what they are named after; truncation at the top level ignored "
            "(documented by the property). Branches outside the interpreted fragment are reported as not decided (notes), never guessed.",
    "design_ref": "DESIGN.md 3.10, 4 (C16); as built: 9.1, 9.3, 9.8",
}
