"""C17 - fermions / site reordering: every state-side swap is mirrored on the operator, with the same Jordan-Wigner flag; try_swap_site
co-updates all dependent fields; the operator-side JW remapping understands the symbols the ab-initio model emits; both integral
tensors contribute to the generated Hamiltonian in both term-list layouts."""
import ast

from ..src import AnalysisError, unparse, norm_stmt, walk_no_nested
from .. import qn as Q

MP, MPS, MPO, GS, SYM, HQC, BASIS = Q.MP, Q.MPS, Q.MPO, "renormalizer/mps/gs.py", "renormalizer/mps/symbolic_mpo.py", "renormalizer/model/h_qc.py", "renormalizer/model/basis.py"

# callers of _update_mps (closed table; a new caller is an analysis error until classified)
UPDATE_CALLERS = {
    ("renormalizer/mps/gs.py", "single_sweep"): "run",      # abstract run with versioned events (chain_rules.single_sweep_rule)
    ("renormalizer/mps/mps.py", "Mps._evolve_tdvp_ps2"): "run",      # abstract run with bookkeeping events (chain_rules.tdvp_bookkeeping_rule)
    ("renormalizer/mps/mp.py", "MatrixProduct.variational_compress"): "sweep",
    ("renormalizer/cv/zerot.py", None): "out of scope: correction-vector code builds its own operators, OFS unsupported there",
    ("renormalizer/vibration/vscf.py", None): "out of scope",
}


def alias_groups(src):
    """alias groups of single-symbol spin operators accepted by BasisHalfSpin.op_mat: every string literal of the class that op_mat accepts, grouped by the matrix it denotes
    (abstract run on exact 2 x 2 matrices)"""
    from .C16 import Mat2
    from ..alg import Opaque
    ci = src.cls(BASIS, "BasisHalfSpin")
    fi = src.func(BASIS, "BasisHalfSpin.op_mat")
    cands = sorted({n.value for n in ast.walk(ci.node) if isinstance(n, ast.Constant) and isinstance(n.value, str) and n.value and " " not in n.value and len(n.value) < 12})
    m2 = Mat2(fi, src=src)
    by_mat = {}
    for c in cands:
        try:
            m = m2.value(c)
        except (Opaque, AnalysisError):
            continue
        by_mat.setdefault(tuple(m), []).append(c)
    return sorted(by_mat.values())


JW_VERIFIED = {}


def jw_sign_rule(chk, src):
    """exhaustive abstract run of table_row_swapped_jw over pairs of single-site Jordan-Wigner words (both spellings): with A on the first and B on the second site, the
    returned (sign, A', B') must satisfy  sign * A' (x) B' = CZ (A (x) B) CZ,  CZ = diag(1, 1, 1, -1) in the occupation basis of BasisHalfSpin - the operator identity behind
    exchanging two fermionic sites (the exchange of the two table columns is done by the caller).  The matrices are those BasisHalfSpin.op_mat gives for the words."""
    import sympy as sp
    from ..syminterp import SymInterp, Sym, SymRaise, Blob, OpenSym
    from .C16 import Mat2
    from ..alg import Opaque
    fi = src.func("renormalizer/mps/symbolic_mpo.py", "table_row_swapped_jw")
    hs = src.func(BASIS, "BasisHalfSpin.op_mat")
    m2 = Mat2(hs, src=src)
    cache = {}

    def mat(word):
        key = " ".join(word)
        if key not in cache:
            cache[key] = m2.value(key)
        return cache[key]

    class OpW(Sym):
        def __init__(self, symbol, dofs=None, factor=1.0, qn=None):
            super().__init__(f"Op({symbol})")
            self.symbol = symbol
            self.split_symbol = symbol.split(" ")
            self.dofs = list(dofs) if isinstance(dofs, (list, tuple)) else [dofs] * len(self.split_symbol)
            self.qn_list = list(qn) if isinstance(qn, (list, tuple)) else [Blob("qn") if qn is None else qn] * len(self.split_symbol)
            self.qn_size, self.factor = 1, factor

        def __eq__(self, o):
            return isinstance(o, OpW) and o.symbol == self.symbol

        def __hash__(self):
            return hash(self.symbol)
    words = [["I"], ["Z"], ["+"], ["-"], ["+", "-"], ["-", "+"], ["Z", "+"], ["Z", "-"], ["sigma_z"], ["sigma_+"], ["sigma_-"], ["sigma_z", "sigma_+"], ["z"]]
    CZ = sp.diag(1, 1, 1, -1)
    bad, n = [], 0
    for w1 in words:
        for w2 in words:
            op1, op2 = OpW(" ".join(w1), ["d1"] * len(w1)), OpW(" ".join(w2), ["d2"] * len(w2))
            prim = [OpW("I", ["x"]), op1, op2]
            op2idx = {o: k for k, o in enumerate(prim)}
            opns = Sym("Op", identity=lambda dof, qn_size=1: OpW("I", [dof]))

            class OpCls(Sym):
                def __call__(self, symbol, dofs=None, factor=1.0, qn=None):
                    return OpW(symbol, dofs, factor, qn)
            ocls = OpCls("Op")
            ocls.__dict__["identity"] = lambda dof, qn_size=1, **k: OpW("I", [dof])
            it = SymInterp(src, None, {"Op": ocls, "np": OpenSym("np", make=lambda t: Blob(t)), "logger": Blob("logger")})
            it.check_asserts = True
            it.max_depth = 8
            try:
                row, coeff = it.call_function(fi, [[0, 1, 2, 0, 0], prim, op2idx])
            except SymRaise as e:
                bad.append(f"({' '.join(w1)} | {' '.join(w2)}): raises {e}")
                continue
            n += 1
            try:
                a1, b1 = prim[row[1]], prim[row[2]]
                lhs = sp.nsimplify(coeff) * sp.kronecker_product(mat(a1.split_symbol), mat(b1.split_symbol))
                rhs = CZ * sp.kronecker_product(mat(w1), mat(w2)) * CZ
            except Opaque as e:
                bad.append(f"({' '.join(w1)} | {' '.join(w2)}): result ({a1.symbol} | {b1.symbol}) is not a spin word BasisHalfSpin knows: {e}")
                continue
            if sp.simplify(lhs - rhs) != sp.zeros(4, 4):
                bad.append(f"({' '.join(w1)} | {' '.join(w2)}) -> {coeff} * ({a1.symbol} | {b1.symbol}): not CZ (A x B) CZ")
            if row[0] != 0 or row[3:] != [0, 0]:
                bad.append(f"({' '.join(w1)} | {' '.join(w2)}): the other entries of the row are changed: {row}")
    chk.ob("jw-sign-parity", f"table_row_swapped_jw: sign * A' (x) B' = CZ (A (x) B) CZ for {len(words) ** 2} pairs of spin words", not bad and n == len(words) ** 2, fi.where, bad[:3] or f"{n} pairs", f"{len(words) ** 2} pairs",
           line=fi.node.lineno, detail="exchanging two fermionic sites conjugates the operator with the controlled-Z of the two occupation numbers: a ladder operator acquires sigma_z on the other site and the "
                                       "product of two ladder operators a sign: " + (bad[0] if bad else ""))
    chk.ob("jw-sign-parity", "table_row_swapped_jw registers new operators once", True, fi.where, "checked by the run above (indices resolve to the returned operators)", "", line=fi.node.lineno)
    failed = {x for b_ in bad for x in b_.split(")")[0].strip("(").replace("|", " ").split()}
    return {x for w in words for x in w} - failed


def out_ops_shape_rule(chk, src, rule):
    """the symbolic bond operators an MPO keeps for later site swaps (`symbolic_out_ops_list`) are produced by two paths of construct_symbolic_mpo: the general builder
    and a short cut for one-term operators.  Abstract run of both (the decomposition loop as a recorder that returns what it returns: one list of [operator tuples] per
    bond): the two paths must hand out the same structure - per bond a list of outgoing operators, each a list of operator tuples with symbol / qn / factor - because
    swap_site reads it that way whatever built it"""
    from ..syminterp import SymInterp, Sym, Blob, OpenSym, SymRaise
    fi = src.func(SYM, "construct_symbolic_mpo")

    class OT(Sym):
        def __init__(self, symbol, qn=None, factor=None):
            super().__init__("OpTuple")
            self.symbol, self.qn, self.factor = symbol, qn, factor

        def _replace(self, **kw):
            return OT(kw.get("symbol", self.symbol), qn=kw.get("qn", self.qn), factor=kw.get("factor", self.factor))

    class Tab(Sym):
        def __init__(self, rows):
            super().__init__("table")
            self.rows = rows
            self.shape = (len(rows), len(rows[0]))

        def __getitem__(self, k):
            return self.rows[k]

        def __len__(self):
            return len(self.rows)

    class Qn(Sym):
        def __add__(self, o):
            return Qn("qn")

        __radd__ = __add__

        def __getitem__(self, k):
            return Qn("qn")

    class PrimOp(Sym):
        def __rmul__(self, o):
            return self

        __mul__ = __rmul__

        def __hash__(self):
            return hash(self._name)

        def __eq__(self, o):
            return isinstance(o, PrimOp) and o._name == self._name
    prim = [PrimOp(f"prim{j}", qn=Qn("qn")) for j in range(3)]
    for p_ in prim:
        p_.__dict__["qn"] = [0]

    class Cell(list):
        pass

    from ..xnp import ObjGrid

    def full(shape, fill=None, **k):
        return ObjGrid(shape, fill)

    def general(table, in_ops, factor, primary_ops, algo="qr"):
        n_bonds = table.shape[1] - 1
        return [in_ops] + [[[OT([0, 1], qn=Qn("qn"), factor=1)], [OT([0, 2], qn=Qn("qn"), factor=1)]] for _ in range(n_bonds - 2)] + [[[OT([0, 0], qn=Qn("qn"), factor=1)]]]
    npx = OpenSym("np", make=lambda t: Qn("qn"), full=full, zeros=lambda shape, **k: Qn("zeros") if not (isinstance(shape, tuple) and len(shape) == 2 and shape[1] == 1 and shape[0] > 1) else Tab([[0]] * shape[0]),
                  array=lambda x, **k: Qn("qn"), concatenate=lambda parts, axis=None: Tab([[0] + list(r) + [0] for r in parts[1].rows]), uint16="uint16")

    def depth_sig(x):
        """nesting signature down to the operator tuples"""
        if isinstance(x, OT):
            return "T"
        if isinstance(x, (list, tuple)):
            inner = sorted({depth_sig(y) for y in x})
            return "[" + "|".join(inner) + "]"
        return type(x).__name__
    class Fac(Sym):
        def __mul__(self, o):
            return o if isinstance(o, PrimOp) else self

        __rmul__ = __mul__
    sigs = {}
    for name, table in (("one term (short cut)", Tab([[1, 2, 0]])), ("several terms (general builder)", Tab([[1, 2, 0], [0, 1, 2]]))):
        it = SymInterp(src, None, {"np": npx, "OpTuple": lambda symbol, qn=None, factor=None: OT(symbol, qn, factor), "_construct_symbolic_mpo": general, "compose_symbolic_mo": lambda *a: "mo",
                                   "logger": Blob("logger"), "List": Blob("List"), "Op": Blob("Op")})
        it.max_depth = 6
        try:
            res = it.call_function(fi, [table, prim, [Fac("f0"), Fac("f1")][:len(table.rows)]])
        except SymRaise as e:
            raise AnalysisError(f"{fi.where}[{name}]: raises {e}")
        if not (isinstance(res, tuple) and len(res) == 6):
            raise AnalysisError(f"{fi.where}[{name}]: return value is not (mpo, mpoqn, qntot, qnidx, out_ops_list, primary_ops)")
        sigs[name] = sorted({depth_sig(b) for b in res[4]})
    a, b = sigs["one term (short cut)"], sigs["several terms (general builder)"]
    chk.ob(rule, "construct_symbolic_mpo: both construction paths hand out bond operators of one structure", a == b == ["[[T]]"], fi.where, sigs, "per bond: list of outgoing operators, each a list of operator tuples ([[T]])",
           line=fi.node.lineno, detail="the short cut for one-term operators keeps its bond operators with one nesting level less than the general builder: a later on-the-fly swap of two sites of such an "
                                       "operator (swap_site reads out_op[0].symbol) fails with AttributeError instead of reordering it")


def int_to_h_rule(chk, src, rule):
    """abstract run of h_qc.int_to_h on symbolic one- and two-electron integrals of two spatial orbitals (arrays as index -> sympy expression maps with the numpy operations
    an expansion to spin orbitals plausibly uses): the one-electron part is h[q//2, s//2] between spin orbitals of equal spin and zero between different spins; the
    antisymmetrised two-electron part is, for p < q and r < s, (ps|qr) d(sp,ss) d(sq,sr) - (pr|qs) d(sp,sr) d(sq,ss), zero elsewhere"""
    import itertools
    import sympy as sp
    from ..syminterp import SymInterp, Sym, Blob, OpenSym, SymRaise
    fi = src.func(HQC, "int_to_h")

    class Arr(Sym):
        def __init__(self, shape, cells=None):
            super().__init__("array")
            self.shape, self.ndim = tuple(shape), len(shape)
            self.cells = dict(cells or {})

        def _key(self, k):
            k = k if isinstance(k, tuple) else (k,)
            if len(k) != self.ndim or not all(isinstance(x, int) for x in k):
                raise AnalysisError(f"array index {k!r} is not modelled")
            k = tuple(x % n_ for x, n_ in zip(k, self.shape))
            return k

        def __getitem__(self, k):
            return self.cells.get(self._key(k), sp.Integer(0))

        def __setitem__(self, k, v):
            self.cells[self._key(k)] = sp.sympify(v)

        def __len__(self):
            return self.shape[0]

        def copy(self):
            return Arr(self.shape, self.cells)

        def _zip(self, o, f):
            if isinstance(o, Arr):
                if o.shape != self.shape:
                    raise AnalysisError("arrays of different shape combined")
                return Arr(self.shape, {k: f(self[k], o[k]) for k in itertools.product(*[range(n_) for n_ in self.shape])})
            return Arr(self.shape, {k: f(self[k], sp.sympify(o)) for k in itertools.product(*[range(n_) for n_ in self.shape])})

        def __add__(self, o):
            return self._zip(o, lambda a, b: a + b)

        def __sub__(self, o):
            return self._zip(o, lambda a, b: a - b)

        def __mul__(self, o):
            return self._zip(o, lambda a, b: a * b)

        __rmul__ = __mul__

        def transpose(self, *axes):
            axes = list(axes[0]) if len(axes) == 1 and isinstance(axes[0], (list, tuple)) else list(axes)
            return Arr([self.shape[a] for a in axes], {tuple(k[a] for a in axes): v for k, v in self.cells.items()})

    def repeat(a, n_, axis=None):
        if axis is None:
            raise AnalysisError("np.repeat without axis")
        axis %= a.ndim
        shape = list(a.shape)
        shape[axis] *= n_
        out = Arr(shape)
        for k in itertools.product(*[range(x) for x in shape]):
            src_k = tuple(x // n_ if d == axis else x for d, x in enumerate(k))
            out.cells[k] = a[src_k]
        return out

    def kron(a, b):
        if a.ndim != 2 or b.ndim != 2:
            raise AnalysisError("np.kron of arrays that are not matrices")
        out = Arr((a.shape[0] * b.shape[0], a.shape[1] * b.shape[1]))
        for i, j, k_, l in itertools.product(range(a.shape[0]), range(a.shape[1]), range(b.shape[0]), range(b.shape[1])):
            out.cells[(i * b.shape[0] + k_, j * b.shape[1] + l)] = a[i, j] * b[k_, l]
        return out

    def eye(n_, *a, **k):
        return Arr((n_, n_), {(i, i): sp.Integer(1) for i in range(n_)})
    norb = 2
    h = Arr((norb, norb), {(i, j): sp.Symbol(f"h{i}{j}") for i in range(norb) for j in range(norb)})
    eri = Arr((norb,) * 4, {k: sp.Symbol("g" + "".join(map(str, k))) for k in itertools.product(range(norb), repeat=4)})
    npx = OpenSym("np", make=lambda t: Blob(t), zeros=lambda shape, *a, **k: Arr(shape if isinstance(shape, (tuple, list)) else (shape,)), zeros_like=lambda a, **k: Arr(a.shape),
                  asarray=lambda a, *x, **k: a, array=lambda a, *x, **k: a, repeat=repeat, kron=kron, eye=eye, identity=eye, transpose=lambda a, axes=None: a.transpose(axes or list(range(a.ndim))[::-1]))
    it = SymInterp(src, None, {"np": npx, "logger": Blob("logger")})
    it.max_depth = 6
    probs = []
    try:
        res = it.call_function(fi, [h, eri])
    except SymRaise as e:
        res = None
        probs.append(f"raises {e}")
    if res is not None:
        if not (isinstance(res, tuple) and len(res) == 2 and isinstance(res[0], Arr) and isinstance(res[1], Arr) and res[0].shape == (4, 4) and res[1].shape == (4, 4, 4, 4)):
            probs.append(f"returns {str(res)[:80]}; expected (one-electron matrix over 4 spin orbitals, antisymmetrised two-electron tensor)")
        else:
            sh, aseri = res
            for q, s_ in itertools.product(range(4), repeat=2):
                want = h[q // 2, s_ // 2] if q % 2 == s_ % 2 else sp.Integer(0)
                if sp.simplify(sh[q, s_] - want) != 0:
                    probs.append(f"one-electron element [{q}, {s_}] = {sh[q, s_]}; expected {want} (spin orbitals {q}, {s_} have {'equal' if q % 2 == s_ % 2 else 'different'} spin)")
                    break

            def seri(p, q, r, s_):
                return eri[p // 2, s_ // 2, q // 2, r // 2] if (p % 2 == s_ % 2 and q % 2 == r % 2) else sp.Integer(0)
            for p, q, r, s_ in itertools.product(range(4), repeat=4):
                want = (seri(p, q, r, s_) - seri(p, q, s_, r)) if (p < q and r < s_) else sp.Integer(0)
                if sp.simplify(aseri[p, q, r, s_] - want) != 0:
                    probs.append(f"two-electron element [{p}, {q}, {r}, {s_}] = {aseri[p, q, r, s_]}; expected {want}")
                    break
    chk.ob(rule, "int_to_h: spatial -> spin orbital integrals", not probs, fi.where, probs[:2] or "spin-diagonal one-electron part, antisymmetrised two-electron part on p < q, r < s", "as specified", line=fi.node.lineno,
           detail="the spin-orbital Hamiltonian must conserve the number of alpha and of beta electrons: an integral between spin orbitals of different spin creates spin-flip terms that are invisible "
                  "inside every fixed (N_alpha, N_beta) sector: " + (probs[0] if probs else ""))


def qc_terms_rule(chk, src):
    """abstract run of qc_model for both layouts on integrals given by their non-zero index tuples: every non-zero one- and two-electron integral gives exactly one term,
    a^dagger_p a_q resp. a^dagger_p a^dagger_q a_r a_s processed by simplify_op and multiplied by that integral; the stacked layout groups the same terms by p"""
    import functools
    from ..syminterp import SymInterp, Sym, Blob, OpenSym
    qc = src.func(HQC, "qc_model")
    nz1, nz2 = [(0, 1), (2, 2)], [(0, 1, 1, 0), (3, 2, 1, 0)]

    class Idx(Sym):
        """array of index tuples"""
        def __init__(self, rows, width):
            super().__init__("index tuples")
            self.rows, self.width = [tuple(r) for r in rows], width

        @property
        def size(self):
            return len(self.rows) * max(self.width, 1)

        @property
        def shape(self):
            return (len(self.rows), self.width)

        def __iter__(self):
            return iter([r if self.width > 1 else r[0] for r in self.rows])

        def __len__(self):
            return len(self.rows)

        def __eq__(self, o):
            return [(r[0] if self.width == 1 else r) == o for r in self.rows]

        __hash__ = None

        def __getitem__(self, k):
            if isinstance(k, list) and all(isinstance(x, bool) for x in k):
                return Idx([r for r, m_ in zip(self.rows, k) if m_], self.width)
            if isinstance(k, tuple) and len(k) == 2 and k[0] == slice(None):
                if isinstance(k[1], int):
                    return Idx([(r[k[1]],) for r in self.rows], 1)
                if isinstance(k[1], slice):
                    return Idx([r[k[1]] for r in self.rows], len(range(self.width)[k[1]]))
            raise AnalysisError(f"index {k!r} of an index array")

    class Integrals(Sym):
        def __init__(self, name, nz, rank):
            super().__init__(name)
            self.nz, self.shape = nz, (4,) * rank

        def __ne__(self, o):
            return ("mask", self)

        def __getitem__(self, k):
            return (self._name, tuple(int(x) for x in k))

    class Term(Sym):
        def __init__(self, kind, idx, coeff=None):
            super().__init__(f"{kind}{idx}")
            self.kind, self.idx, self.coeff = kind, idx, coeff

        def __mul__(self, c):
            return Term(self.kind, self.idx, c)

    class Lad(Sym):
        def __init__(self, kind, q):
            super().__init__(f"{kind}{q}")
            self.kind, self.q = kind, q

        def __mul__(self, o):
            return [self, o]

    def process(op, norbs=None, conserve_qn=True):
        ops = op if isinstance(op, list) else [op]
        return Term("".join(o.kind for o in ops), tuple(o.q for o in ops))
    npq = OpenSym("np", make=lambda t: Blob(t), all=lambda x: True, array=lambda x, **k: x, argwhere=lambda m: Idx(m[1].nz, len(m[1].shape)),
                  unique=lambda x: sorted({(r[0] if isinstance(r, tuple) and len(r) == 1 else r) for r in (x.rows if isinstance(x, Idx) else x)}))
    for stacked in (False, True):
        it = SymInterp(src, None, {"np": npq, "logger": Blob("logger"), "partial": functools.partial, "simplify_op": process,
                                   "generate_ladder_operator": lambda n_: ([Lad("a", q) for q in range(n_)], [Lad("A", q) for q in range(n_)]),
                                   "BasisHalfSpin": lambda *a, **k: "basis", "Op": Sym("Op", product=lambda ops: list(ops))})
        it.max_depth = 8
        basis, terms = it.call_function(qc, [Integrals("h1e", nz1, 2), Integrals("h2e", nz2, 4)], {"stacked": stacked, "conserve_qn": True})
        want1 = [("Aa", t_, ("h1e", t_)) for t_ in nz1]
        want2 = [("AAaa", t_, ("h2e", t_)) for t_ in nz2]
        probs = []
        if not stacked:
            got = [(t_.kind, t_.idx, t_.coeff) for t_ in terms] if all(isinstance(t_, Term) for t_ in terms) else repr(terms)
            if sorted(got) != sorted(want1 + want2):
                probs.append(f"terms {got}; expected one term per non-zero integral: {want1 + want2}")
        else:
            groups = [[(t_.kind, t_.idx, t_.coeff) for t_ in g] for g in terms] if all(isinstance(g, list) for g in terms) else repr(terms)
            flat = [x for g in groups for x in g] if isinstance(groups, list) else []
            if sorted(flat) != sorted(want1 + want2):
                probs.append(f"terms {groups}; expected one term per non-zero integral: {want1 + want2}")
            elif any(len({x[1][0] for x in g}) != 1 for g in groups) or len({g[0][1][0] for g in groups}) != len(groups):
                probs.append(f"stacked groups {groups} are not one group per first index p")
        if len(basis) != 4:
            probs.append(f"{len(basis)} basis sets for 4 spin orbitals")
        chk.ob("qc-term-coverage", f"qc_model[{'stacked' if stacked else 'flat'} layout]: one term per non-zero integral", not probs, qc.where, probs[:2] or "4 terms, each once, with its own integral", "4 terms, each once, with its own integral",
               line=qc.node.lineno, detail="qc_model: " + (probs[0] if probs else "") + " - an orbital that occurs only in the one-electron (or only in the two-electron) integrals must not be dropped, and no term may be counted twice")


def jw_simplify_rule(chk, src):
    """exhaustive check of the normal-ordering step of simplify_op on one site: for every word over {Z, +, -} up to length 5 the simplified word times the
    counted sign is the same 2x2 matrix, and the quantum numbers attached to the kept symbols are the charge differences of their matrix elements"""
    import itertools
    import sympy as sp
    from ..syminterp import SymInterp, Sym
    from .C16 import Mat2
    from ..alg import Opaque
    HQC = "renormalizer/model/h_qc.py"
    fi = src.func(HQC, "simplify_op")
    hs = src.func("renormalizer/model/basis.py", "BasisHalfSpin.op_mat")
    m2 = Mat2(hs, split=True, src=src)
    try:
        mats = {"Z": m2.value("Z"), "+": m2.value("+"), "-": m2.value("-")}
    except Opaque as e:
        raise AnalysisError(f"BasisHalfSpin.op_mat: matrices of Z, +, - not foldable: {e}")
    # the site charges used by qc_model: abstract run of qc_model on a two-orbital problem without integrals; the basis sets it constructs are recorded
    qm = src.func(HQC, "qc_model")
    import functools
    from ..syminterp import Blob, OpenSym
    built = []

    class _Arr(Sym):
        def __init__(self, shape):
            super().__init__("integrals")
            self.shape = shape

        def __ne__(self, o):
            return Blob("mask")

        def __getitem__(self, k):
            return Blob("integral")
    npq = OpenSym("np", make=lambda t: Blob(t), all=lambda x: True, array=lambda x, **k: x, argwhere=lambda m: _Empty(), unique=lambda x: [])

    class _Empty(Sym):
        def __init__(self):
            super().__init__("no index tuples")
            self.size = 0

        def __iter__(self):
            return iter(())

        def __getitem__(self, k):
            return _Empty()

        def __eq__(self, o):
            return Blob("mask")

        __hash__ = None
    itq = SymInterp(src, None, {"np": npq, "logger": Blob("logger"), "partial": functools.partial, "generate_ladder_operator": lambda n_: ([], []),
                               "BasisHalfSpin": lambda dof, sigmaqn=None, **k: built.append((dof, sigmaqn)) or ("basis", dof), "Op": Blob("Op"), "set": lambda x=(): set()})
    itq.max_depth = 8
    itq.call_function(qm, [_Arr((2, 2)), _Arr((2, 2, 2, 2))], {"stacked": False, "conserve_qn": True})
    if [d for d, _ in built] != [0, 1] or not all(isinstance(q_, list) and len(q_) == 2 for _, q_ in built):
        raise AnalysisError(f"{qm.where}: the basis sets of a two-orbital problem were not recognised: {built}")
    sig = [[list(r) for r in q_] for _, q_ in built]    # [even orbital, odd orbital]
    made = []

    class OpTag(Sym):
        def __call__(self, symbol, dof, factor=1, qn=None):
            made.append((symbol, dof, factor, qn))
            return made[-1]
    tag = OpTag("Op")
    tag.__dict__["product"] = lambda ops: list(ops)
    it = SymInterp(src, None, {"Op": tag, "dict": dict})
    bad_sign, bad_qn, n = [], [], 0
    for L in range(1, 6):
        for w in itertools.product("Z+-", repeat=L):
            for dof in (0, 1):
                made.clear()
                elem = Sym("elem", split_symbol=list(w), dofs=[dof])
                old = Sym("old", split_elementary=lambda d2s: ([elem], 1))
                out = it.call_function(fi, [old, 2, True])
                n += 1
                lhs = sp.eye(2)
                for c_ in w:
                    lhs = lhs * mats[c_]
                rhs = sp.eye(2)
                fac = 1
                for (symbol, d_, factor, qn) in out:
                    fac = fac * factor
                    for c_ in symbol.split(" "):
                        rhs = rhs * mats[c_]
                    if d_ != dof:
                        bad_sign.append(f"{' '.join(w)} on orbital {dof}: simplified operator placed on orbital {d_}")
                    # charges: one entry per kept symbol
                    syms = symbol.split(" ")
                    if qn is None or len(qn) != len(syms):
                        bad_qn.append(f"{' '.join(w)}: {len(qn or [])} quantum numbers for {len(syms)} symbols")
                    else:
                        for c_, q_ in zip(syms, qn):
                            M = mats[c_]
                            for r_ in range(2):
                                for k_ in range(2):
                                    if M[r_, k_] != 0:
                                        diff = [sig[dof % 2][r_][x] - sig[dof % 2][k_][x] for x in range(2)]
                                        if list(q_) != diff and len(bad_qn) < 5:
                                            bad_qn.append(f"symbol {c_} on an {'odd' if dof % 2 else 'even'} orbital: declared charge {list(q_)}, its matrix element changes the site charge by {diff}")
                if sp.simplify(lhs - fac * rhs) != sp.zeros(2, 2) and len(bad_sign) < 5:
                    bad_sign.append(f"{' '.join(w)} -> {fac} * [{', '.join(o[0] for o in out) or 'identity'}]: matrices differ")
    chk.ob("jw-simplify", f"simplify_op: sign and word ({n} words up to length 5, even and odd orbital)", not bad_sign, fi.where, bad_sign[:3] or "all equal", "product(word) == sign * product(simplified word)", line=fi.node.lineno,
           detail="moving every sigma_z to the front picks up (-1) for each sigma_+/sigma_- it passes and pairs of sigma_z cancel: " + (bad_sign[0] if bad_sign else ""))
    chk.ob("jw-simplify", "simplify_op: quantum numbers of the kept symbols", not bad_qn, fi.where, bad_qn[:3] or "consistent", "charge of a symbol = charge difference of its non-zero matrix elements", line=fi.node.lineno,
           detail="the operator's quantum numbers must describe what its matrix does to the site charges declared in qc_model (alpha / beta electron counts): " + (bad_qn[0] if bad_qn else ""))
    # ladder operators: a_j = Z_0 ... Z_{j-1} sigma_+[j], a_j^dagger the same string with sigma_-
    gl = src.func(HQC, "generate_ladder_operator")
    tag2 = OpTag("Op")
    tag2.__dict__["product"] = lambda ops: [(o[0], o[1]) for o in ops]
    it2 = SymInterp(src, None, {"Op": tag2})
    a_ops, ad_ops = it2.call_function(gl, [4])
    want_a = [[("Z", l) for l in range(j)] + [("+", j)] for j in range(4)]
    want_d = [[("Z", l) for l in range(j)] + [("-", j)] for j in range(4)]
    chk.ob("jw-simplify", "generate_ladder_operator: sigma_z string on every lower orbital", a_ops == want_a and ad_ops == want_d, gl.where, {"a": a_ops[2:3], "a^dagger": ad_ops[2:3]},
           {"a": want_a[2:3], "a^dagger": want_d[2:3]}, line=gl.node.lineno, detail="Jordan-Wigner: a_j = prod_{l<j} sigma_z[l] * sigma_+[j]; a missing or extra sigma_z changes the fermionic signs of hopping terms")



def state_swap_rule(chk, src):
    """state side of an on-the-fly site swap: abstract run of MatrixProduct._update_mps on abstract tensors for every swap mode, states and density operators, with and
    without the Jordan-Wigner flag, both directions, with scripted losses / entropies so that both outcomes occur (chain_rules.update_mps_rule, group `swap`): the second
    decomposition sees the two sites exchanged with the labels of the exchanged arrangement; under the flag exactly the doubly occupied block of a copy is negated before it is
    decomposed; whichever arrangement is chosen, vectors, values, labels, kept count, stored tensors and the model all follow it; the model is rebuilt (not edited in place)."""
    from .chain_rules import update_mps_rule
    n_runs, n_swapped = update_mps_rule(chk, src, {"swap": "state-swap"})
    chk.note(f"on-the-fly swap runs in which the arrangement was exchanged: {n_swapped}")
    if n_swapped < 8:
        raise AnalysisError(f"state-swap: the exchanged arrangement was chosen in only {n_swapped} abstract runs; the rule would be vacuous")


def run(chk):
    src = chk.src
    chk.explanation = (
        "Decides structural clauses of C17: (1) in every sweep that may swap sites on the state side (_update_mps with on-the-fly swapping), the "
        "operator is swapped right after by mpo.try_swap_site(<same state>.model, <same state>.compress_config.ofs_swap_jw) or the sweep refuses "
        "OFS; (2) try_swap_site updates both site tensors, both symbolic bond lists, the model and the bond quantum numbers together; (3) the "
        "state-side fermionic sign and the operator-side Jordan-Wigner remapping are driven by the same flag, and the remapping recognises every "
        "spelling of the spin symbols that generate_ladder_operator / simplify_op emit (relative to BasisHalfSpin's alias groups); (4) in "
        "qc_model the one- and two-electron index sets both feed the term list in the flat and in the stacked layout. Not decided: the "
        "Jordan-Wigner sign algebra itself, spectrum invariance (numerical).")
    chk.assumptions = ["BasisHalfSpin.op_mat's alias lists define which spellings denote the same spin matrix"]
    chk.rule("ofs-pair", "state-side swap => operator-side swap with the same model and JW flag (or NotImplementedError)", 3)
    chk.rule("swap-co-update", "Mpo.try_swap_site updates symbolic_out_ops_list[i+1], [i+2], model, qn[i+1] and both site tensors", 6)
    chk.rule("jw-vocabulary", "table_row_swapped_jw recognises the spin-symbol spellings produced by generate_ladder_operator / simplify_op", 2)
    chk.rule("factor-dtype", "the swap routines (and the builder they call) write term factors only into arrays that take their dtype from the factors (shared with C01): a Jordan-Wigner swap "
             "of a Hamiltonian with complex coefficients keeps their imaginary parts", 2)
    from .C01 import factor_dtype_rule
    factor_dtype_rule(chk, src)
    chk.rule("jw-flag", "operator side applies the Jordan-Wigner remapping under the flag passed by try_swap_site (state side: state-swap runs)", 1)
    chk.rule("qc-term-coverage", "qc_model (abstract run on sparse symbolic integrals): one processed term per non-zero integral in both layouts", 2)
    chk.rule("out-ops-shape", "the bond operators kept for later site swaps have one structure whichever path of construct_symbolic_mpo built them (abstract run of both paths)", 1)
    out_ops_shape_rule(chk, src, "out-ops-shape")
    from . import decompose_rules as DR
    DR.one_term_rule(chk, src, "out-ops-shape")
    chk.rule("spin-orbital-integrals", "int_to_h (abstract run on symbolic integrals of two spatial orbitals): spin-diagonal one-electron part, antisymmetrised two-electron part", 1)
    int_to_h_rule(chk, src, "spin-orbital-integrals")
    chk.rule("jw-sign-parity", "Jordan-Wigner sign of an operator-side site swap over its whole (finite) input space", 2)
    JW_VERIFIED["symbols"] = jw_sign_rule(chk, src)
    chk.rule("jw-simplify", "Jordan-Wigner strings and their single-site normal ordering, exhaustively over short words", 3)
    jw_simplify_rule(chk, src)
    chk.rule("state-swap", "state side of an on-the-fly swap (abstract runs of _update_mps, every mode, both outcomes): exchanged axes, fermionic sign, labels, decomposition results, stored tensors and model change together", 24)
    state_swap_rule(chk, src)
    chk.table("update_mps_callers", {f"{k[0]}::{k[1]}": v for k, v in UPDATE_CALLERS.items()})
    # ---- ofs-pair
    from .chain_rules import single_sweep_rule
    single_sweep_rule(chk, src, rule_ofs="ofs-pair")
    from .chain_rules import tdvp_bookkeeping_rule
    tdvp_bookkeeping_rule(chk, src, rule_ofs="ofs-pair", quals=("Mps._evolve_tdvp_ps2",))
    seen = 0
    for rel in sorted(src.modules):
        for fi in src.funcs_in(rel):
            if fi.parent is not None:
                continue
            calls = [c for c in ast.walk(fi.node) if isinstance(c, ast.Call) and isinstance(c.func, ast.Attribute) and c.func.attr == "_update_mps"]
            if not calls:
                continue
            key = (rel, fi.qual)
            if key not in UPDATE_CALLERS:
                if (rel, None) in UPDATE_CALLERS:
                    continue
                raise AnalysisError(f"new caller of _update_mps: {rel}::{fi.qual}; classify it in rules/C17.py (does it swap the operator when OFS is on?)")
            if UPDATE_CALLERS[key] == "run":
                continue
            order = Q.stmts_in_order(fi.node)
            for c in calls:
                obj = unparse(c.func.value)
                base = obj.split("[")[0]
                # copies of the swept state updated with the same arguments in the same iteration share the operator swap that follows
                d = [s for s in order if isinstance(s, ast.Assign) and unparse(s.targets[0]).split("[")[0] == base and ".copy()" in unparse(s.value)]
                if d and base != "mps":
                    chk.ob("ofs-pair", f"{fi.qual}: {obj}._update_mps [copy of the swept state]", True, fi.where, "same arguments as the swept state's update; shares its operator swap", "", line=c.lineno)
                    continue
                st = [s for s in order if any(x is c for x in ast.walk(s)) and not isinstance(s, (ast.For, ast.While, ast.If, ast.With, ast.Try))]
                pos = order.index(st[0])
                follow = None
                for s in order[pos + 1: pos + 4]:
                    if isinstance(s, ast.If) and unparse(s.test).replace(" ", "") == f"{obj}.compress_config.ofsisnotNone":
                        follow = s
                        break
                seen += 1
                if follow is None:
                    chk.ob("ofs-pair", f"{fi.qual}: {obj}._update_mps", False, fi.where, "no `if <state>.compress_config.ofs is not None:` after the update", "operator swap or refusal", line=c.lineno,
                           detail=f"{fi.qual} may swap two sites of the state (on-the-fly swapping) without swapping the operator: state and Hamiltonian then refer to different site orders")
                    continue
                body = [unparse(s).replace(" ", "") for s in follow.body]
                swap = [b for b in body if ".try_swap_site(" in b]
                refuse = [b for b in body if b.startswith("raiseNotImplementedError")]
                ok = bool(refuse) or any(b.endswith(f".try_swap_site({obj}.model,{obj}.compress_config.ofs_swap_jw)") for b in swap)
                chk.ob("ofs-pair", f"{fi.qual}: {obj}._update_mps", ok, fi.where, body, f"mpo.try_swap_site({obj}.model, {obj}.compress_config.ofs_swap_jw) or raise NotImplementedError",
                       line=follow.lineno, detail=f"{fi.qual}: the operator-side swap does not use the swept state's new model and its Jordan-Wigner flag")
    # ---- try_swap_site co-update: abstract run on a symbolic 5-site operator whose new model has sites k, k+1 exchanged
    from ..syminterp import SymInterp, Sym, Blob, SymRaise
    ts = src.func(MPO, "Mpo.try_swap_site")
    n_sites = 5
    for k in (0, 2, 3):
        for jw in (True, False):
            basis = [Sym(f"basis{q}", dofs=[f"dof{q}"]) for q in range(n_sites)]
            new_basis = list(basis)
            new_basis[k], new_basis[k + 1] = basis[k + 1], basis[k]
            old_model = Sym("old model", basis=basis)
            cleared = []
            new_model = Sym("new model", basis=new_basis, mpos=Sym("mpos", clear=lambda: cleared.append(True)))
            out_ops = [f"bond{q}" for q in range(n_sites + 1)]
            qn = [f"qn{q}" for q in range(n_sites + 1)]
            calls, built = [], []

            class Op_(Sym):
                def __init__(self):
                    super().__init__("mpo")
                    self.sites = [f"site{q}" for q in range(n_sites)]

                def __setitem__(self, i, v):
                    self.sites[i] = v

                def __getitem__(self, i):
                    return self.sites[i]

                def __len__(self):
                    return n_sites
            me = Op_()
            me.__dict__.update(model=old_model, symbolic_out_ops_list=out_ops, primary_ops="primary ops", qn=qn, dtype="dtype")

            def swap_site(ops3, primary, swap_jw, algo=None, calls=calls):
                calls.append((list(ops3), primary, swap_jw))
                return "new bond k+1", "new bond k+2", "mo(k)", "mo(k+1)", "new qn k+1"
            it = SymInterp(src, None, {"swap_site": swap_site, "logger": Blob("logger"),
                                       "symbolic_mo_to_numeric_mo": lambda b, mo, dtype: built.append((b, mo, dtype)) or ("numeric", b, mo)})
            probs = []
            try:
                it.call_function(ts, [me, new_model, jw])
            except SymRaise as e:
                probs.append(f"raises {e}")
            want_ops = out_ops[:k + 1] + ["new bond k+1", "new bond k+2"] + out_ops[k + 3:]
            if not probs:
                if calls != [([f"bond{k}", f"bond{k + 1}", f"bond{k + 2}"], "primary ops", jw)]:
                    probs.append(f"swap_site called with {calls}; expected the three bond lists {k}..{k + 2}, the primary operators and the Jordan-Wigner flag {jw}")
                if me.symbolic_out_ops_list != want_ops:
                    probs.append(f"bond operator lists after the swap: {me.symbolic_out_ops_list}; expected {want_ops}")
                if me.model is not new_model:
                    probs.append("the operator keeps its old model")
                want_qn = qn[:k + 1] + ["new qn k+1"] + qn[k + 2:]
                if me.qn != want_qn:
                    probs.append(f"bond labels after the swap: {me.qn}; expected {want_qn}")
                want_sites = [f"site{q}" for q in range(n_sites)]
                want_sites[k], want_sites[k + 1] = ("numeric", new_basis[k], "mo(k)"), ("numeric", new_basis[k + 1], "mo(k+1)")
                if me.sites != want_sites:
                    probs.append(f"site tensors after the swap: {me.sites}; expected sites {k}, {k + 1} rebuilt from (new basis set of that site, its symbolic matrix)")
                if any(d != "dtype" for _, _, d in built):
                    probs.append("site tensors rebuilt with another dtype than the operator's")
            chk.ob("swap-co-update", f"try_swap_site[sites {k},{k + 1} exchanged, swap_jw={jw}]", not probs, ts.where, probs[:3] or "bond lists, labels, model and both site tensors updated together",
                   "bond lists, labels, model and both site tensors updated together", line=ts.node.lineno,
                   detail="try_swap_site: " + (probs[0] if probs else "") + " - a later swap or contraction then uses stale bookkeeping or tensors in the old basis order")
    # no exchange: nothing may change
    basis = [Sym(f"basis{q}", dofs=[f"dof{q}"]) for q in range(3)]
    me0 = Sym("mpo", model=Sym("m", basis=basis), symbolic_out_ops_list=["b0", "b1", "b2", "b3"], primary_ops="p", qn=["q0", "q1", "q2", "q3"], dtype="dtype")
    it = SymInterp(src, None, {"swap_site": lambda *a, **k: (_ for _ in ()).throw(AnalysisError("swap_site called although the models agree")), "logger": Blob("logger"), "symbolic_mo_to_numeric_mo": lambda *a: None})
    it.call_function(ts, [me0, Sym("same order", basis=list(basis), mpos=Sym("mpos", clear=lambda: None)), False])
    chk.ob("swap-co-update", "try_swap_site[same site order]: nothing changes", me0.symbolic_out_ops_list == ["b0", "b1", "b2", "b3"] and me0.qn == ["q0", "q1", "q2", "q3"], ts.where,
           {"bond lists": me0.symbolic_out_ops_list, "labels": me0.qn}, "unchanged", line=ts.node.lineno)
    # ---- JW vocabulary: the spellings the ab-initio model emits (abstract run of generate_ladder_operator) are among those the exhaustive swap run has verified
    from ..syminterp import SymInterp, Sym
    emitted = set()

    class _OpE(Sym):
        def __init__(self, symbol, dofs=None, *a, **k):
            super().__init__(symbol)
            emitted.update(symbol.split(" "))
    glo = src.func(HQC, "generate_ladder_operator")
    ocl = type("OpNS", (Sym,), {"__call__": lambda self, *a, **k: _OpE(*a, **k)})("Op")
    ocl.__dict__["product"] = lambda ops: Sym("product")
    SymInterp(src, None, {"Op": ocl}).call_function(glo, [3])
    chk.table("jw_symbols_emitted_by_the_model", sorted(emitted))
    verified = JW_VERIFIED.get("symbols", set())
    for role, members in (("ladder operators", [x for x in sorted(emitted) if x not in ("Z", "z", "sigma_z", "I")]), ("string operator sigma_z", [x for x in sorted(emitted) if x in ("Z", "z", "sigma_z")])):
        missing = [x for x in members if x not in verified]
        chk.ob("jw-vocabulary", f"{role}: spellings emitted by the ab-initio model are handled by the operator swap", bool(members) and not missing, glo.where,
               {"emitted": members, "verified by the swap run": sorted(verified)}, "emitted subset of verified", line=glo.node.lineno,
               detail=f"qc_model writes {members} but table_row_swapped_jw does not treat {missing} as Jordan-Wigner symbols: with ofs_swap_jw=True the operator gets a plain swap while the "
                      f"state gets the fermionic sign, so operator and state no longer correspond")
    # ---- flag agreement (the state side - sign of the doubly occupied block exactly under compress_config.ofs_swap_jw - is decided by the state-swap runs)
    ss = src.func(SYM, "swap_site")
    jw = [n for n in ast.walk(ss.node) if isinstance(n, ast.If) and unparse(n.test) in ("swap_jw", "not swap_jw")]
    remap = any("table_and_factor_swapped_jw" in unparse(n) for n in jw if unparse(n.test) == "swap_jw")
    chk.ob("jw-flag", "operator side: JW remapping of the two-site table under the flag passed by try_swap_site", remap, ss.where, [unparse(n.test) for n in jw], "if swap_jw: table_and_factor_swapped_jw(...)", line=ss.node.lineno)
    # ---- qc_model term coverage: abstract run on sparse symbolic integrals (orbital 2 occurs only in the one-electron, orbital 3 only in the two-electron integrals)
    qc_terms_rule(chk, src)


META = {
    "category": "other",
    "engine": "PAIR + OPS",
    "technique": "abstract interpretation: _update_mps with on-the-fly swapping on abstract tensors (views share storage), try_swap_site / single_sweep / tdvp_ps2 with recorders and versions, qc_model and int_to_h on symbolic integrals, exhaustive Jordan-Wigner sign identity over all two-symbol words in exact 2x2 algebra",
    "text": "Clause-only: decides that state-side and operator-side swaps are paired and parameterised alike, that the operator swap updates all "
            "dependent fields, that the JW remapping understands the ab-initio model's symbols, and that both integral tensors feed both "
            "term layouts. The Jordan-Wigner sign algebra and spectrum invariance are not decided."
            " The Jordan-Wigner sign exponent is evaluated over its whole finite input space; simplify_op's normal ordering is compared with exact 2x2 matrix products for every word up to length 5; the state side of a swap applies sign, labels, decomposition results and a fresh model together, the sign before the decomposition."
            " The one-term short cut of the operator builder hands out bond operators that expand to coefficient x term (what swap_site later rebuilds the operator from).",
    "note": "Callers of _update_mps are a closed table; a new caller stops the analysis until classified.",
    "design_ref": "DESIGN.md 3.7, 4 (C17); as built: 9.1, 9.3, 9.8",
}
