"""C19 - integrator coefficient tables have their advertised order (decided in full, exact in Q)."""
import ast
from fractions import Fraction as F
from functools import lru_cache
from itertools import product

from ..src import AnalysisError, unparse
from ..fold import fold, NotConstant, partial_eval_dispatch, shape

RK = "renormalizer/utils/rk.py"


# ----------------------------------------------------------------- rooted trees (Butcher)
@lru_cache(None)
def trees(n):
    """All rooted trees with n vertices, as canonical nested tuples."""
    if n == 1:
        return ((),)
    res = set()

    def parts(rem, mx):
        if rem == 0:
            yield []
            return
        for k in range(min(rem, mx), 0, -1):
            for p in parts(rem - k, k):
                yield [k] + p

    for p in parts(n - 1, n - 1):
        for combo in product(*[trees(k) for k in p]):
            res.add(tuple(sorted(combo)))
    return tuple(sorted(res))


def t_order(t):
    return 1 + sum(t_order(c) for c in t)


def t_gamma(t):
    g = t_order(t)
    for c in t:
        g *= t_gamma(c)
    return g


def phi_vec(t, a, s):
    v = [F(1)] * s
    for c in t:
        pc = phi_vec(c, a, s)
        ac = [sum(a[i][j] * pc[j] for j in range(s)) for i in range(s)]
        v = [v[i] * ac[i] for i in range(s)]
    return v


def t_str(t):
    return "[" + "".join(t_str(c) for c in t) + "]"


from ..syminterp import Sym as _Sym


class _Cell:
    """one element of an exact array: slices and reshapes of an array are views that hold the same cells, copies hold new ones"""
    __slots__ = ("v",)

    def __init__(self, v):
        self.v = v


class XArr(_Sym):
    """exact (Fraction) 1-d / 2-d array with the numpy operations runge_kutta_ti_coefficient uses: basic indexing and slicing (get / set with broadcasting; a slice is a
    view: writing through it changes the array it was taken from), dot, ndim, shape"""
    def __init__(self, data, _cells=False):
        super().__init__("array")
        if _cells:
            self._c = data
        else:
            self._c = [[_Cell(x) for x in r] for r in data] if data and isinstance(data[0], list) else [_Cell(x) for x in data]

    @property
    def d(self):
        """plain values (a snapshot)"""
        return [[c.v for c in r] for r in self._c] if self.ndim == 2 else [c.v for c in self._c]

    @property
    def ndim(self):
        return 2 if self._c and isinstance(self._c[0], list) else 1

    @property
    def shape(self):
        return (len(self._c), len(self._c[0])) if self.ndim == 2 else (len(self._c),)

    @staticmethod
    def _idx(k, n):
        if isinstance(k, slice):
            k = slice(*[None if x is None else int(x) for x in (k.start, k.stop, k.step)])
            return list(range(n))[k]
        return [int(k) % n if -n <= int(k) < n else int(k)]

    def _norm(self, k):
        """`...` stands for as many full slices as the array has axes left"""
        if k is Ellipsis:
            k = (Ellipsis,)
        if isinstance(k, tuple) and any(x is Ellipsis for x in k):
            i = [j for j, x in enumerate(k) if x is Ellipsis]
            if len(i) > 1:
                raise IndexError("an index can only have a single ellipsis ('...')")
            fill = self.ndim - (len(k) - 1)
            if fill < 0:
                raise IndexError("too many indices for array")
            k = k[:i[0]] + (slice(None),) * fill + k[i[0] + 1:]
        if isinstance(k, tuple) and self.ndim == 1:
            if len(k) != 1:
                raise IndexError("too many indices for array")
            k = k[0]
        return k

    def __getitem__(self, k):
        k = self._norm(k)
        if self.ndim == 1:
            if isinstance(k, slice):
                return XArr([self._c[i] for i in self._idx(k, len(self._c))], _cells=True)
            return self._c[int(k)].v
        if not isinstance(k, tuple):
            k = (k, slice(None))
        r, c = self._idx(k[0], len(self._c)), self._idx(k[1], len(self._c[0]))
        sub = [[self._c[i][j] for j in c] for i in r]
        if not isinstance(k[0], slice) and not isinstance(k[1], slice):
            return sub[0][0].v
        if not isinstance(k[0], slice):
            return XArr(sub[0], _cells=True)
        if not isinstance(k[1], slice):
            return XArr([x[0] for x in sub], _cells=True)
        return XArr(sub, _cells=True)

    def __setitem__(self, k, v):
        k = self._norm(k)
        if self.ndim == 1:
            idx = self._idx(k, len(self._c))
            vals = v.d if isinstance(v, XArr) else [v] * len(idx)
            if len(vals) != len(idx):
                raise ValueError(f"could not broadcast input array from shape ({len(vals)},) into shape ({len(idx)},)")
            for i, x in zip(idx, vals):
                self._c[i].v = F(x)
            return
        if not isinstance(k, tuple):
            k = (k, slice(None))
        r, c = self._idx(k[0], len(self._c)), self._idx(k[1], len(self._c[0]))
        if isinstance(v, XArr) and v.ndim == 2:
            if v.shape != (len(r), len(c)):
                raise ValueError(f"could not broadcast input array from shape {v.shape} into shape {(len(r), len(c))}")
            vd = v.d
            for a_, i in enumerate(r):
                for b_, j in enumerate(c):
                    self._c[i][j].v = F(vd[a_][b_])
        elif isinstance(v, XArr):
            vd = v.d
            if len(vd) != (len(c) if len(r) == 1 else len(r) if len(c) == 1 else (len(c) if isinstance(k[0], slice) and isinstance(k[1], slice) else -1)):
                raise ValueError(f"could not broadcast input array from shape ({len(vd)},) into shape {(len(r), len(c))}")
            if len(r) == 1:
                for a_, x in enumerate(vd):
                    self._c[r[0]][c[a_]].v = F(x)
            elif len(c) == 1:
                for a_, x in enumerate(vd):
                    self._c[r[a_]][c[0]].v = F(x)
            else:
                for i in r:                       # a row vector broadcast over the rows of a block
                    for a_, x in enumerate(vd):
                        self._c[i][c[a_]].v = F(x)
        else:
            for i in r:
                for j in c:
                    self._c[i][j].v = F(v)

    def astype(self, *a, **k):
        return self

    @property
    def T(self):
        return XArr([list(col) for col in zip(*self.d)]) if self.ndim == 2 else self

    def transpose(self, *a):
        return self.T

    def copy(self):
        return XArr(self.d)

    def reshape(self, *shape):
        shape = list(shape[0]) if len(shape) == 1 and isinstance(shape[0], (list, tuple)) else list(shape)
        flat = [x for r in self._c for x in r] if self.ndim == 2 else list(self._c)
        if len(shape) == 1:
            n_ = len(flat) if shape[0] == -1 else int(shape[0])
            if n_ != len(flat):
                raise ValueError(f"cannot reshape array of size {len(flat)} into shape {tuple(shape)}")
            return XArr(flat, _cells=True)
        if len(shape) != 2:
            raise ValueError("reshape to more than two dimensions is not modelled")
        r_, c_ = shape
        if r_ == -1:
            if int(c_) == 0 or len(flat) % int(c_):
                raise ValueError(f"cannot reshape array of size {len(flat)} into shape {tuple(shape)}")
            r_ = len(flat) // int(c_)
        if c_ == -1:
            c_ = len(flat) // int(r_)
        if int(r_) * int(c_) != len(flat):
            raise ValueError(f"cannot reshape array of size {len(flat)} into shape {tuple(shape)}")
        return XArr([flat[i * int(c_):(i + 1) * int(c_)] for i in range(int(r_))], _cells=True)

    def tolist(self):
        return self.d

    def dot(self, o):
        sd, od = self.d, o.d
        if self.ndim == 1 and o.ndim == 2:
            if len(sd) != o.shape[0]:
                raise ValueError(f"shapes ({len(sd)},) and {o.shape} not aligned")
            return XArr([sum(sd[i] * od[i][j] for i in range(len(sd))) for j in range(o.shape[1])])
        if self.ndim == 2 and o.ndim == 2:
            if self.shape[1] != o.shape[0]:
                raise ValueError(f"shapes {self.shape} and {o.shape} not aligned")
            return XArr([[sum(sd[i][q] * od[q][j] for q in range(o.shape[0])) for j in range(o.shape[1])] for i in range(self.shape[0])])
        if self.ndim == 1 and o.ndim == 1:
            return sum(x * y for x, y in zip(sd, od))
        raise ValueError("dot of these ranks is not modelled")


def _xarray(x, dtype=None, **k):
    """np.array of a nested literal of exact numbers"""
    if isinstance(x, XArr):
        return x.copy()
    if isinstance(x, (list, tuple)) and x and isinstance(x[0], (list, tuple)):
        if len({len(r) for r in x}) != 1:
            raise ValueError("setting an array element with a sequence. The requested array has an inhomogeneous shape")
        return XArr([[F(v) for v in r] for r in x])
    if isinstance(x, (list, tuple)):
        return XArr([F(v) for v in x])
    raise ValueError(f"np.array({x!r}) is not modelled")


def _rows(x):
    a = x if isinstance(x, XArr) else _xarray(x)
    return a.d if a.ndim == 2 else [a.d]


def _xstack(seq, axis=0, **k):
    """np.stack of vectors along a new first (0) or last (-1 / 1) axis"""
    parts = [(p_ if isinstance(p_, XArr) else _xarray(p_)) for p_ in seq]
    if any(p_.ndim != 1 for p_ in parts) or len({p_.shape for p_ in parts}) != 1:
        raise ValueError("np.stack: all input arrays must be vectors of one length (other ranks are not modelled)")
    rows = [p_.d for p_ in parts]
    if axis == 0:
        return XArr(rows)
    if axis in (-1, 1):
        return XArr([list(col) for col in zip(*rows)])
    raise ValueError(f"np.stack(axis={axis}) is not modelled")


def _xvstack(seq, **k):
    return XArr([r for p_ in seq for r in _rows(p_)])


def _xconcatenate(seq, axis=0, **k):
    parts = [(p_ if isinstance(p_, XArr) else _xarray(p_)) for p_ in seq]
    if all(p_.ndim == 1 for p_ in parts) and axis in (0, -1):
        return XArr([v for p_ in parts for v in p_.d])
    if all(p_.ndim == 2 for p_ in parts) and axis == 0:
        return XArr([r for p_ in parts for r in p_.d])
    if all(p_.ndim == 2 for p_ in parts) and axis in (1, -1):
        return XArr([sum((p_.d[i] for p_ in parts), []) for i in range(parts[0].shape[0])])
    raise ValueError("np.concatenate of these shapes is not modelled")


def _xtranspose(x, *a, **k):
    a_ = x if isinstance(x, XArr) else _xarray(x)
    return XArr([list(col) for col in zip(*a_.d)]) if a_.ndim == 2 else a_


_NP_EXTRA = dict(stack=_xstack, vstack=_xvstack, row_stack=_xvstack, concatenate=_xconcatenate, transpose=_xtranspose,
                 hstack=lambda seq, **k: _xconcatenate(seq, axis=(0 if all((p_ if isinstance(p_, XArr) else _xarray(p_)).ndim == 1 for p_ in seq) else 1)),
                 column_stack=lambda seq, **k: _xstack(seq, axis=-1))


def tableau_by_run(src, gt, method):
    """exact abstract run of RungeKutta.get_tableau for one method name: decimal and fractional literals are the rationals they spell, arrays are exact; returns
    {'a': rows, 'b': rows, 'c': entries, 'Nstage': n, 'order': tuple} or {'__assert_false__': True} when the dispatch rejects the name"""
    from ..syminterp import SymInterp, Sym, SymRaise
    it = SymInterp(src, None, {"np": Sym("np", array=_xarray, asarray=_xarray, zeros=_xzeros, float64="float64", float32="float32", **_NP_EXTRA)})
    it.exact = True
    it.check_asserts = True
    it.max_depth = 8
    me = Sym("rk", method=method)
    me._cls = "RungeKutta"
    from .chain_rules import class_resolver
    it.resolver = class_resolver(src, {"RungeKutta": RK})
    try:
        res = it.call_function(gt, [me])
    except SymRaise as e:
        return {"__assert_false__": True, "why": str(e)}
    if not (isinstance(res, tuple) and len(res) == 3 and isinstance(res[0], (list, tuple)) and len(res[0]) == 3):
        raise AnalysisError(f"{gt.where}: return value is not ([a, b, c], Nstage, order)")
    a, b, c = res[0]
    if not all(isinstance(x, XArr) for x in (a, b, c)):
        raise AnalysisError(f"{gt.where}[{method}]: tableau entries are not arrays: {a!r}, {b!r}, {c!r}")
    order = res[2]
    return {"a": a.tolist() if a.ndim == 2 else [a.tolist()], "b": b.tolist() if b.ndim == 2 else [b.tolist()], "c": c.tolist(), "Nstage": F(res[1]),
            "order": tuple(F(x) for x in order) if isinstance(order, (tuple, list)) else F(order)}


def tableaux_of_method_list(src):
    """{method: (a, b, c, stages, orders)} by exact abstract runs of get_tableau for every name of method_list; names whose dispatch fails are left to C19's own rules"""
    mod = src.modules[RK]
    names = None
    for n in mod.body:
        if isinstance(n, ast.Assign) and len(n.targets) == 1 and unparse(n.targets[0]) == "method_list":
            try:
                names = fold(n.value, {})
            except NotConstant:
                raise AnalysisError("method_list is not a literal list")
    if not names:
        raise AnalysisError("method_list literal not found in utils/rk.py")
    gt = src.func(RK, "RungeKutta.get_tableau")
    out = {}
    for m in names:
        try:
            e = tableau_by_run(src, gt, m)
        except ValueError:
            continue
        if e.get("__assert_false__"):
            continue
        order = e["order"] if isinstance(e["order"], tuple) else (e["order"],)
        out[m] = (e["a"], e["b"], e["c"], int(e["Nstage"]), [int(x) for x in order])
    return out


def _xzeros(shape, dtype=None):
    if isinstance(shape, (list, tuple)):
        return XArr([[F(0)] * int(shape[1]) for _ in range(int(shape[0]))]) if len(shape) == 2 else XArr([F(0)] * int(shape[0]))
    return XArr([F(0)] * int(shape))


def ti_expansion_rule(chk, src, tableaux):
    """exact abstract run of RungeKutta.runge_kutta_ti_coefficient on every tableau: coefficient k of weight row r equals 1/k! for every k up to the order advertised for that row"""
    from ..syminterp import SymInterp, Sym
    from math import factorial
    fi = src.func(RK, "RungeKutta.runge_kutta_ti_coefficient")
    for m, (a, b, c, s, order) in tableaux.items():
        from .chain_rules import class_resolver
        it = SymInterp(src, class_resolver(src, {"RungeKutta": RK}), {"np": Sym("np", zeros=_xzeros, array=_xarray)})
        me = Sym("rk", tableau=[XArr([list(r) for r in a]), XArr([list(r) for r in b]), XArr(list(c))], stage=s, order=tuple(order), method=m)
        me._cls = "RungeKutta"
        problems = []
        try:
            res = it.call_function(fi, [me])
        except (ValueError, IndexError) as e:
            res, problems = None, [f"{type(e).__name__}: {e}"]
        if res is not None:
            rows = res.d if isinstance(res, XArr) and res.ndim == 2 else [res.d] if isinstance(res, XArr) else None
            if rows is None or len(rows) != len(order):
                problems.append(f"result has {len(rows) if rows is not None else '?'} rows for {len(order)} weight rows")
            else:
                for r, p in enumerate(order):
                    for k in range(0, p + 1):
                        got = rows[r][k] if k < len(rows[r]) else None
                        if got != F(1, factorial(k)):
                            problems.append(f"row {r} (order {p}): coefficient of f^{k} is {got}, 1/{k}! = {F(1, factorial(k))}")
        chk.ob("ti-expansion", m, not problems, fi.where, problems[:3] or "1/k! up to the advertised order of every row", "1/k! up to the advertised order of every row", line=fi.node.lineno,
               detail=f"constant-coefficient expansion derived for {m!r}: " + (problems[0] if problems else ""))


def run(chk):
    src = chk.src
    chk.level = "proof"
    chk.explanation = (
        "Every literal Butcher tableau of renormalizer/utils/rk.py is constant-folded to exact rationals "
        "(decimal-literal semantics) by partial evaluation of RungeKutta.get_tableau per method name, and "
        "all rooted-tree order conditions up to the advertised order of each weight row, the row-sum "
        "condition c_i = sum_j a_ij, strict lower triangularity, shapes, the tall-tree identities "
        "b.A^(k-1).1 = 1/k! and the Taylor coefficients 1/k! are discharged as exact equalities. "
        "Not decided: float rounding of the literals (<= 1 ulp) and the numerical recursion in "
        "runge_kutta_ti_coefficient (exercised by test_rk).")
    chk.assumptions = [
        "decimal literals denote the rational they spell (0.5 = 1/2); IEEE rounding of the stored doubles is not modelled",
        "rooted-tree generator is correct (counts 1,1,2,4,9,20 are re-checked on every run)",
        "numpy semantics of np.array / astype / reshape(-1, n) on literal nested lists",
    ]
    chk.extra["trusted_base"] = ["renostat.fold (constant folder)", "rooted-tree generator and gamma/Phi recursion in rules/C19.py",
                                 "python fractions.Fraction arithmetic", "ast parser of CPython 3.12"]
    chk.extra["checker_cmd"] = "/venv/bin/python -m renostat check C19"

    chk.rule("tree-generator", "number of rooted trees of order 1..6 is 1,1,2,4,9,20 (self-check of the oracle)", 6)
    chk.rule("dispatch-total", "every name of method_list reaches a tableau assignment in get_tableau; none reaches `assert False`", 10)
    chk.rule("shape", "a is s x s, every weight row has s entries, c has s entries, s == Nstage, len(order) == number of weight rows", 10)
    chk.rule("row-sum", "c_i == sum_j a_ij for every stage (exact)", 10)
    chk.rule("explicit", "a is strictly lower triangular (the evolvers read a[i, j] only for j < i)", 10)
    chk.rule("order-condition", "sum_i b_i Phi_i(t) == 1/gamma(t) for every rooted tree t of order <= advertised order of the row (exact)", 94)
    chk.rule("ti-coefficient", "tall-tree subset: b.A^(k-1).1 == 1/k! for k <= advertised order (the constant-coefficient expansion)", 30)
    chk.rule("taylor", "TaylorExpansion.coeff[k] folds to 1/k! for k = 0..order and the range is order+1", 2)
    chk.rule("tableau-layout", "get_tableau returns ([a, b, c], Nstage, order) and every consumer unpacks the tableau as (a, b, c)", 3)
    chk.rule("method-list", "RungeKutta.__init__ restricts the method to method_list", 1)

    expected_counts = [1, 1, 2, 4, 9, 20]
    for n, e in enumerate(expected_counts, start=1):
        chk.ob("tree-generator", f"order{n}", len(trees(n)) == e, "renostat/rules/C19.py", len(trees(n)), e)

    mod = src.module(RK)
    method_list = None
    for n in mod.body:
        if isinstance(n, ast.Assign) and len(n.targets) == 1 and unparse(n.targets[0]) == "method_list":
            try:
                method_list = fold(n.value, {})
            except NotConstant:
                raise AnalysisError("method_list is not a literal list")
    if not method_list or not all(isinstance(m, str) for m in method_list):
        raise AnalysisError("method_list literal not found in utils/rk.py")
    chk.table("method_list", method_list)

    init = src.func(RK, "RungeKutta.__init__")
    ok = any(isinstance(s, ast.Assert) and unparse(s.test).replace(" ", "") == "methodinmethod_list" for s in ast.walk(init.node))
    chk.ob("method-list", "RungeKutta.__init__", ok, init.where, "assert present" if ok else "no assert", "assert method in method_list",
           line=init.node.lineno)

    gt = src.func(RK, "RungeKutta.get_tableau")
    nconds = 0
    sharp = {}
    tableaux = {}
    NA, NB, NC, NS, NO = "a", "b", "c", "Nstage", "order"
    ROLES = (NA, NB, NC, NS, NO)
    for m in method_list:
        try:
            env = tableau_by_run(src, gt, m)
        except ValueError as e:
            chk.ob("shape", m, False, gt.where, f"ValueError: {e}", "rectangular", line=gt.node.lineno, detail=f"get_tableau raises for method {m!r}: {e}")
            continue
        where = gt.where
        if env.get("__assert_false__"):
            chk.ob("dispatch-total", m, False, where, "assert False / raise reached", "tableau assignment",
                   detail=f"method {m!r} is in method_list but get_tableau has no branch for it", line=gt.node.lineno)
            continue
        missing = [k for k in ROLES if k not in env]
        unk = [k for k in ROLES if isinstance(env.get(k), tuple) and env[k] and env[k][0] == "UNK"]
        if missing or unk:
            raise AnalysisError(f"get_tableau[{m}]: cannot fold {missing + unk}: "
                                f"{[env.get(k) for k in unk]}")
        chk.ob("dispatch-total", m, True, where, "branch assigns a, b, c, Nstage, order", "")
        a, b, c, s, order = env[NA], env[NB], env[NC], env[NS], env[NO]
        try:
            sa, sb, sc = shape(a), shape(b), shape(c)
        except NotConstant as e:
            chk.ob("shape", m, False, where, f"ragged literal: {e}", "rectangular")
            continue
        order = list(order) if isinstance(order, (tuple, list)) else [order]
        shape_ok = (isinstance(s, F) and s.denominator == 1 and sa == (int(s), int(s)) and len(sb) == 2 and sb[1] == int(s)
                    and sc == (int(s),) and len(order) == sb[0]
                    and all(isinstance(p, F) and p.denominator == 1 and p >= 1 for p in order))
        chk.ob("shape", m, shape_ok, where, {"a": sa, "b": sb, "c": sc, "Nstage": str(s), "order": [str(p) for p in order]},
               "a: s x s, b: r x s, c: s, len(order) = r", line=gt.node.lineno)
        if not shape_ok:
            continue
        s = int(s)
        order = [int(p) for p in order]
        tableaux[m] = (a, b, c, s, order)
        bad_rows = [i for i in range(s) if sum(a[i]) != c[i]]
        chk.ob("row-sum", m, not bad_rows, where,
               {f"stage{i}": [str(sum(a[i])), str(c[i])] for i in bad_rows} or "all equal", "c_i = sum_j a_ij",
               detail=f"node(s) c[{bad_rows}] differ from the row sums of a" if bad_rows else "")
        upper = [(i, j) for i in range(s) for j in range(i, s) if a[i][j] != 0]
        chk.ob("explicit", m, not upper, where, upper or "strictly lower triangular", "a[i][j] == 0 for j >= i")
        for irow, (row, p) in enumerate(zip(b, order)):
            if p > 6:
                raise AnalysisError(f"advertised order {p} beyond the generator's checked range")
            for k in range(1, p + 1):
                for t in trees(k):
                    lhs = sum(row[i] * phi_vec(t, a, s)[i] for i in range(s))
                    rhs = F(1, t_gamma(t))
                    nconds += 1
                    chk.ob("order-condition", f"{m}/row{irow}/order{k}/{t_str(t)}", lhs == rhs, where, str(lhs), str(rhs),
                           detail=f"tableau {m!r}, weight row {irow} (advertised order {p}): Butcher condition of tree {t_str(t)} "
                                  f"(order {k}) fails" if lhs != rhs else "", line=gt.node.lineno)
            # tall trees = coefficient of f^k y dt^k
            vec = [F(1)] * s
            for k in range(1, p + 1):
                lhs = sum(row[i] * vec[i] for i in range(s))
                from math import factorial
                rhs = F(1, factorial(k))
                chk.ob("ti-coefficient", f"{m}/row{irow}/k{k}", lhs == rhs, where, str(lhs), str(rhs),
                       detail="constant-coefficient expansion differs from Taylor 1/k!" if lhs != rhs else "")
                vec = [sum(a[i][j] * vec[j] for j in range(s)) for i in range(s)]
            if p < 6:
                fails = [t_str(t) for t in trees(p + 1)
                         if sum(row[i] * phi_vec(t, a, s)[i] for i in range(s)) != F(1, t_gamma(t))]
                sharp[f"{m}/row{irow}"] = f"order {p}; {len(fails)}/{len(trees(p + 1))} conditions of order {p + 1} fail"
    chk.rule("ti-expansion", "runge_kutta_ti_coefficient (exact abstract run on every tableau): coefficient k of every weight row is 1/k! up to that row's advertised order", 10)
    ti_expansion_rule(chk, src, tableaux)
    chk.extra["sharpness_info"] = sharp
    chk.extra["tree_conditions"] = nconds

    # ------------------------------------------------ Taylor coefficients
    te = src.func(RK, "TaylorExpansion.__init__")
    coeff = None
    for n in ast.walk(te.node):
        if isinstance(n, ast.Assign) and unparse(n.targets[0]) == "self.coeff":
            coeff = n.value
    if coeff is None:
        raise AnalysisError("TaylorExpansion.__init__: assignment to self.coeff not found")
    # evaluated with numpy's array semantics (int64 arithmetic wraps, true division gives floats) for order = 24
    from ..fold import npfold, NArr
    from math import factorial
    ORDER = 24
    try:
        arr = npfold(coeff, {"self.order": ("int", ORDER), "order": ("int", ORDER)})
        vals = arr.vals if isinstance(arr, NArr) else None
    except NotConstant:
        # not one array expression (e.g. a list filled by a loop): exact abstract run of the constructor; numpy integer arrays (whose products wrap) are not modelled there
        from ..syminterp import SymInterp, Sym
        from math import factorial as _fact

        def _no(*a, **k):
            raise AnalysisError("TaylorExpansion.__init__ builds its coefficients with numpy integer arithmetic outside the folded fragment")
        it_ = SymInterp(src, None, {"np": Sym("np", array=lambda x, **k: list(x), asarray=lambda x, **k: list(x), cumprod=_no, arange=_no, prod=_no),
                                    "factorial": lambda i: F(_fact(int(i))), "scipy": Sym("scipy", special=Sym("special", factorial=lambda i: F(_fact(int(i))))),
                                    "math": Sym("math", factorial=lambda i: F(_fact(int(i))))})
        it_.exact = True
        me_ = Sym("taylor")
        it_.call_function(te, [me_, ORDER])
        vals = list(me_.__dict__.get("coeff", [])) if isinstance(me_.__dict__.get("coeff"), (list, tuple)) else None
        arr = vals
    chk.ob("taylor", "range", vals is not None and len(vals) == ORDER + 1, te.where, len(vals) if vals is not None else repr(arr), f"{ORDER + 1} coefficients for order {ORDER}", line=coeff.lineno,
           detail="the expansion of order n needs the coefficients of H^0 .. H^n")
    bad = [(k, str(v)) for k, v in enumerate(vals or []) if F(v) != F(1, factorial(k))]
    chk.ob("taylor", "coefficients", vals is not None and not bad, te.where, bad[:4] or f"1/k! for k=0..{ORDER}", "1/k!", line=coeff.lineno,
           detail="Taylor propagator coefficient differs from 1/k! (evaluated with numpy's fixed-width integer semantics: a product of int64 values wraps around silently from 21! on)" if bad else "")

    # ------------------------------------------------ layout producer / consumers
    ret = [n for n in ast.walk(gt.node) if isinstance(n, ast.Return)]
    rtxt = [unparse(r.value).replace(" ", "") for r in ret]
    chk.ob("tableau-layout", "get_tableau.return", len(set(ROLES)) == 5, gt.where, rtxt, "([a, b, c], Nstage, order) with five distinct values")
    n_cons = 0
    for (rel, qual), fi in src.funcs.items():
        for n in ast.walk(fi.node):
            if isinstance(n, ast.Assign) and isinstance(n.value, ast.Attribute) and n.value.attr == "tableau" \
                    and isinstance(n.targets[0], ast.Tuple):
                if fi.parent is not None and any(n in list(ast.walk(ch.node)) for ch in src.funcs.values() if ch.parent is fi):
                    continue
                n_cons += 1
                t = unparse(n.targets[0]).replace(" ", "")
                names = [x.id for x in n.targets[0].elts if isinstance(x, ast.Name)]
                chk.ob("tableau-layout", f"{qual}:{unparse(n.value)}", len(names) == 3 and len(set(names)) == 3, fi.where, t, "three names (matrix, weights, nodes)", line=n.lineno)
    inits = [n for n in ast.walk(init.node) if isinstance(n, ast.Assign) and "get_tableau" in unparse(n.value)]
    itxt = [unparse(n.targets[0]).replace(" ", "") for n in inits]
    chk.ob("tableau-layout", "RungeKutta.__init__", itxt == ["(self.tableau,self.stage,self.order)"] or itxt == ["self.tableau,self.stage,self.order"],
           init.where, itxt, "self.tableau, self.stage, self.order = self.get_tableau()")


META = {
    "category": "proof",
    "engine": "FOLD",
    "technique": "exact abstract interpretation of get_tableau / runge_kutta_ti_coefficient / TaylorExpansion on rational arrays with view semantics + exhaustive discharge of rooted-tree order conditions",
    "text": "All ten literal tableaux are partially evaluated from the source of RungeKutta.get_tableau (no code of /repo is run), folded to "
            "exact rationals, and every Butcher order condition up to the advertised order of every weight row (94 conditions), row sums, "
            "strict lower triangularity, shapes, tall-tree 1/k! identities and the Taylor table are discharged as exact equalities. The "
            "obligation set is finite and enumerated completely, hence proof-level for the property as stated.",
    "note": "Trusted: the constant folder (decimal-literal semantics, np.array/astype/reshape on literal lists), the rooted-tree generator "
            "(counts re-checked), Fraction arithmetic. Not covered: float rounding of literals; the numeric recursion in "
            "runge_kutta_ti_coefficient (its input/outputs are what test_rk pins).",
    "design_ref": "DESIGN.md 3.10, 4 (C19); as built: 9.1, 9.3, 9.8",
}
