"""Abstract runs of the chain (MPS / MPO) sweep code on symbolic chains: the chain analogue of tree_rules.py.

The functions under analysis are run from their source by the symbolic interpreter on a symbolic chain object whose methods are resolved in the class
hierarchy of the source (helpers extracted by a refactoring are followed), with stand-ins only at stable interfaces: the blocked decomposition
(svd_qn.svd_qn), the block labels (_get_big_qn), the site update (_update_ms, where the rule is not about it) and numerics that the rule does not look at."""
import ast

from ..src import AnalysisError, unparse
from ..syminterp import SymInterp, Sym, Blob, OpenSym, SymRaise
from ..syminterp import Q as ExactQ
from .. import qn as Q

MP, MPS, CONFIGS = Q.MP, Q.MPS, Q.CONFIGS


def class_resolver(src, table):
    """resolver for SymInterp: a symbolic object with `_cls = <class name>` gets the methods of that class (MRO order) from the source unless the object carries a stand-in
    of that name; table = {class name: module}"""
    mros = {}
    for cname, rel in table.items():
        ci = src.cls(rel, cname)
        mros[cname] = src.mro(ci)

    def resolve(recv, name):
        c = getattr(recv, "_cls", None)
        if c in mros and name not in getattr(recv, "__dict__", {}) and not callable(getattr(type(recv), name, None)):
            for ci in mros[c]:
                if name in ci.methods:
                    return ci.methods[name]
        return None
    return resolve


class Tag(Sym):
    """opaque symbolic value with a few array-like derived values"""
    def __init__(self, name, length=None):
        super().__init__(name)
        self._len = length

    def __len__(self):
        if self._len is None:
            raise AnalysisError(f"len({self._name})")
        return self._len

    @property
    def T(self):
        return Tag(self._name[:-2], self._len) if self._name.endswith(".T") else Tag(self._name + ".T", self._len)

    @property
    def array(self):
        return self

    def conj(self):
        return Tag(self._name + ".conj()", self._len)

    def any(self):
        return True

    def __eq__(self, o):
        return isinstance(o, Tag) and o._name == self._name

    def __hash__(self):
        return hash(self._name)


class Chain(Sym):
    def __init__(self, n, to_right, cls="Mps", is_mpo=False, **attrs):
        super().__init__("chain")
        self._cls = cls
        self.site_num, self.to_right, self.qnidx = n, to_right, (0 if to_right else n - 1)
        self.is_mpo, self.is_mps, self.is_mpdm = is_mpo, not is_mpo, False
        self.is_left_canonical, self.is_right_canonical = (not to_right), to_right
        self.sites = [Tag(f"site{k}") for k in range(n)]
        self.qn = [Tag(f"qn{k}") for k in range(n + 1)]
        self.qntot, self.total_bytes, self.dtype = Tag("qntot"), 1, Blob("dtype")
        self.is_complex = False
        self.writes = []
        self.__dict__.update(attrs)

    def __len__(self):
        return self.site_num

    def __getitem__(self, k):
        return self.sites[k]

    def __setitem__(self, k, v):
        self.writes.append((k, v))
        self.sites[k] = v

    def __iter__(self):
        return iter(self.sites)


def py_isinstance(x, t):
    ts = t if isinstance(t, tuple) else (t,)
    for tt in ts:
        if isinstance(tt, type) and isinstance(x, tt) and not (tt is int and isinstance(x, bool)):
            return True
        if tt == "np.ndarray" and getattr(x, "_is_ndarray", False):
            return True
    return False


class _Sigma(Tag):
    """singular values of one decomposition: an array object; in-place arithmetic changes it for everyone who holds it and is recorded"""
    def __init__(self, name, length):
        super().__init__(name, length)
        self.changed = []

    def _ip(self, what):
        self.changed.append(what)
        return self

    def __itruediv__(self, o):
        return self._ip(f"/= {o!r}")

    def __imul__(self, o):
        return self._ip(f"*= {o!r}")

    def __iadd__(self, o):
        return self._ip(f"+= {o!r}")

    def __isub__(self, o):
        return self._ip(f"-= {o!r}")

    def __setitem__(self, k, v):
        self._ip(f"[{k!r}] = {v!r}")

    def __truediv__(self, o):
        return Tag(f"{self._name}/{o!r}", self._len)

    def __mul__(self, o):
        return Tag(f"{self._name}*{o!r}", self._len)

    __rmul__ = __mul__

    def copy(self):
        return Tag(f"{self._name}.copy()", self._len)


def compress_bond_rule(chk, src, rule):
    """abstract run of MatrixProduct.compress (CompressConfig.compute_m_trunc / _fixed_m_trunc run from source) on a 5-site chain, both directions, the kept count given by the
    configuration (per-bond limits), by an explicit list / tuple, and by one number: every site but the last of the sweep is decomposed once, in sweep order, its factors and labels
    go to the site update together with a kept count that is the limit of the bond on the sweep side of the site (idx+1 sweeping right, idx sweeping left), capped by the number of
    singular values; the direction is switched once at the end"""
    n = 5
    fi = src.func(MP, "MatrixProduct.compress")
    resolve = class_resolver(src, {"Mps": MPS, "CompressConfig": CONFIGS})
    crit = Sym("CompressCriteria", threshold="<threshold>", fixed="<fixed>", both="<both>")
    for to_right in (True, False):
        for path in ("configuration", "configuration above the rank", "list", "tuple", "number", "number above the rank", "configuration, singular values returned", "number, singular values returned"):
            ret_s = path.endswith("returned")
            path0 = path.split(",")[0]
            limits = [1] + [3 + k for k in range(1, n)] + [1]       # limit of bond k (between site k-1 and k); the boundary bonds have dimension one
            cfg = Sym("compress_config", criteria=crit.fixed, max_dims=[50] * (n + 1) if path0 == "configuration above the rank" else list(limits), threshold=Blob("thr"), bonddim_should_set=False)
            cfg._cls = "CompressConfig"
            updates = []

            def update(idx, u, vt, sigma=None, qnlset=None, qnrset=None, m_trunc=None, me=None):
                updates.append((idx, u, vt, sigma, qnlset, qnrset, m_trunc))
            me = Chain(n, to_right, compress_config=cfg, check_left_canonical=lambda *a: True, check_right_canonical=lambda *a: True)
            me.__dict__["_update_ms"] = update
            me.__dict__["_get_big_qn"] = lambda cidx, swap=False: (Tag(f"qnbigl{cidx}"), Tag(f"qnbigr{cidx}"), Tag(f"qnmat{cidx}"))
            decomposed = []

            def svd(mat, qnl, qnr, qntot, QR=False, system=None, full_matrices=True, me=me, decomposed=decomposed):
                k = next((i for i, s_ in enumerate(me.sites) if s_ is mat or s_ == mat), None)
                decomposed.append((k, repr(qnl), repr(qnr), system, full_matrices))
                sg = _Sigma(f"sigma{k}", 7)
                return Tag(f"u{k}"), sg, Tag(f"qnl{k}"), Tag(f"v{k}"), sg, Tag(f"qnr{k}")
            it = SymInterp(src, resolve, {"svd_qn": Sym("svd_qn", svd_qn=svd), "CompressCriteria": crit, "logger": Blob("logger"), "sizeof_fmt": lambda x: "size", "isinstance": py_isinstance,
                                          "np": OpenSym("np", make=lambda t: Blob(t), ndarray="np.ndarray", inf=10 ** 9, pad=lambda a_, w_, **k_: ("padded", a_), array=lambda x, *a_, **k_: ("array", list(x)),
                                                       linalg=OpenSym("linalg", make=lambda t: Blob(t))),
                                          "xp": OpenSym("xp", make=lambda t: Blob(t)), "Matrix": "Matrix"})
            it.max_depth = 12
            arg = {"configuration": None, "configuration above the rank": None, "list": list(limits), "tuple": tuple(limits), "number": 5, "number above the rank": 50}[path0]
            problems = []
            res = None
            try:
                res = it.call_function(fi, [me] + ([] if arg is None else [arg]), {"ret_s": True} if ret_s else {})
            except SymRaise as e:
                problems.append(f"raises {e}")
            order = list(range(0, n - 1)) if to_right else list(range(n - 1, 0, -1))
            if not problems:
                if [d[0] for d in decomposed] != order:
                    problems.append(f"sites decomposed: {[d[0] for d in decomposed]}, expected {order}")
                if [u[0] for u in updates] != order:
                    problems.append(f"sites updated: {[u[0] for u in updates]}, expected {order}")
                for (k, ql, qr, system, full), (idx, u, vt, sigma, qnl, qnr, m) in zip(decomposed, updates):
                    if (ql, qr) != (f"qnbigl[{k}]", f"qnbigr[{k}]") or system != ("L" if to_right else "R") or full is not False:
                        problems.append(f"site {k}: decomposition called with labels ({ql}, {qr}), system={system}, full_matrices={full}")
                    if (repr(u), repr(vt), repr(sigma), repr(qnl), repr(qnr)) != (f"u{k}", f"v{k}.T", f"sigma{k}", f"qnl{k}", f"qnr{k}"):
                        problems.append(f"site {k}: update receives ({u!r}, {vt!r}, {sigma!r}, {qnl!r}, {qnr!r})")
                    if getattr(sigma, "changed", None):
                        problems.append(f"site {k}: the singular values handed to the site update were changed in place ({sigma.changed[0]}): the state is rescaled at this bond")
                    bond = k + 1 if to_right else k
                    want = {"number": 5, "number above the rank": 7, "configuration above the rank": 7}.get(path0, limits[bond])
                    if m != want:
                        problems.append(f"site {k} (to_right={to_right}): kept count {m}, expected {want}" + ("" if "number" in path or "above" in path else f" = limit of bond {bond}") + (" = number of singular values" if "above" in path else ""))
                if (me.to_right, me.qnidx) != ((not to_right), (n - 1 if to_right else 0)):
                    problems.append(f"after the sweep to_right={me.to_right}, qnidx={me.qnidx}")
                if not ret_s and res is not me:
                    problems.append("compress does not return the object")
                if ret_s:
                    ok_r = isinstance(res, tuple) and len(res) == 2 and res[0] is me and isinstance(res[1], tuple) and res[1][0] == "array" and \
                        [getattr(x[1], "_name", None) if isinstance(x, tuple) else getattr(x, "_name", None) for x in res[1][1]] == [f"sigma{k}" for k in order]
                    if not ok_r:
                        problems.append(f"with ret_s the result is {str(res)[:80]}; expected (the object, the singular values of every bond in sweep order, padded)")
            chk.ob(rule, f"compress[to_right={to_right}, kept count from {path}]", not problems, fi.where, problems[:3] or "every bond truncated once with its own limit", "every bond truncated once with its own limit",
                   line=fi.node.lineno, detail=f"compress ({path}): " + (problems[0] if problems else "") + " - an explicit per-bond list and CompressConfig.max_dims must limit the bond that is being cut: "
                                                                                                      "sweeping right that is bond idx+1, sweeping left bond idx")


# ---------------------------------------------------------------------------------------------- operator x state / operator products
class QL(Sym):
    """bond label array (k labels of q components)"""
    def __init__(self, name, k=4, q=2):
        super().__init__(name)
        self.shape = (k, q)

    def reshape(self, *shape):
        return self

    def copy(self):
        return QL(self._name, *self.shape)

    def __add__(self, o):
        return QL(f"({self._name} + {getattr(o, '_name', o)})", *self.shape)

    __iadd__ = __add__

    def __neg__(self):
        return QL(f"-{self._name}", *self.shape)


class QOuter(QL):
    def __init__(self, a, b):
        super().__init__(f"outer({a._name}, {b._name})", a.shape[0] * b.shape[0], a.shape[1])
        self.a, self.b = a, b


class QTot(Sym):
    """total charge: a linear combination of the operands' total charges"""
    def __init__(self, terms):
        super().__init__(" + ".join(f"{c}*{n}" if c != 1 else n for n, c in sorted(terms.items())) or "0")
        self.terms = dict(terms)

    def _comb(self, o, sign=1):
        if not isinstance(o, QTot):
            raise AnalysisError(f"total charge combined with {o!r}")
        t = dict(self.terms)
        for n, c in o.terms.items():
            t[n] = t.get(n, 0) + sign * c
        return QTot({n: c for n, c in t.items() if c})

    def __add__(self, o):
        return self._comb(o)

    __radd__ = __add__

    def __sub__(self, o):
        return self._comb(o, -1)

    def __neg__(self):
        return QTot({n: -c for n, c in self.terms.items()})

    def copy(self):
        return QTot(self.terms)


def product_rule(chk, src, rule, rule_align=None, rule_charge=None):
    """abstract run of Mpo.apply (state operand, operator operand) and MpDm.apply on symbolic 3-site chains whose bond and physical sizes are distinct primes: every site of
    the product is the operator site contracted over its column index with the operand's row index; the two left bonds and the two right bonds are merged in one order, which is
    also the order of the add_outer that builds the labels of the merged bonds; open physical legs are (operator row[, operand column])"""
    from .. import ntensor as NTm
    from ..ntensor import NT, Leg
    MPO_, MPDM_ = "renormalizer/mps/mpo.py", "renormalizer/mps/mpdm.py"
    n = 3
    ob, sb, ph, qh = [2, 3, 5, 7], [11, 13, 17, 19], [23, 29, 31], [37, 41, 43]
    cases = [(MPO_, "Mpo.apply", "Mpo", "state", 3), (MPO_, "Mpo.apply", "Mpo", "operator", 4), (MPDM_, "MpDm.apply", "MpDm", "operator", 4)]
    resolve = class_resolver(src, {"Mpo": MPO_, "MpDm": MPDM_})
    for rel, qual, rcls, okind, orank in cases:
        fi = src.func(rel, qual)
        edges = []
        a_sites = [NT(f"A{i}", [Leg(("A", i, 0), ob[i]), Leg(("A", i, 1), ph[i]), Leg(("A", i, 2), qh[i] if rcls == "MpDm" else ph[i]), Leg(("A", i, 3), ob[i + 1])], edges) for i in range(n)]
        if orank == 3:
            b_sites = [NT(f"B{i}", [Leg(("B", i, 0), sb[i]), Leg(("B", i, 1), ph[i]), Leg(("B", i, 2), sb[i + 1])], edges) for i in range(n)]
        else:
            row = qh if rcls == "MpDm" else ph
            b_sites = [NT(f"B{i}", [Leg(("B", i, 0), sb[i]), Leg(("B", i, 1), row[i]), Leg(("B", i, 2), qh[i] if rcls != "MpDm" else ph[i]), Leg(("B", i, 3), sb[i + 1])], edges) for i in range(n)]
        moves = []

        def mk(name, sites, labels, cls, kind):
            c = Chain(n, True, cls=cls, is_mpo=(kind == "operator"))
            c.sites = list(sites)
            c.qn = list(labels)
            c.is_mps, c.is_mpdm, c.is_complex = kind == "state", False, False
            c.qntot = QTot({f"qntot({name.replace('copy(', '').rstrip(')')})": 1})
            base = name.replace("copy(", "").rstrip(")")
            c.dummy_qn = [QL(f"zero{base}{k}") for k in range(n + 1)]
            for q in c.dummy_qn:
                q.__dict__["_zero"] = True
            for q in labels:
                q.__dict__["_owner"] = c
            c._name = name

            def move(k, c=c):
                moves.append((c._name, k))
                c.qnidx = k
            c.__dict__.update(move_qnidx=move, canonicalise=lambda *a, **k: c, to_complex=lambda *a, **k: c, check_left_canonical=lambda *a: True)

            def copy(c=c, name=name):
                d = mk(f"copy({name})", c.sites, [q.copy() for q in c.qn], c._cls, kind)
                d.qnidx, d.to_right, d.qntot = c.qnidx, c.to_right, c.qntot.copy()
                return d
            c.__dict__.update(copy=copy, metacopy=copy)
            return c
        A = mk("A", a_sites, [QL(f"qnA{k}") for k in range(n + 1)], rcls, "operator")
        B = mk("B", b_sites, [QL(f"qnB{k}") for k in range(n + 1)], "Mps" if okind == "state" else "Mpo", okind)
        A.qnidx, B.qnidx = "centre of A", "centre of B"
        A.__dict__["promote_mt_type"] = lambda mp: mp
        npx = NTm.np_namespace()
        combos = []

        def add_outer(a, b):
            combos.append(tuple((q, None if getattr(q, "_zero", False) else getattr(getattr(q, "_owner", None), "qnidx", "?")) for q in (a, b)))
            return QOuter(a, b)
        it = SymInterp(src, resolve, {"np": npx, "xp": npx, "tensordot": NTm.tensordot, "moveaxis": NTm.moveaxis, "add_outer": add_outer, "logger": Blob("logger")})
        it.max_depth = 12
        problems = []
        try:
            out = it.call_function(fi, [A, B])
        except (SymRaise, ValueError) as e:
            out = None
            problems.append(f"{type(e).__name__}: {e}")
        order = None
        if out is not None:
            if not isinstance(out, Chain) or out is A or out is B:
                problems.append("the product is not a new object")
            else:
                for i in range(n):
                    t = out.sites[i]
                    if not isinstance(t, NT):
                        problems.append(f"site {i} of the product is {t!r}")
                        continue
                    keys = t.keys()
                    want_phys = [("A", i, 1)] + ([("B", i, 2)] if orank == 4 else [])
                    last = orank - 1
                    merged = [k for k in keys if k[0] == "M"]
                    if len(merged) != 2 or keys[0] != merged[0] or keys[-1] != merged[1] or keys[1:-1] != want_phys:
                        problems.append(f"site {i}: axes {t.legs}; expected (merged left bonds, {want_phys}, merged right bonds)")
                        continue
                    lo = [x[0] for x in merged[0][1:]]
                    ro = [x[0] for x in merged[1][1:]]
                    if sorted(merged[0][1:]) != [("A", i, 0), ("B", i, 0)] or sorted(merged[1][1:]) != [("A", i, 3), ("B", i, last)] or lo != ro:
                        problems.append(f"site {i}: merged bonds {merged}; expected (A.0 x B.0) and (A.3 x B.{last}) in one order")
                        continue
                    if order is None:
                        order = lo
                    elif order != lo:
                        problems.append(f"site {i}: bonds merged in the order {lo}, other sites {order}")
                want_edges = {frozenset([(("A", i, 2), False), (("B", i, 1), False)]) for i in range(n)}
                got_edges = {frozenset([(a, ca), (b, cb)]) for a, ca, b, cb in edges}
                if got_edges != want_edges:
                    problems.append(f"contractions {sorted(map(sorted, got_edges))}; expected the operator's column index (axis 2) with the operand's row index (axis 1) at every site")
                lab = [(type(q).__name__, getattr(q, "a", None) and q.a._name[:3], getattr(q, "b", None) and q.b._name[:3]) for q in out.qn]
                if not all(isinstance(q, QOuter) for q in out.qn) or len(out.qn) != n + 1:
                    problems.append(f"labels of the product are {[repr(q) for q in out.qn]}; expected the outer sums of the two operands' labels, bond by bond")
                else:
                    lorder = [["A" if "A" in q.a._name else "B", "A" if "A" in q.b._name else "B"] for q in out.qn]
                    idx_ok = all(q.a._name.endswith(str(k)) and q.b._name.endswith(str(k)) for k, q in enumerate(out.qn))
                    if any(lo_ != (order or lo_) for lo_ in lorder) or not idx_ok:
                        problems.append(f"labels are built as {[repr(q) for q in out.qn[:2]]}..: tensor bonds are merged in the order {order}, labels in the order {lorder[0]}")
                # ---- centre alignment: every combination of two centre-dependent label arrays happens while their owners sit at one centre; the product ends at the centre its
                #      labels were read at or is moved back to the operand's centre; all-zero labels (dummy_qn) are the same at every centre
                misaligned = [(a._name, ca, b._name, cb) for (a, ca), (b, cb) in combos if ca is not None and cb is not None and ca != cb]
                real_b = any(not getattr(q, "_zero", False) and "B" in q._name for pair in combos for q, _ in pair)
                if rule_align:
                    al_ok = not misaligned and combos and (not real_b or out.qnidx in ("centre of B", "centre of A"))
                    chk.ob(rule_align, f"{qual}[{okind} operand]: outer-sum", bool(al_ok), fi.where,
                           {"combined at different centres": misaligned[:2], "centre moves": moves, "centre of the product": out.qnidx},
                           "both label lists read at one centre (or one of them centre-invariant)", line=fi.node.lineno,
                           detail=f"{qual} combines bond quantum numbers of two objects taken at different centres ({misaligned[:1]}): "
                                  f"the result's labels are wrong when the operands' centres differ, and the damage shows after a later canonicalise()")
                elif misaligned:
                    problems.append(f"labels combined at different centres: {misaligned[:2]} (centre moves {moves})")
                if qual == "Mpo.apply" and not misaligned and out.qnidx != "centre of B":
                    problems.append(f"label centre moves {moves}: the product is left at {out.qnidx}; expected: moved back to the operand's own centre after the labels are combined")
                # ---- total charge: the sum of the total charges of the operands whose (non-zero) labels entered the outer sums
                want_tot = {"qntot(A)": 1, **({"qntot(B)": 1} if real_b else {})}
                got_tot = getattr(out.qntot, "terms", None)
                if rule_charge:
                    chk.ob(rule_charge, f"{qual}[{okind} operand]: outer-sum", got_tot == want_tot, fi.where, {"total charge of the product": repr(out.qntot)},
                           {"total charge of the product": " + ".join(sorted(want_tot))}, line=fi.node.lineno,
                           detail=f"{qual}: bond labels and total charge are transformed differently (labels: outer sums of the operands' labels; total charge: {out.qntot!r})")
                elif got_tot != want_tot:
                    problems.append(f"total charge of the product {out.qntot!r}; expected {' + '.join(sorted(want_tot))}")
        chk.ob(rule, f"{qual}[{okind} operand]", not problems, fi.where, problems[:3] or {"merge order": order}, "operator column x operand row; bonds and labels merged in one order", line=fi.node.lineno,
               detail=f"{qual}: " + (problems[0] if problems else "") + " - tensor index a*dim_b + b must carry the label qn_a[a] + qn_b[b]; a different order attaches the labels to the wrong rows of the merged bond")


# ---------------------------------------------------------------------------------------------- prefactor algebra
def prefactor_rule(chk, src, rule):
    """abstract run of the prefactor-carrying operations on 'algebraic states' (prefactor c, tensor part = linear combination of named vectors): the vector an object stands for
    is c * (tensor part).  Mps.add / Mps.distance / MatrixProduct.__sub__ / MatrixProduct.distance / Mps.conj / MatrixProduct.scale are run from source; the tensor-level direct
    sum, the bilinear overlap and copies are the algebra's own operations (their code is decided by chain-direct-sum, overlap-network and C13)."""
    import sympy as sp
    ca, cb, k = sp.Symbol("c_a"), sp.Symbol("c_b"), sp.Symbol("k")
    resolve = class_resolver(src, {"Mps": MPS})

    def lin(d):
        return {b: sp.expand(c) for b, c in d.items() if sp.expand(c) != 0}

    def cbase(b):
        return b[:-1] if b.endswith("*") else b + "*"

    class Num(Sym):
        """scalar expression"""
        def __init__(self, e):
            super().__init__(str(e))
            self.e = sp.sympify(e)

        def _v(self, o):
            return o.e if isinstance(o, Num) else sp.sympify(o)

        def __add__(self, o):
            return Num(self.e + self._v(o))

        __radd__ = __add__

        def __sub__(self, o):
            return Num(self.e - self._v(o))

        def __rsub__(self, o):
            return Num(self._v(o) - self.e)

        def __mul__(self, o):
            return Num(self.e * self._v(o))

        __rmul__ = __mul__

        def __truediv__(self, o):
            return Num(self.e / self._v(o))

        def __neg__(self):
            return Num(-self.e)

        def __lt__(self, o):
            return False

        def conjugate(self):
            return Num(sp.conjugate(self.e))

        conj = conjugate

        @property
        def real(self):
            return Num(sp.re(self.e))

        def item(self):
            return self

    def inner(u, w):
        """bilinear overlap of two tensor parts: B(x, y) symbols with B(x*, x) real"""
        tot = 0
        for bu, cu in u.items():
            for bw, cw in w.items():
                x, y = sorted([bu, bw])
                if cbase(x) == y or cbase(y) == x:
                    base = x.rstrip("*")
                    sym = sp.Symbol(f"N_{base}", positive=True)
                else:
                    # <x|y> with x the conjugated one when exactly one is conjugated: X_ab = <a|b>, conj for <b|a>
                    cj = [z for z in (bu, bw) if z.endswith("*")]
                    pl = [z for z in (bu, bw) if not z.endswith("*")]
                    if len(cj) == 1:
                        bra, ket = cj[0].rstrip("*"), pl[0]
                        sym = sp.Symbol(f"X_{min(bra, ket)}{max(bra, ket)}")
                        if bra > ket:
                            sym = sp.conjugate(sym)
                    else:
                        sym = sp.Symbol(f"B_{x}_{y}")
                tot += cu * cw * sym
        return Num(sp.expand(tot))

    class Vec(Sym):
        def __init__(self, name, coeff, tensor):
            super().__init__(name)
            self._cls = "Mps"
            self.coeff, self.tensor = coeff, lin(tensor)
            self.qnidx, self.site_num, self.to_right = 0, 3, True
            self.log = []

        def total(self):
            c = self.coeff.e if isinstance(self.coeff, Num) else sp.sympify(self.coeff)
            return lin({b: c * v for b, v in self.tensor.items()})

        # the algebra's own operations (contracts of code decided elsewhere)
        def copy(self):
            return Vec(f"copy({self._name})", self.coeff, dict(self.tensor))

        metacopy = copy

        def dot(self, o):
            return inner(self.tensor, o.tensor)

        def to_complex(self, inplace=False):
            return self if inplace else self.copy()

        def __getitem__(self, i):
            return TensorSite(self)

        def __setitem__(self, i, v):
            if not isinstance(v, TensorSite) or v.owner is not self:
                raise AnalysisError("a site of another object is stored")
            self.log.append(("site store", i))
            self.tensor = lin({b: c * v.factor for b, c in self.tensor.items()})

    class TensorSite(Sym):
        """one site tensor of a state: multiplying it by x multiplies the state's tensor part by x"""
        def __init__(self, owner, factor=1):
            super().__init__("site")
            self.owner, self.factor = owner, factor

        @property
        def array(self):
            return self

        def any(self):
            return True

        def __mul__(self, x):
            return TensorSite(self.owner, self.factor * (x.e if isinstance(x, Num) else sp.sympify(x)))

        __rmul__ = __mul__

    def tensor_add(me, o):
        r = Vec("sum", me.coeff, {b: me.tensor.get(b, 0) + o.tensor.get(b, 0) for b in set(me.tensor) | set(o.tensor)})
        return r

    def tensor_conj(me):
        return Vec(f"conj({me._name})", me.coeff, {cbase(b): sp.conjugate(c) for b, c in me.tensor.items()})
    mp_mro = [c for c in src.mro(src.cls(MPS, "Mps")) if c.name == "MatrixProduct"][0]

    def make_it(stubs):
        it = SymInterp(src, None, {})

        def res(recv, name):
            if isinstance(recv, Vec) and name in stubs:
                return lambda *a, **k_: stubs[name](recv, *a, **k_)
            return resolve(recv, name)
        it.resolver = res
        me_holder = []

        class Super(Sym):
            def symattr(self, attr):
                recv = me_holder[-1]
                if attr in stubs:
                    return lambda *a, **k_: stubs[attr](recv, *a, **k_)
                return lambda *a, **k_: it.call_function(mp_mro.methods[attr], [recv] + list(a), k_)
        npx = OpenSym("np", make=lambda t: Blob(t), allclose=lambda x, y, **k_: sp.simplify((x.e if isinstance(x, Num) else sp.sympify(x)) - (y.e if isinstance(y, Num) else sp.sympify(y))) == 0,
                      sqrt=lambda x: Num(sp.sqrt(x.e)), iscomplex=lambda x: True, conj=lambda x: x.conjugate(), conjugate=lambda x: x.conjugate())
        it.builtins.update({"np": npx, "xp": npx, "super": lambda: Super("super"), "logger": Blob("logger"), "float": lambda x: x, "complex": lambda x: x})
        it.max_depth = 12
        return it, me_holder
    # ---- Mps.add / Mps.distance, different and equal prefactors
    for qual, stub_name in (("Mps.add", "add"), ("Mps.distance", "distance")):
        fi = src.func(MPS, qual)
        for case, (c1, c2) in (("different prefactors", (ca, cb)), ("equal prefactors", (ca, ca))):
            a, b = Vec("a", Num(c1), {"a": 1}), Vec("b", Num(c2), {"b": 1})
            ta, tb = a.total(), b.total()
            seen = []

            def tensor_level(me, o, seen=seen):
                seen.append((me, o, me.total(), o.total()))
                return tensor_add(me, o) if stub_name == "add" else Num(sp.Symbol("dist"))
            it, holder = make_it({stub_name: tensor_level} if False else {})
            # the tensor-level method is reached through super(): intercept it there
            it.builtins["super"] = lambda it=it, holder=holder: Sym("super", **{stub_name: (lambda o, holder=holder: tensor_level(holder[-1], o))})
            holder.append(a)
            problems = []
            res = it.call_function(fi, [a, b])
            if len(seen) != 1:
                problems.append(f"the tensor-level {stub_name} is called {len(seen)} times")
            else:
                me_, o_, t1, t2 = seen[0]
                if me_ is not a or o_ is not b:
                    problems.append("the tensor-level operation is not applied to (self, other)")
                c_me = me_.coeff.e if isinstance(me_.coeff, Num) else sp.sympify(me_.coeff)
                c_o = o_.coeff.e if isinstance(o_.coeff, Num) else sp.sympify(o_.coeff)
                if sp.simplify(c_me - c_o) != 0:
                    problems.append(f"the tensor-level operation sees prefactors {c_me} and {c_o}: it combines tensor parts only, so the prefactors must agree at that point")
                if t1 != ta or t2 != tb:
                    problems.append(f"the operands then stand for {t1} and {t2}; they must still stand for {ta} and {tb}")
            if stub_name == "add" and isinstance(res, Vec) and not problems:
                want = lin({"a": c1, "b": c2})
                if res.total() != want:
                    problems.append(f"the sum stands for {res.total()}, expected {want}")
            chk.ob(rule, f"{qual}[{case}]", not problems, fi.where, problems[:2] or "operands keep their vectors; tensor parts combined under one prefactor", "operands keep their vectors; tensor parts combined under one prefactor",
                   line=fi.node.lineno, detail=f"{qual}: " + (problems[0] if problems else "") + " - folding only one prefactor, or resetting it without folding, changes the state an operand represents")
    # ---- MatrixProduct.distance on tensor parts
    fi = src.func(MP, "MatrixProduct.distance")
    a, b = Vec("a", Num(1), {"a": 1}), Vec("b", Num(1), {"b": 1})
    it, holder = make_it({"conj": tensor_conj})
    res = it.call_function(fi, [a, b])
    X = sp.Symbol("X_ab")
    want = sp.sqrt(sp.Symbol("N_a", positive=True) + sp.Symbol("N_b", positive=True) - X - sp.conjugate(X))
    got = res.e if isinstance(res, Num) else None
    ok = got is not None and sp.simplify(got ** 2 - sp.re(sp.expand(want ** 2))) == 0
    chk.ob(rule, "MatrixProduct.distance: |a - b|^2 = <a|a> + <b|b> - <a|b> - conj(<a|b>)", ok, fi.where, str(got), "sqrt(Re(N_a + N_b - X_ab - conj(X_ab)))", line=fi.node.lineno,
           detail="the distance must be built from the three inner products with the conjugated operand as the bra")
    # ---- the same function on numbers: only a *negative* squared distance (round-off of the cancellation) is clamped to zero; a small positive one is a small distance
    import math as _math

    class _F(float):
        def item(self):
            return float(self)
    for case, (na, nb, xab), want_d in (("close operands, |a - b| = 1e-5 |a|", (1.0, 1.0, 1.0 - 5e-11), 1e-5), ("close operands, |a - b| = 1e-6 |a|, complex overlap", (4.0, 4.0, complex(4.0 - 2e-12, 3e-7)), 2e-6),
                                          ("equal operands with round-off", (1.0, 1.0, 1.0 + 1e-17), 0.0), ("well separated operands", (1.0, 2.0, 0.25), _math.sqrt(2.5))):
        def bra_of(x, other_norms):
            return Sym(f"bra({x})", dot=lambda y, x=x: complex(other_norms[(x, y._name)]))
        table = {("a", "a"): na, ("b", "b"): nb, ("a", "b"): xab, ("b", "a"): complex(xab).conjugate()}
        A_, B_ = Sym("a"), Sym("b")
        A_.__dict__["conj"] = lambda: bra_of("a", table)
        B_.__dict__["conj"] = lambda: bra_of("b", table)
        itn = SymInterp(src, None, {"np": Sym("np", sqrt=lambda v: _F(_math.sqrt(v))), "float": float})
        try:
            got_d = itn.call_function(fi, [A_, B_])
            err = None
        except SymRaise as e:
            got_d, err = None, str(e)
        ok = err is None and isinstance(got_d, float) and abs(got_d - want_d) <= 1e-3 * want_d + 1e-12
        chk.ob(rule, f"MatrixProduct.distance[{case}]", ok, fi.where, err or repr(got_d), repr(want_d), line=fi.node.lineno,
               detail="the distance of two close but different operands is small, not zero: only a negative squared distance (cancellation round-off) may be replaced by zero")
    # ---- subtraction
    fi = src.func(MP, "MatrixProduct.__sub__")
    a, b = Vec("a", Num(1), {"a": 1}), Vec("b", Num(1), {"b": 1})

    def scale_stub(me, val, inplace=False):
        t = me if inplace else me.copy()
        t.tensor = lin({bb: c * (val.e if isinstance(val, Num) else sp.sympify(val)) for bb, c in t.tensor.items()})
        return t
    it, holder = make_it({"add": tensor_add, "scale": scale_stub})
    res = it.call_function(fi, [a, b])
    ok = isinstance(res, Vec) and res.total() == lin({"a": 1, "b": -1}) and b.total() == lin({"b": 1})
    chk.ob(rule, "MatrixProduct.__sub__: a - b = a + (-1) b, b unchanged", ok, fi.where, {"result": str(getattr(res, "tensor", res)), "b": str(b.tensor)}, {"result": "a - b", "b": "b"}, line=fi.node.lineno)
    # ---- scale: exactly one site tensor is multiplied, once
    fi = src.func(MP, "MatrixProduct.scale")
    for inplace in (False, True):
        a = Vec("a", Num(ca), {"a": 1})
        it, holder = make_it({})
        res = it.call_function(fi, [a, Num(k)], {"inplace": inplace})
        ok = isinstance(res, Vec) and res.total() == lin({"a": ca * k}) and (res is a) == inplace and (inplace or a.total() == lin({"a": ca})) and len(res.log) == 1
        chk.ob(rule, f"MatrixProduct.scale[inplace={inplace}]", ok, fi.where, {"result": str(res.total()) if isinstance(res, Vec) else repr(res), "site stores": getattr(res, "log", None)},
               {"result": "k c_a a", "site stores": "one"}, line=fi.node.lineno, detail="scaling multiplies exactly one site tensor once (n stores scale by k**n); without inplace the receiver is untouched")
    # ---- conj: prefactor conjugated with the tensors
    fi = src.func(MPS, "Mps.conj")
    a = Vec("a", Num(ca), {"a": 1})
    it, holder = make_it({})
    holder.append(a)
    it.builtins["super"] = lambda: Sym("super", conj=lambda: tensor_conj(a))
    res = it.call_function(fi, [a])
    ok = isinstance(res, Vec) and res.total() == lin({"a*": sp.conjugate(ca)}) and a.total() == lin({"a": ca})
    chk.ob(rule, "Mps.conj: conj(c |psi>) = conj(c) |psi*>", ok, fi.where, str(res.total()) if isinstance(res, Vec) else repr(res), "conj(c_a) a*", line=fi.node.lineno)


# ---------------------------------------------------------------------------------------------- batched expectation values through cached partial environments
def batched_expectation_rule(chk, src, rule):
    """abstract run of Mps.expectations (cached path) with _construct_freq_environ and _get_freq_environ run from source: an environment is the ordered list of
    (site, operator matrix) pairs it has absorbed.  For every operator of several lists (shared prefixes, shared suffixes, identical operators, one operator, operators
    differing at one site) the closed network absorbs every site exactly once, left part ascending from site 0, right part descending from the last site, each site
    with that operator's own matrix, the state's site and the bra's site - and the results come back in the order of the list."""
    import collections
    fi = src.func(MPS, "Mps.expectations")
    n = 5

    class Cov(Sym):
        def __init__(self, domain, sites):
            super().__init__(f"env[{domain}]" + "".join(f"({i}:{m})" for i, m in sites))
            self.domain, self.sites = domain, list(sites)

        def flatten(self):
            return self

        ravel = flatten

        def __matmul__(self, o):
            return Closed(self, o)

        def dot(self, o):
            return Closed(self, o)

    class Closed(Sym):
        def __init__(self, l, r):
            super().__init__("closed")
            self.l, self.r = l, r

    class Mat(Sym):
        """one site matrix of an operator; equal matrices have equal hashes"""
        def __init__(self, ident):
            super().__init__(ident)
            self.ident = ident

        @property
        def array(self):
            return self

    class Res(Sym):
        def __init__(self, items):
            super().__init__("results")
            self.items = list(items)
            self.imag, self.real = self, self

    lists = {
        "shared prefixes and suffixes": [["a0", "I1", "I2", "I3", "I4"], ["a0", "I1", "I2", "I3", "b4"], ["I0", "I1", "c2", "I3", "b4"], ["a0", "I1", "c2", "I3", "I4"]],
        "identical operators": [["a0", "I1", "I2", "I3", "I4"], ["a0", "I1", "I2", "I3", "I4"], ["a0", "I1", "I2", "I3", "I4"]],
        "one operator": [["a0", "b1", "c2", "d3", "e4"]],
        "differing at one site": [["I0", "I1", "x2", "I3", "I4"], ["I0", "I1", "y2", "I3", "I4"], ["I0", "I1", "z2", "I3", "I4"]],
        "reversed order of the first list": [["a0", "I1", "c2", "I3", "I4"], ["I0", "I1", "c2", "I3", "b4"], ["a0", "I1", "I2", "I3", "b4"], ["a0", "I1", "I2", "I3", "I4"]],
    }
    for lname, ops in lists.items():
        mats = {}

        class OpChain(Sym):
            def __init__(self, k, idents):
                super().__init__(f"operator{k}")
                self.sites = [mats.setdefault(x, Mat(x)) for x in idents]
                self.is_complex = False

            def __iter__(self):
                return iter(self.sites)

            def __len__(self):
                return len(self.sites)

            def __getitem__(self, i):
                return self.sites[i]
        mpos = [OpChain(k, idents) for k, idents in enumerate(ops)]
        problems = []

        def one_site(environ, ms, mo, domain=None, ms_conj=None):
            if not isinstance(environ, Cov):
                environ = Cov(domain, [])
            if environ.domain != domain and environ.sites:
                problems.append(f"a {environ.domain} environment is extended as {domain}")
            if not (isinstance(ms, Tag) and isinstance(ms_conj, Tag) and ms._name.startswith("site") and ms_conj._name == ms._name + ".conj"):
                problems.append(f"site kernel called with state site {ms!r} and bra site {ms_conj!r}")
                return Cov(domain, environ.sites + [(-1, getattr(mo, "ident", repr(mo)))])
            return Cov(domain, environ.sites + [(int(ms._name[4:]), getattr(mo, "ident", repr(mo)))])
        me = Chain(n, True)
        me.model = Sym("model")
        bra = Chain(n, True)
        bra.sites = [Tag(f"site{k_}.conj") for k_ in range(n)]
        me.__dict__["_expectation_conj"] = lambda: bra
        resolve = class_resolver(src, {"Mps": MPS})
        npx = OpenSym("np", make=lambda t: Blob(t), inf=10 ** 9, array=lambda x, **k_: Res(x) if isinstance(x, list) else x, allclose=lambda *a, **k_: isinstance(a[0], Mat) or not isinstance(a[0], Res))
        it = SymInterp(src, resolve, {"np": npx, "xp": OpenSym("xp", make=lambda t: Cov("?", [])), "Counter": collections.Counter, "hash": lambda m: f"#{m.ident}", "contract_one_site": one_site,
                                      "complex": lambda x: x, "float": lambda x: x, "isinstance": lambda x, t: False, "backend": Blob("backend"), "logger": Blob("logger"), "Mpo": Blob("Mpo"),
                                      "Op": "Op", "OpSum": "OpSum"})
        it.max_depth = 12
        try:
            res = it.call_function(fi, [me, mpos])
        except SymRaise as e:
            res = None
            problems.append(f"raises {e}")
        items = res.items if isinstance(res, Res) else (res if isinstance(res, list) else None)
        if not problems and (items is None or len(items) != len(ops)):
            problems.append(f"{len(items) if items is not None else 'no'} results for {len(ops)} operators")
        if not problems:
            for k, (c, idents) in enumerate(zip(items, ops)):
                if not isinstance(c, Closed) or not isinstance(c.l, Cov) or not isinstance(c.r, Cov):
                    problems.append(f"result {k} is not a closed network of a left and a right part")
                    continue
                ls, rs = c.l.sites, c.r.sites
                if [i for i, _ in ls] != list(range(len(ls))) or [i for i, _ in rs] != list(range(n - 1, n - 1 - len(rs), -1)) or len(ls) + len(rs) != n:
                    problems.append(f"operator {k}: left part absorbs sites {[i for i, _ in ls]}, right part {[i for i, _ in rs]}; every site must be absorbed exactly once")
                    continue
                got = {i: m for i, m in ls + rs}
                if [got[i] for i in range(n)] != idents:
                    problems.append(f"operator {k}: the network contains the matrices {[got[i] for i in range(n)]}, the operator is {idents}")
        chk.ob(rule, f"Mps.expectations cached path [{lname}]", not problems, fi.where, problems[:2] or "every operator: each site once, with its own matrix", "every operator: each site once, with its own matrix",
               line=fi.node.lineno, detail="batched expectation values: " + (problems[0] if problems else "") + " - a cached partial environment that overlaps the part contracted on the fly, or belongs to "
                                                                                                                  "another operator, gives a value that differs from the one-by-one path")


# ---------------------------------------------------------------------------------------------- the site update after a decomposition
def update_ms_rule(chk, src, rule):
    """abstract run of MatrixProduct._update_ms on a 3-site chain of abstract tensors (state and operator form, both directions, with and without singular values):
    the isometric factor, restored to the site's axis order, replaces the site; the other factor is contracted into the neighbour on the sweep side over the bond between
    them; both factors, the singular values and the labels are cut by the one kept count; the singular values are multiplied in exactly once (for a state: into the
    neighbour, so that the weights travel with the centre); the labels of the new bond and the label centre move with it"""
    from .. import ntensor as NTm
    from ..ntensor import NT, Leg
    fi = src.func(MP, "MatrixProduct._update_ms")
    resolve = class_resolver(src, {"Mps": MPS})
    bonds, ph, qh, K, m = [2, 3, 5, 7], [11, 13, 17], [19, 23, 29], 31, 6
    for is_mpo in (False, True):
        rank = 4 if is_mpo else 3
        for to_right in (True, False):
            for with_sigma in (True, False):
                edges = []

                def site(i):
                    legs = [Leg(("S", i, 0), bonds[i]), Leg(("S", i, 1), ph[i])] + ([Leg(("S", i, 2), qh[i])] if is_mpo else []) + [Leg(("S", i, rank - 1), bonds[i + 1])]
                    return NT(f"S{i}", legs, edges)
                me = Chain(3, to_right, cls="Mps", is_mpo=is_mpo)
                me.sites = [site(i) for i in range(3)]
                me.qn = [f"old labels {k}" for k in range(4)]
                me.qnidx = 1
                idx = 1
                inner = [(("S", idx, 1), ph[idx])] + ([(("S", idx, 2), qh[idx])] if is_mpo else [])
                if to_right:
                    u = NT("u", [Leg([(("S", idx, 0), bonds[idx])] + inner, 0), Leg(("new",), K)], edges)
                    vt = NT("vt", [Leg(("new",), K), Leg(("S", idx, rank - 1), bonds[idx + 1])], edges)
                else:
                    u = NT("u", [Leg(("S", idx, 0), bonds[idx]), Leg(("new",), K)], edges)
                    vt = NT("vt", [Leg(("new",), K), Leg(inner + [(("S", idx, rank - 1), bonds[idx + 1])], 0)], edges)
                sigma = NT("sigma", [Leg(("new",), K)], edges) if with_sigma else None
                qnl, qnr = [f"l{k}" for k in range(K)], [f"r{k}" for k in range(K)]
                npx = NTm.np_namespace(linalg=OpenSym("linalg", make=lambda t: Blob("norm")))
                it = SymInterp(src, resolve, {"np": npx, "xp": npx, "tensordot": NTm.tensordot, "moveaxis": NTm.moveaxis, "logger": Blob("logger"), "asnumpy": lambda x: x, "asxp": lambda x: x,
                                              "Matrix": lambda x, *a: x})
                it.max_depth = 10
                problems = []
                try:
                    it.call_function(fi, [me, idx, u, vt], {"sigma": sigma, "qnlset": qnl, "qnrset": qnr, "m_trunc": m})
                except (ValueError, SymRaise) as e:
                    problems.append(f"{type(e).__name__}: {e}")
                nb = idx + 1 if to_right else idx - 1
                if not problems:
                    t_site, t_nb = me.sites[idx], me.sites[nb]
                    phys = [("S", idx, a_) for a_ in range(1, rank - 1)]
                    want_site = ([("S", idx, 0)] + phys + [("new",)]) if to_right else ([("new",)] + phys + [("S", idx, rank - 1)])
                    nphys = [("S", nb, a_) for a_ in range(1, rank - 1)]
                    want_nb = ([("new",)] + nphys + [("S", nb, rank - 1)]) if to_right else ([("S", nb, 0)] + nphys + [("new",)])
                    if not isinstance(t_site, NT) or t_site.keys() != want_site:
                        problems.append(f"site {idx} becomes {t_site!r}; expected axes {want_site}")
                    if not isinstance(t_nb, NT) or t_nb.keys() != want_nb:
                        problems.append(f"site {nb} becomes {t_nb!r}; expected axes {want_nb}")
                    want_edge = frozenset([(("S", idx, rank - 1), False), (("S", nb, 0), False)]) if to_right else frozenset([(("S", nb, rank - 1), False), (("S", idx, 0), False)])
                    got_edges = {frozenset([(a, ca), (b, cb)]) for a, ca, b, cb in edges}
                    if got_edges != {want_edge}:
                        problems.append(f"contractions {sorted(map(sorted, got_edges))}; expected only the bond between sites {idx} and {nb}")
                    if not problems:
                        new_s = [l for l in t_site.legs if l.key() == ("new",)][0]
                        new_n = [l for l in t_nb.legs if l.key() == ("new",)][0]
                        if new_s.cut != m or new_n.cut != m:
                            problems.append(f"the new bond is cut to {new_s.cut} on site {idx} and to {new_n.cut} on site {nb}; kept count {m}")
                        n_sig = ("sigma" in new_s.scaled) + ("sigma" in new_n.scaled)
                        if with_sigma and n_sig != 1:
                            problems.append(f"the singular values are multiplied in {n_sig} times")
                        elif with_sigma and not is_mpo and "sigma" not in new_n.scaled:
                            problems.append("the singular values stay on the isometric side: the weights must travel with the centre into the next site")
                        elif not with_sigma and n_sig:
                            problems.append("singular values multiplied in although none were given")
                        sc = sorted(t_site.scale) + ["|"] + sorted(t_nb.scale)
                        if sc not in (["|"], ["norm", "|", "1/norm"], ["1/norm", "|", "norm"]):
                            problems.append(f"scalar factors {sc}: the two factors may only be rebalanced by a common factor and its inverse")
                    want_q = (qnl[:m], idx + 1, idx + 1) if to_right else (qnr[:m], idx, idx - 1)
                    got_q = me.qn[want_q[1]]
                    if list(got_q) != want_q[0] or me.qnidx != want_q[2]:
                        problems.append(f"labels of bond {want_q[1]}: {str(list(got_q))[:60]}, centre {me.qnidx}; expected the first {m} labels of the {'left' if to_right else 'right'} factor and centre {want_q[2]}")
                    untouched = [k_ for k_ in range(4) if k_ != want_q[1] and me.qn[k_] != f"old labels {k_}"]
                    if untouched:
                        problems.append(f"labels of bonds {untouched} were changed")
                chk.ob(rule, f"_update_ms[{'operator' if is_mpo else 'state'}, to_right={to_right}, {'with' if with_sigma else 'without'} singular values]", not problems, fi.where,
                       problems[:3] or "isometry on the site, remainder into the neighbour, one cut, weights once", "isometry on the site, remainder into the neighbour, one cut, weights once", line=fi.node.lineno,
                       detail="_update_ms: " + (problems[0] if problems else ""))


# ---------------------------------------------------------------------------------------------- closed-form thermal / vibrational propagator
def exact_propagator_rule(chk, src, rule):
    """abstract run of Mpo.exact_propagator on a symbolic two-molecule model (schemes 1 and 4, both spaces) in a small matrix-expression domain: operator symbols, linear
    combinations, eigh -> (eigenvalues, eigenvectors) of an expression, diag, exp, products and transposes.  V diag(exp(c w)) V^T with (w, V) = eigh(h) is recognised as
    expm(c h); diag(exp(c arange)) as expm(c n).  Every vibration site must be expm(x h_site) with h_site the site Hamiltonian of the space, every electronic site the identity,
    and the whole operator scaled once by exp(shift x)."""
    import sympy as sp
    MPO_ = "renormalizer/mps/mpo.py"
    fi = src.func(MPO_, "Mpo.exact_propagator")
    x, shift = sp.Symbol("x"), sp.Symbol("shift")

    class MX(Sym):
        """kind: 'lin' {operator name: coefficient} | 'eigvals' h | 'eigvecs' h (transposed flag) | 'diag' vector | 'exp' v | 'vec' (coeff, base) | 'prod' [factors] | 'expm' (coeff, lin) | 'eye' n"""
        def __init__(self, kind, data, t=False):
            super().__init__(f"{kind}({data})" + (".T" if t else ""))
            self.kind, self.data, self.t = kind, data, t

        def __mul__(self, c):
            c = sp.sympify(c.e if hasattr(c, "e") else c)
            if self.kind == "lin":
                return MX("lin", {k: sp.expand(v * c) for k, v in self.data.items()})
            if self.kind in ("eigvals", "arange", "vec"):
                base = self.data[1] if self.kind == "vec" else self
                c0 = self.data[0] if self.kind == "vec" else 1
                return MX("vec", (sp.expand(c0 * c), base))
            raise AnalysisError(f"scalar multiple of {self!r}")

        __rmul__ = __mul__

        def __add__(self, o):
            if self.kind == "lin" and isinstance(o, MX) and o.kind == "lin":
                d = dict(self.data)
                for k, v in o.data.items():
                    d[k] = sp.expand(d.get(k, 0) + v)
                return MX("lin", d)
            raise AnalysisError(f"sum of {self!r} and {o!r}")

        @property
        def T(self):
            return MX(self.kind, self.data, not self.t)

        def dot(self, o):
            a = self.data if self.kind == "prod" else [self]
            b = o.data if o.kind == "prod" else [o]
            return MX("prod", list(a) + list(b))

        def __matmul__(self, o):
            return self.dot(o)

        def reshape(self, *shape):
            shape = list(shape[0]) if len(shape) == 1 and isinstance(shape[0], (list, tuple)) else list(shape)
            return Site(self, shape)

        def canon(self):
            """('expm', coefficient, generator) when the expression is a matrix exponential in one of the recognised forms"""
            if self.kind == "eye":
                return ("identity", self.data)
            if self.kind == "diag" and self.data.kind == "exp" and self.data.data.kind == "vec" and isinstance(self.data.data.data[1], MX) and self.data.data.data[1].kind == "arange":
                return ("expm", self.data.data.data[0], {"n": 1})
            if self.kind == "prod" and len(self.data) == 3:
                v, d, vt = self.data
                if v.kind == "eigvecs" and not v.t and vt.kind == "eigvecs" and vt.t and v.data is vt.data and d.kind == "diag" and d.data.kind == "exp" and d.data.data.kind == "vec" \
                        and d.data.data.data[1].kind == "eigvals" and d.data.data.data[1].data is v.data and v.data.kind == "lin":
                    return ("expm", d.data.data.data[0], dict(v.data.data))
            return ("unrecognised", repr(self))

    class Site(Sym):
        def __init__(self, mat, shape):
            super().__init__("site")
            self.mat, self.shape_ = mat, shape

    def eigh(h, **k):
        return MX("eigvals", h), MX("eigvecs", h)

    def np_exp(v):
        if isinstance(v, MX):
            return MX("exp", v if v.kind == "vec" else MX("vec", (1, v)))
        return sp.exp(sp.sympify(v))
    npx = Sym("np", eye=lambda n, **k: MX("eye", n), exp=np_exp, diag=lambda v: MX("diag", v), arange=lambda n: MX("arange", n), iscomplex=lambda v: False,
              zeros=lambda *a, **k: Blob("zeros"), linalg=Sym("linalg", eigh=eigh))
    for scheme in (1, 4):
        for space in ("GS", "EX"):
            phs = [[Sym(f"ph{m_}{q}", pbond=3 + q, omega=[sp.Symbol(f"w0_{m_}{q}"), sp.Symbol(f"w1_{m_}{q}")], term10=sp.Symbol(f"g_{m_}{q}")) for q in range(2)] for m_ in range(2)]
            mols = [Sym(f"mol{m_}", ph_list=phs[m_]) for m_ in range(2)]

            class Model(Sym):
                def __iter__(self):
                    return iter(mols)
            model = Model("model", scheme=scheme, order={0: 0} if scheme == 4 else {}, mol_num=2, qn_size=1)
            if scheme == 4:
                model.__dict__["order"] = [0, 1, 2, 3, 4]      # the electronic site comes first
            appended, scaled = [], []

            class Op_(Sym):
                def __len__(self):
                    return len(appended)

                def append(self, m_):
                    appended.append(m_)

                def to_complex(self, inplace=False):
                    return self

                def scale(self, c, inplace=False):
                    scaled.append((c, inplace))
                    return self
            cls = lambda: Op_("mpo")    # noqa: E731
            it = SymInterp(src, None, {"np": npx, "xp": npx, "scipy": Sym("scipy", linalg=Sym("linalg", eigh=eigh)), "construct_ph_op_dict": lambda pbond: _PhOps(MX), "logger": Blob("logger")})
            it.max_depth = 10
            problems = []
            try:
                res = it.call_function(fi, [cls, model, x], {"space": space, "shift": shift})
            except SymRaise as e:
                res = None
                problems.append(f"raises {e}")
            if not problems:
                vib = [a for a in appended if isinstance(a, Site) and a.mat.canon()[0] != "identity"]
                ident = [a for a in appended if isinstance(a, Site) and a.mat.canon()[0] == "identity"]
                want_n_el = 2 if scheme < 4 else 1
                if len(vib) != 4 or len(ident) != want_n_el:
                    problems.append(f"{len(vib)} vibration sites and {len(ident)} identity sites; expected 4 and {want_n_el}")
                flat = [p for m_ in phs for p in m_]
                for ph, a in zip(flat, vib):
                    c = a.mat.canon()
                    want = {"n": ph.omega[0]} if space == "GS" else {"b^\\dagger b": ph.omega[0], "b^\\dagger + b": ph.term10}
                    if c[0] != "expm":
                        problems.append(f"{ph._name}: site matrix {c[1][:90]} is not of the form V diag(exp(c w)) V^T / diag(exp(c n))")
                        continue
                    gen = {k: sp.expand(v * c[1]) for k, v in c[2].items()}
                    wantg = {k: sp.expand(v * x) for k, v in want.items()}
                    if gen != wantg:
                        problems.append(f"{ph._name}: site matrix is the exponential of {gen}, expected {wantg}")
                    if a.shape_ != [1, ph.pbond, ph.pbond, 1]:
                        problems.append(f"{ph._name}: reshaped to {a.shape_}")
                tot = [sp.simplify(sp.log(sp.sympify(c)).expand(force=True)) for c, _ in scaled]
                if len(scaled) != 1 or sp.simplify(sp.sympify(scaled[0][0]) - sp.exp(shift * x)) != 0:
                    problems.append(f"overall scale factors {[str(c) for c, _ in scaled]}; expected exp(shift*x) once")
                if not isinstance(res, Op_):
                    problems.append("the propagator is not returned")
            chk.ob(rule, f"exact_propagator[scheme {scheme}, {space} space]", not problems, fi.where, problems[:3] or "expm(x h_site) on every vibration site, identity on electronic sites, one scale exp(shift x)",
                   "expm(x h_site) on every vibration site, identity on electronic sites, one scale exp(shift x)", line=fi.node.lineno,
                   detail="closed-form propagator exp(x (H + shift)): " + (problems[0] if problems else "") + " - exp(x h) = V exp(x w) V^T for h = V w V^T; V^T first gives the inverse rotation, another "
                          "generator or a second scale factor gives another temperature / normalisation")


class _PhOps:
    """stand-in for construct_ph_op_dict: operator symbols by name"""
    def __init__(self, MX):
        self.MX = MX

    def __getitem__(self, k):
        return self.MX("lin", {k: 1})


# ---------------------------------------------------------------------------------------------- one- and two-site reduced density matrices of a chain
def rdm_rule(chk, src, rule):
    """abstract run of Mps.calc_1site_rdm / calc_2site_rdm on a 4-site chain of abstract tensors (state form and density-operator form); the environments are stand-ins with
    axes (bra bond, operator bond of size one, ket bond).  For every site (pair) the result is the closed network <Psi| ... |Psi> with the physical index of the requested
    site(s) open: bra bonds meet conjugated tensors, ket bonds plain ones, every other physical (and every ancilla) index is traced with its own conjugate, and the
    matrix is indexed (ket indices, bra indices) in site order, as documented: rho[a, b] = <a|rho|b>."""
    from .. import ntensor as NTm
    from ..ntensor import NT, Leg
    n = 4
    bonds, ph, qh = [41, 2, 3, 5, 43], [7, 11, 13, 17], [19, 23, 29, 31]      # abstract sizes: also the boundary bonds are non-trivial here
    resolve = class_resolver(src, {"Mps": MPS})
    for rank in (3, 4):
        for qual in ("Mps.calc_1site_rdm", "Mps.calc_2site_rdm"):
            fi = src.func(MPS, qual)
            edges = []

            def site(i):
                legs = [Leg(("S", i, 0), bonds[i]), Leg(("S", i, 1), ph[i])] + ([Leg(("S", i, 2), qh[i])] if rank == 4 else []) + [Leg(("S", i, rank - 1), bonds[i + 1])]
                return NT(f"S{i}", legs, edges)
            me = Chain(n, True, cls="Mps")
            me.sites = [site(i) for i in range(n)]
            me.model = Sym("model")

            class Env(Sym):
                """environment of the identity operator: GetLR(domain, idx, ...) = everything left of site idx+1 / right of site idx-1, axes (bra, operator, ket)"""
                def GetLR(self, domain, idx, mps=None, mpo=None, itensor=None, method=None):
                    if domain == "L":
                        k = idx + 1          # the bond between site idx and idx+1
                        ident = ("S", k, 0) if k < n else ("S", n - 1, rank - 1)
                    else:
                        k = idx              # the bond between site idx-1 and idx
                        ident = ("S", k - 1, rank - 1) if k > 0 else ("S", 0, 0)
                    d = bonds[k] if 0 <= k <= n else 1
                    # the environment's open bonds are the partners of the site's bonds: joining them is recorded as an edge with the site's own bond
                    return NT(f"{domain}env{idx}", [Leg(("E", domain, k, "bra"), d, conj=True), Leg(("E", domain, k, "op"), 1), Leg(("E", domain, k, "ket"), d)], edges)

                def read(self, domain, idx):
                    return self.GetLR(domain, idx)
            npx = NTm.np_namespace()
            it = SymInterp(src, resolve, {"np": npx, "xp": npx, "tensordot": NTm.tensordot, "moveaxis": NTm.moveaxis, "Environ": lambda *a, **k: Env("environ"), "asnumpy": lambda x: x, "asxp": lambda x: x,
                                          "Mpo": Sym("Mpo", identity=lambda m: Sym("identity")), "logger": Blob("logger"), "type": lambda x: type(x), "list": list, "tuple": tuple, "int": int})
            it.max_depth = 10
            problems = []
            try:
                res = it.call_function(fi, [me])
            except (ValueError, SymRaise) as e:
                res = None
                problems.append(f"{type(e).__name__}: {e}")
            if res is not None and not isinstance(res, dict):
                problems.append(f"the result is {res!r}, expected a dict")
            if isinstance(res, dict):
                want_keys = list(range(n)) if qual.endswith("1site_rdm") else [(i, j) for i in range(n) for j in range(i + 1, n)]
                if sorted(res.keys()) != want_keys:
                    problems.append(f"keys {sorted(res.keys())[:6]}; expected {want_keys[:6]}")
                for key in want_keys:
                    t = res.get(key)
                    if not isinstance(t, NT):
                        continue
                    sites_ = [key] if isinstance(key, int) else list(key)
                    if len(sites_) == 1:
                        want = [(("S", sites_[0], 1), False), (("S", sites_[0], 1), True)]
                        got = [(l.key(), l.conj) for l in t.legs]
                    else:
                        want = [(("M", ("S", sites_[0], 1), ("S", sites_[1], 1)), False), (("M", ("S", sites_[0], 1), ("S", sites_[1], 1)), True)]
                        got = [(l.key(), l.conj) for l in t.legs]
                    if got != want:
                        problems.append(f"rdm[{key}] has axes {t.legs}; expected (ket index(es) of site(s) {sites_}, then the bra index(es))")
                # the contractions: every edge joins conj with conj / plain with plain on bonds, and a physical or ancilla index with its own conjugate
                for a, ca, b, cb in edges:
                    ea, eb = a[0] == "E", b[0] == "E"
                    if ea or eb:
                        env, oth, ce, co = (a, b, ca, cb) if ea else (b, a, cb, ca)
                        if env[3] == "op":
                            problems.append(f"the operator bond of an environment is contracted with {oth}")
                        elif (env[3] == "bra") != co or oth[0] != "S" or oth[2] not in (0, rank - 1):
                            problems.append(f"environment axis {env} joined with {oth}{'*' if co else ''}: bra bonds meet conjugated tensors, ket bonds plain ones")
                        elif (env[1] == "L") != (oth[2] == 0) or env[2] != (oth[1] if oth[2] == 0 else oth[1] + 1):
                            problems.append(f"environment axis {env} joined with {oth}: not the bond next to it")
                    elif a[0] == "S" and b[0] == "S":
                        if a[1] == b[1]:
                            if a[2] != b[2] or ca == cb or a[2] in (0, rank - 1):
                                problems.append(f"{a}{'*' if ca else ''} - {b}{'*' if cb else ''}: a site may only be joined to its own conjugate over one physical / ancilla axis")
                        elif ca != cb or abs(a[1] - b[1]) != 1 or {a[2], b[2]} != {0, rank - 1}:
                            problems.append(f"{a}{'*' if ca else ''} - {b}{'*' if cb else ''}: not a (right bond, left bond) pair of neighbouring sites of one layer")
            chk.ob(rule, f"{qual.split('.')[1]} [rank {rank} sites]", not problems, fi.where, sorted(set(problems))[:3] or "closed networks, (ket, bra) indexing", "closed networks, (ket, bra) indexing", line=fi.node.lineno,
                   detail=f"{qual}: " + (problems[0] if problems else "") + " - a conjugated index in the ket slot gives the transpose (complex conjugate) of the density matrix, a bond joined across "
                          "layers or a skipped physical index a wrong partial trace; both are invisible for real states / adjacent sites")


# ---------------------------------------------------------------------------------------------- the symmetry-blocked decomposition
def svd_qn_rule(chk, src, rule):
    """abstract run of svd_qn (blockappend / blockrecover from source) on a 4 x 3 coefficient matrix with concrete row / column labels and *symbolic* block contents: a matrix is a
    list of column provenances (which factor of which sector's block, placed on which rows).  Economic SVD: column k of u and of v come from the same singular triple, the
    triples are in descending order of their singular values across sectors, u's column lives on the rows of its sector and carries that sector's label, v's column lives on the
    complementary rows with label total - sector; su == sv.  Full matrices and QR: every kept column on the rows of its sector with the sector's label, no sorting."""
    SV = "renormalizer/mps/svd_qn.py"
    fi = src.func(SV, "svd_qn")
    lq, rq_, tot = [0, 1, 0, 1], [0, 1, 1], 1            # row labels, column labels, total
    svals = {0: [5, 1], 1: [4, 2, 3]}                      # singular values per sector (sector 0: rows {0,2} x cols {1,2}; sector 1: rows {1,3} x cols {0})

    class IArr(Sym):
        """integer index array (1-d list or 2-d grid)"""
        def __init__(self, v):
            super().__init__("idx")
            self.v = v

        def __mul__(self, c):
            return IArr([x * int(c) for x in self.v])

        __rmul__ = __mul__

        def reshape(self, *shape):
            shape = list(shape[0]) if len(shape) == 1 and isinstance(shape[0], (list, tuple)) else list(shape)
            if shape == [-1, 1]:
                return IArr([[x] for x in self.v])
            raise AnalysisError(f"reshape{tuple(shape)} of an index array")

        def __add__(self, o):
            if self.v and isinstance(self.v[0], list) and isinstance(o, IArr):
                return IArr([[r[0] + c for c in o.v] for r in self.v])
            raise AnalysisError("sum of index arrays outside the fragment")

        def __len__(self):
            return len(self.v)

        def __iter__(self):
            return iter(self.v)

        def __getitem__(self, k):
            r = self.v[k]
            return IArr(r) if isinstance(r, list) else r

    class LArr(Sym):
        """label array, rows of q components"""
        def __init__(self, rows, shape=None):
            super().__init__("labels")
            self.rows = [list(r) for r in rows]
            self.shape = shape or (len(rows), len(rows[0]) if rows else 1)
            self.ndim = len(self.shape)

        def reshape(self, *shape):
            return LArr(self.rows)

        def __iter__(self):
            return iter(self.rows)

        def __len__(self):
            return len(self.rows)

        def __sub__(self, o):
            return LArr([[a - b for a, b in zip(self.rows[0], list(o))]])

        def __getitem__(self, k):
            return self.rows[k]

    class Vec(Sym):
        """1-d numeric array"""
        def __init__(self, v):
            super().__init__("vec")
            self.v, self.shape, self.ndim = list(v), (len(v),), 1

        def __len__(self):
            return len(self.v)

        def __getitem__(self, k):
            if isinstance(k, IArr):
                return Vec([self.v[i] for i in k.v])
            if isinstance(k, slice):
                return Vec(self.v[k])
            return self.v[k]

        def tolist(self):
            return list(self.v)

        def __neg__(self):
            return Vec([-x for x in self.v])

        def __mul__(self, o):
            if isinstance(o, (int, float)):
                return Vec([x * o for x in self.v])
            raise AnalysisError(f"vector * {o!r}")

        __rmul__ = __mul__

    class PArr(Sym):
        """matrix as a list of column provenances (tag, rows it occupies or None for 'the rows of its block')"""
        def __init__(self, nrows, cols):
            super().__init__("matrix")
            self.nrows, self.cols = nrows, list(cols)
            self.dtype = "dtype"

        @property
        def shape(self):
            return (self.nrows, len(self.cols))

        @property
        def T(self):
            return PArr(self.nrows, [("T",) + c for c in self.cols])      # transposed factor: columns <-> rows of the stand-in (only used as v = vt.T)

        def __getitem__(self, k):
            if isinstance(k, tuple) and len(k) == 2 and k[0] == slice(None):
                if isinstance(k[1], slice):
                    return PArr(self.nrows, self.cols[k[1]])
                if isinstance(k[1], IArr):
                    return PArr(self.nrows, [self.cols[i] for i in k[1].v])
            raise AnalysisError(f"index {k!r} of a column-provenance matrix")

        def __setitem__(self, k, val):
            if isinstance(k, tuple) and len(k) == 2 and isinstance(k[0], IArr) and k[1] == slice(None) and isinstance(val, PArr) and len(val.cols) == len(self.cols):
                self.cols = [c + (tuple(k[0].v),) for c in val.cols]
                return
            raise AnalysisError("assignment into a column-provenance matrix outside the fragment")

    class Coef(Sym):
        def __init__(self):
            super().__init__("coef")
            self.shape = (4, 3)

        def reshape(self, *a):
            return self

        def ravel(self):
            return self

        def take(self, grid):
            rows = sorted({g // 3 for r in grid.v for g in r})
            cols = sorted({g % 3 for r in grid.v for g in r})
            return Block(rows, cols)

    tiny = [False]

    class Mag(Sym):
        """magnitude of the entries of a block (np.abs / max / norm ...): a comparison with anything has the scripted outcome `the block is tiny`"""
        def symattr(self, attr):
            return lambda *a, **k: Mag(f"{self._name}.{attr}()")

        def __lt__(self, o):
            return tiny[0]

        __le__ = __lt__

        def __gt__(self, o):
            return not tiny[0]

        __ge__ = __gt__

        def __mul__(self, o):
            return self

        __rmul__ = __truediv__ = __mul__

    class Block(Sym):
        def __init__(self, rows, cols):
            super().__init__(f"block{rows}x{cols}")
            self.rows, self.cols, self.shape = rows, cols, (len(rows), len(cols))
            self.dtype = "dtype"

        def sector(self):
            return lq[self.rows[0]]

        def __abs__(self):
            return Mag(f"abs({self._name})")

    def mask(qn, n):
        n = list(n.rows[0]) if isinstance(n, LArr) else list(n)
        return [list(r) == n for r in qn.rows]

    def where(m):
        return (IArr([i for i, x in enumerate(m) if x]),)

    def svd(block, full_matrices=True, opt_full_matrices=True):
        s_ = block.sector()
        d = min(block.shape)
        nu, nv = (block.shape[0], block.shape[1]) if full_matrices else (d, d)
        u = PArr(block.shape[0], [("U", s_, j) for j in range(nu)])
        vt = PArr(block.shape[1], [("V", s_, j) for j in range(nv)])
        return u, Vec(svals[s_][:d]), Sym("vt", T=vt)

    def qr(block, mode="full"):
        s_ = block.sector()
        d = min(block.shape)
        return PArr(block.shape[0], [("Q", s_, j) for j in range(block.shape[0] if mode == "full" else d)]), Sym("r", T=PArr(block.shape[1], [("R", s_, j) for j in range(d if mode != "full" else block.shape[0])]))

    def concatenate(xs, axis=0):
        xs = list(xs)
        if xs and isinstance(xs[0], PArr):
            if axis != 1:
                raise AnalysisError("matrices concatenated along the rows")
            return PArr(xs[0].nrows, [c for x in xs for c in x.cols])
        return Vec([v for x in xs for v in (x.v if isinstance(x, Vec) else x)])

    def argsort(v):
        return IArr(sorted(range(len(v.v)), key=lambda i: v.v[i]))
    IArr.__getitem__ = lambda self, k: IArr(self.v[k]) if isinstance(k, slice) else (IArr(self.v[k]) if isinstance(self.v[k], list) else self.v[k])

    class LList(Sym):
        def __init__(self, rows):
            super().__init__("labellist")
            self.rows = rows

        def __getitem__(self, k):
            return LList([self.rows[i] for i in k.v]) if isinstance(k, IArr) else self.rows[k]

        def tolist(self):
            return list(self.rows)
    npx = OpenSym("np", make=lambda t: Blob(t), prod=lambda sh: 1, where=where, zeros=lambda shape, dtype=None: PArr(shape[0], [("zero",)] * shape[1]) if isinstance(shape, (list, tuple)) else Vec([0] * int(shape)),
                  concatenate=concatenate, allclose=lambda a, b, **k: (a.v == b.v) if isinstance(a, Vec) else True, argsort=argsort, flip=lambda x, axis=None: IArr(x.v[::-1]),
                  array=lambda x, **k: LList(list(x)) if isinstance(x, list) else x, flatnonzero=lambda m: where(m)[0],
                  abs=lambda x: Mag(f"abs({getattr(x, '_name', x)})") if isinstance(x, (Block, Mag)) else abs(x), absolute=lambda x: Mag("abs"), finfo=lambda *a: Sym("finfo", eps=1e-16, tiny=1e-300),
                  linalg=Sym("linalg", norm=lambda x, *a, **k: Mag("norm")), max=lambda x, *a, **k: x if isinstance(x, Mag) else max(x), amax=lambda x, *a, **k: x)
    svals_plain = dict(svals)
    for mode, kw in (("economic SVD", {"full_matrices": False}), ("economic SVD, equal singular values in different sectors", {"full_matrices": False}), ("full SVD", {"full_matrices": True}),
                     ("QR, system L", {"QR": True, "system": "L", "full_matrices": False})):
        svals.clear()
        svals.update({0: [5, 3], 1: [3, 2, 1]} if "equal singular values" in mode else svals_plain)
        it = SymInterp(src, None, {"np": npx, "get_qn_mask": mask, "optimized_svd": svd, "scipy": Sym("scipy", linalg=Sym("linalg", qr=qr, rq=qr)), "set": lambda xs: sorted(set(xs)), "logger": Blob("logger")})
        it.max_depth = 10
        problems = []
        tiny[0] = False
        try:
            res = it.call_function(fi, [Coef(), LArr([[x] for x in lq], (4, 1)), LArr([[x] for x in rq_], (3, 1)), LArr([[tot]], (1,))], kw)
        except (ValueError, SymRaise) as e:
            res = None
            problems.append(f"{type(e).__name__}: {e}")
        # the same run with every magnitude test of block entries answering `tiny`: a blocked decomposition is a function of the block structure alone, the scale of the
        # entries (the scalar prefactor of the state may live in them) must not change which blocks are decomposed
        if res is not None:
            def sig(r):
                return [[c for c in x.cols] if isinstance(x, PArr) else ([lab_(q) for q in x] if not isinstance(x, Vec) else x.v) for x in r]

            def lab_(x):
                return list(x.rows[0]) if isinstance(x, LArr) else list(x)
            tiny[0] = True
            try:
                res2 = SymInterp(src, None, dict(it.builtins)).call_function(fi, [Coef(), LArr([[x] for x in lq], (4, 1)), LArr([[x] for x in rq_], (3, 1)), LArr([[tot]], (1,))], kw)
                if sig(res2) != sig(res):
                    problems.append("the result depends on the magnitude of the block entries (a block with small entries is skipped or treated differently): the decomposition is not "
                                    "invariant under the scalar prefactor of the tensor")
            except (ValueError, SymRaise) as e:
                problems.append(f"with small block entries: {type(e).__name__}: {e}")
            finally:
                tiny[0] = False
        if res is not None:
            if kw.get("QR"):
                u, ql, v, qr_l = res
                su = sv = None
            else:
                u, su, ql, v, sv, qr_l = res
            rows_of = {0: (0, 2), 1: (1, 3)}
            cols_of = {0: (1, 2), 1: (0,)}

            def lab(x):
                return list(x.rows[0]) if isinstance(x, LArr) else list(x)
            ucols, vcols = u.cols, v.cols
            if len(ucols) != len(list(ql)) or len(vcols) != len(list(qr_l)):
                problems.append(f"{len(ucols)} columns of u with {len(list(ql))} labels, {len(vcols)} columns of v with {len(list(qr_l))} labels")
            for k_, c in enumerate(ucols):
                if c[0] == "zero":
                    continue
                tag, sec, j, rows = c[0], c[1], c[2], c[-1]
                if tuple(rows) != rows_of[sec] or lab(list(ql)[k_]) != [sec]:
                    problems.append(f"column {k_} of u: block of sector {sec} placed on rows {rows} with label {list(ql)[k_]}")
            for k_, c in enumerate(vcols):
                c2 = c[1:] if c[0] == "T" else c
                tag, sec, j, rows = c2[0], c2[1], c2[2], c[-1]
                if tuple(rows) != cols_of[sec] or lab(list(qr_l)[k_]) != [tot - sec]:
                    problems.append(f"column {k_} of v: block of sector {sec} placed on rows {rows} with label {list(qr_l)[k_]}, expected rows {cols_of[sec]} and label {[tot - sec]}")
            if mode.startswith("economic SVD") and not problems:
                trip_u = [(c[1], c[2]) for c in ucols]
                trip_v = [((c[1:] if c[0] == "T" else c)[1], (c[1:] if c[0] == "T" else c)[2]) for c in vcols]
                vals = [svals[s_][j] for s_, j in trip_u]
                if trip_u != trip_v:
                    problems.append(f"column k of u and of v belong to different singular triples: {trip_u} vs {trip_v}")
                if vals != sorted(vals, reverse=True) or su.v != vals or sv.v != vals:
                    problems.append(f"singular values returned as {su.v} / {sv.v} for columns with values {vals}: not one descending order shared by u, v, s and the labels")
        chk.ob(rule, f"svd_qn[{mode}]", not problems, fi.where, problems[:3] or "columns on the rows of their sector, labels of their sector, one descending order", "columns on the rows of their sector, labels of their sector, one descending order",
               line=fi.node.lineno, detail="svd_qn: " + (problems[0] if problems else "") + " - vectors, singular values and labels that are not permuted together no longer belong to each other: a later prefix truncation keeps the wrong vectors")


# ---------------------------------------------------------------------------------------------- overlap (transfer) matrices of the tangent-space equations
def transfer_rule(chk, src, rule):
    """abstract run of transferMat for both directions, site ranks 3 and 4, with and without a separate bra: the running matrix (bra bond, ket bond) is joined with the
    conjugated site over the bra bond on the near side and with the plain site over the ket bond, every physical (and ancilla) index of the site is contracted with the
    same index of its conjugate, and the result is again (bra bond, ket bond) - of the far side"""
    from .. import ntensor as NTm
    from ..ntensor import NT, Leg
    fi = src.func(MPS, "transferMat")
    for rank in (3, 4):
        for dom in ("L", "R"):
            for separate_bra in (False, True):
                edges = []
                dims = [2, 3, 5, 7][:rank - 1] + [11]

                def site(tag, conj=False):
                    return NT(tag, [Leg(("S", ax), d, conj=conj) for ax, d in enumerate(dims)], edges)

                class Ch(Sym):
                    def __init__(self, t):
                        super().__init__("chain")
                        self.t = t

                    def __getitem__(self, k):
                        return self.t
                near, far = (0, rank - 1) if dom == "L" else (rank - 1, 0)
                val = NT("val", [Leg(("V", "bra"), dims[near], conj=True), Leg(("V", "ket"), dims[near])], edges)
                ket = Ch(site("ket"))
                bra = Ch(site("bra", conj=True)) if separate_bra else None
                npx = NTm.np_namespace()
                it = SymInterp(src, None, {"np": npx, "xp": npx, "tensordot": NTm.tensordot, "moveaxis": NTm.moveaxis, "asnumpy": lambda x: x, "asxp": lambda x: x, "logger": Blob("logger")})
                it.check_asserts = True
                it.max_depth = 8
                problems = []
                try:
                    res = it.call_function(fi, [ket, bra, dom, 1, val])
                except (ValueError, SymRaise) as e:
                    res = None
                    problems.append(f"{type(e).__name__}: {e}")
                if res is not None:
                    got = [(l.key(), l.conj) for l in res.legs] if isinstance(res, NT) else repr(res)
                    want = [(("S", far), True), (("S", far), False)]
                    if got != want:
                        problems.append(f"result axes {res.legs if isinstance(res, NT) else res}; expected (bra bond, ket bond) of the far side")
                    ge = {frozenset([(a, ca), (b, cb)]) for a, ca, b, cb in edges}
                    we = {frozenset([(("V", "bra"), True), (("S", near), True)]), frozenset([(("V", "ket"), False), (("S", near), False)])} | \
                         {frozenset([(("S", ax), True), (("S", ax), False)]) for ax in range(1, rank - 1)}
                    if ge != we:
                        problems.append(f"contractions {sorted(map(sorted, ge))}; expected {sorted(map(sorted, we))}")
                chk.ob(rule, f"transferMat[{dom}, rank {rank}, {'separate bra' if separate_bra else 'bra = conjugated ket'}]", not problems, fi.where, problems[:2] or "canonical <bra|ket> transfer step",
                       "canonical <bra|ket> transfer step", line=fi.node.lineno, detail="overlap matrix kernel: " + (problems[0] if problems else "") + " - a transposed overlap matrix is only wrong for complex states")


# ---------------------------------------------------------------------------------------------- propagate-and-compress evolvers in a free algebra
class GQ:
    """exact complex rational"""
    __slots__ = ("re", "im")

    def __init__(self, re=0, im=0):
        from fractions import Fraction as Fr
        self.re, self.im = Fr(re), Fr(im)

    @staticmethod
    def of(x):
        from fractions import Fraction as Fr
        if isinstance(x, GQ):
            return x
        if isinstance(x, complex):
            return GQ(Fr(repr(x.real)) if x.real else 0, Fr(repr(x.imag)) if x.imag else 0)
        if isinstance(x, float):
            return GQ(Fr(repr(x)))
        return GQ(Fr(x))

    def __add__(self, o):
        o = GQ.of(o)
        return GQ(self.re + o.re, self.im + o.im)

    __radd__ = __add__

    def __sub__(self, o):
        o = GQ.of(o)
        return GQ(self.re - o.re, self.im - o.im)

    def __mul__(self, o):
        o = GQ.of(o)
        return GQ(self.re * o.re - self.im * o.im, self.re * o.im + self.im * o.re)

    __rmul__ = __mul__

    def __neg__(self):
        return GQ(-self.re, -self.im)

    def __eq__(self, o):
        o = GQ.of(o)
        return self.re == o.re and self.im == o.im

    def __hash__(self):
        return hash((self.re, self.im))

    def __bool__(self):
        return bool(self.re or self.im)

    def __repr__(self):
        return f"({self.re}+{self.im}j)"


def pc_evolver_rule(chk, src, rule, tableaux, rule_adaptive=None, rule_error=None, rule_compress=None):
    """abstract run of the three propagate-and-compress evolvers on states of a free algebra: a state is a linear combination of words H(t_k)...H(t_1) y with exact
    (complex rational) coefficients, an operator application prepends its time, scale / add / compressed_sum are the algebra's operations, compression is the identity.
    The step T is a generic rational, so that the times t0 + c_i tau of different stages and sub-steps are distinct letters.
    (1) the general Runge-Kutta evolver, non-adaptive: one step equals the Runge-Kutta formula of its tableau, for every tableau; adaptive with scripted error estimates
    (accepted T/3, rejected trial, accepted rest): the result is the composition of the accepted steps, each started at the time already covered;
    (2) the hard-coded RK4 evolver equals the formula of the classical tableau; (3) the Taylor evolver equals sum_k (-i dt)^k c_k H^k y (symbolic c_k).
    tableaux = {method: (a, b, c, stages, orders)} as proved by C19."""
    import sympy as sp
    import functools
    from fractions import Fraction as Fr
    T = Fr(7, 5)
    MI = GQ(0, -1)

    def lin(d):
        return {k: v for k, v in d.items() if v}

    class St(Sym):
        """state of the free algebra + a typestate bit: `compressed` = the bond dimensions are back under the configured limit (sums are not, compressed sums / operator
        applications / compress() are; scaling and copying keep the bit)"""
        def __init__(self, terms, cfg, compressed=True):
            super().__init__("state")
            self.terms, self.evolve_config, self.compress_config = lin(terms), cfg, Sym("cc", copy=lambda: Sym("cc2", criteria="c"), criteria="c")
            self.compressed = compressed

        def scale(self, c, inplace=False):
            c = GQ.of(c)
            t = lin({k: v * c for k, v in self.terms.items()})
            if inplace:
                self.terms = t
                return self
            return St(t, self.evolve_config, self.compressed)

        def add(self, o):
            return St({k: self.terms.get(k, GQ()) + o.terms.get(k, GQ()) for k in set(self.terms) | set(o.terms)}, self.evolve_config, False)

        __add__ = add

        def canonicalise(self, *a, **k):
            return self

        def compress(self, *a, **k):
            self.compressed = True
            return self

        def copy(self):
            return St(dict(self.terms), self.evolve_config, self.compressed)

        @property
        def norm(self):
            return NormOf(self.terms, "norm")

        @property
        def mp_norm(self):
            return NormOf(self.terms, "mp_norm")

    class NormOf:
        """the norm of a state of the algebra, by kind (the full norm, or the norm without the scalar prefactor)"""
        def __init__(self, terms, kind):
            self.terms, self.kind = dict(terms), kind

        def __truediv__(self, o):
            if not isinstance(o, NormOf):
                raise AnalysisError("pc evolver: a norm divided by something that is not a norm")
            script["ratios"].append((self, o))
            return Ratio()

    class Ratio:
        """the relative error estimate of a trial step; the step-size controller sees the scripted verdict"""
        def __add__(self, o):
            return self

        __radd__ = __add__

        def __rtruediv__(self, o):
            if not script["errors"]:
                raise AnalysisError("pc evolver: more trial steps than scripted")
            return 1.0 if script["errors"].pop(0) == 0 else 1e-12

    class OpAt(Sym):
        def __init__(self, t):
            super().__init__(f"H({t})")
            self.t = Fr(t)

        def contract(self, st, *a, **k):
            return St({(self.t,) + w: v for w, v in st.terms.items()}, st.evolve_config, True)

        apply = contract
    script = {"errors": [], "steps": [], "ratios": []}

    def csum(lst, *a, **k):
        lst = list(lst)
        out = lst[0]
        for x in lst[1:]:
            out = out.add(x)
        return St(dict(out.terms), out.evolve_config, True)

    def rk_step(a, b_row, c, stages, y_terms, tau, t0, b_err=None):
        """the Runge-Kutta formula in the free algebra"""
        ks = []
        for i in range(stages):
            arg = dict(y_terms)
            for j in range(i):
                if a[i][j] != 0:
                    for w, v in ks[j].items():
                        arg[w] = arg.get(w, GQ()) + v * (Fr(a[i][j]) * tau)
            ti = Fr(c[i]) * tau + t0
            ks.append(lin({(ti,) + w: MI * v for w, v in lin(arg).items()}))
        out = dict(y_terms)
        for i in range(stages):
            for w, v in ks[i].items():
                out[w] = out.get(w, GQ()) + v * (Fr(b_row[i]) * tau)
        if b_err is not None:
            err = {}
            for i in range(stages):
                d = Fr(b_row[i]) - Fr(b_err[i])
                if d:
                    for w, v in ks[i].items():
                        err[w] = err.get(w, GQ()) + v * (d * tau)
            return lin(out), lin(err)
        return lin(out)
    resolve = class_resolver(src, {"Mps": MPS})
    from .C19 import XArr

    def make_it(extra=None):
        npx = OpenSym("np", make=lambda t: Blob(t), allclose=lambda x, y, **k: x == y)
        b_ = {"np": npx, "xp": npx, "compressed_sum": csum, "logger": Blob("logger"), "reduce": functools.reduce, "isinstance": lambda x, t: False,
              "callable": callable, "Mpo": "Mpo", "min_abs": lambda x, y: script["steps"].pop(0)(y) if script["steps"] else y, "CompressCriteria": Sym("CompressCriteria", threshold="t", both="b", fixed="f")}
        b_.update(extra or {})
        it = SymInterp(src, resolve, b_)
        it.max_depth = 12
        return it
    y0 = {(): GQ(1)}
    # ---- (1) general RK evolver, every tableau, one non-adaptive step
    fi = src.func(MPS, "Mps._evolve_prop_and_compress_tdrk")
    for m, (a, b, c, stages, orders) in tableaux.items():
        rk = Sym("rk_config", tableau=(XArr([list(r) for r in a]), XArr([list(r) for r in b]), XArr(list(c))), stage=stages, order=tuple(orders), method=m)
        cfg = Sym("evolve_config", rk_config=rk, adaptive=False, check_valid_dt=lambda dt: None, guess_dt=T, adaptive_rtol=Fr(1, 1000))
        me = St(y0, cfg)
        me._cls = "Mps"
        script.update(errors=[], steps=[])
        res = make_it().call_function(fi, [me, (lambda t, *a_, **k_: OpAt(t)), T])
        want = rk_step(a, b[0], c, stages, y0, T, 0)
        if rule_compress:
            chk.ob(rule_compress, f"general RK evolver[{m}] returns a compressed state", isinstance(res, St) and res.compressed, fi.where, "sum not compressed" if isinstance(res, St) and not res.compressed else "compressed",
                   "value produced by compressed_sum / compress / contract", line=fi.node.lineno, detail="the evolver returns a state that was summed but not compressed: bond dimensions exceed the configured limit")
        ok = isinstance(res, St) and res.terms == want
        chk.ob(rule, f"general RK evolver[{m}]: one step = the Runge-Kutta formula of the tableau", ok, fi.where, "differs from the formula" if not ok else "equal", "equal", line=fi.node.lineno,
               detail=f"tableau {m!r}: the state after one non-adaptive step is not y + tau sum_i b_i k_i with k_i = -i H(t0 + c_i tau)(y + tau sum_j a_ij k_j)")
    # ---- adaptive: accepted half step, one rejected trial, accepted rest (embedded pairs only)
    for m, (a, b, c, stages, orders) in tableaux.items():
        if len(orders) != 2:
            continue
        rk = Sym("rk_config", tableau=(XArr([list(r) for r in a]), XArr([list(r) for r in b]), XArr(list(c))), stage=stages, order=tuple(orders), method=m)
        cfg = Sym("evolve_config", rk_config=rk, adaptive=True, check_valid_dt=lambda dt: None, guess_dt=T / 3, adaptive_rtol=Fr(1, 1000))
        me = St(y0, cfg)
        me._cls = "Mps"
        # step sizes offered by min_abs(guess, remaining): T/3 (accepted), the remaining 2T/3 (rejected: huge error), the remaining 2T/3 again (accepted)
        script.update(errors=[0, 10 ** 6, 0], steps=[lambda rem: T / 3, lambda rem: rem, lambda rem: rem], ratios=[])
        res = make_it().call_function(fi, [me, (lambda t, *a_, **k_: OpAt(t)), T])
        w1, e1 = rk_step(a, b[0], c, stages, y0, T / 3, 0, b[1])
        w2, e2 = rk_step(a, b[0], c, stages, w1, 2 * T / 3, T / 3, b[1])
        ok = isinstance(res, St) and res.terms == w2 and not script["steps"]
        want_r = [(e1, w1), (e2, w2), (e2, w2)]
        got_r = script["ratios"]
        ok_r = len(got_r) == 3 and all(n.kind == "norm" and d.kind == "norm" and lin(n.terms) == wn and lin(d.terms) == wd for (n, d), (wn, wd) in zip(got_r, want_r))
        chk.ob(rule_error or rule, f"general RK evolver[{m}], adaptive: error estimate of every trial", ok_r, fi.where,
               [(n.kind, d.kind, lin(n.terms) == wn, lin(d.terms) == wd) for (n, d), (wn, wd) in zip(got_r, want_r)] if not ok_r else "equal", "equal", line=fi.node.lineno,
               detail="the relative error of a trial step is ||tau sum_i (b_i - b*_i) k_i|| / ||trial state||, both full norms (prefactor included)")
        chk.ob(rule_adaptive or rule, f"general RK evolver[{m}], adaptive: accepted T/3, rejected trial, accepted 2T/3", ok, fi.where, "differs from the composition of the accepted steps" if not ok else "equal", "equal",
               line=fi.node.lineno, detail="an adaptive run must be the composition of its accepted sub-steps, each evaluated at the time already covered (t0 + c_i tau) and started from the last "
                                           "accepted state; a rejected trial must leave no trace")
    # ---- (2) the hard-coded RK4 evolver
    f4 = src.func(MPS, "Mps._evolve_prop_and_compress_tdrk4")
    if "C_RK4" not in tableaux:
        raise AnalysisError("tableau C_RK4 not available for the RK4 evolver")
    a, b, c, stages, orders = tableaux["C_RK4"]
    me = St(y0, Sym("evolve_config", adaptive=False))
    me._cls = "Mps"
    it4 = make_it()
    it4.exact = True
    res = it4.call_function(f4, [me, (lambda t, *a_, **k_: OpAt(t)), T])
    if rule_compress:
        chk.ob(rule_compress, "RK4 evolver returns a compressed state", isinstance(res, St) and res.compressed, f4.where, "sum not compressed" if isinstance(res, St) and not res.compressed else "compressed",
               "value produced by compressed_sum / compress / contract", line=f4.node.lineno, detail="the evolver returns a state that was summed but not compressed: bond dimensions exceed the configured limit")
    ok = isinstance(res, St) and res.terms == rk_step(a, b[0], c, stages, y0, T, 0)
    chk.ob(rule, "RK4 evolver = Runge-Kutta formula of the classical tableau", ok, f4.where, "differs" if not ok else "equal", "equal", line=f4.node.lineno,
           detail="stage times c_i dt, stage increments a_{i,i-1} dt and weights b_i dt of the hard-coded evolver must be those of C_RK4 (proved by C19)")
    # ---- (3) Taylor evolver (symbolic coefficients: small)
    ft = src.func(MPS, "Mps._evolve_prop_and_compress")
    order = 4
    cs = [sp.Symbol(f"c{k}") for k in range(order + 1)]
    Ts = sp.Symbol("T", positive=True)

    class StS(Sym):
        def __init__(self, terms, cfg):
            super().__init__("state")
            self.terms, self.evolve_config, self.compress_config = {k: sp.expand(v) for k, v in terms.items() if sp.expand(v) != 0}, cfg, Sym("cc", copy=lambda: Sym("cc2", criteria="c"), criteria="c")

        def scale(self, c_, inplace=False):
            t = {k: v * sp.sympify(c_) for k, v in self.terms.items()}
            if inplace:
                self.terms = {k: sp.expand(v) for k, v in t.items()}
                return self
            return StS(t, self.evolve_config)

        def add(self, o):
            return StS({k: self.terms.get(k, 0) + o.terms.get(k, 0) for k in set(self.terms) | set(o.terms)}, self.evolve_config)

        __add__ = add

        def canonicalise(self, *a_, **k_):
            return self

        def compress(self, *a_, **k_):
            return self

        def copy(self):
            return StS(dict(self.terms), self.evolve_config)
    cfg = Sym("evolve_config", taylor_config=Sym("taylor", coeff=cs), adaptive=False, check_valid_dt=lambda dt: None)
    me = StS({0: sp.Integer(1)}, cfg)
    me._cls = "Mps"
    hop = Sym("H", contract=lambda st, *a_, **k_: StS({k + 1: v for k, v in st.terms.items()}, st.evolve_config))

    def csum_s(lst, *a_, **k_):
        lst = list(lst)
        out = lst[0]
        for x in lst[1:]:
            out = out.add(x)
        return out
    res = make_it({"compressed_sum": csum_s}).call_function(ft, [me, hop, Ts])
    want = {k: sp.expand((-sp.I * Ts) ** k * cs[k]) for k in range(order + 1)}
    ok = isinstance(res, StS) and set(res.terms) == set(want) and all(sp.simplify(res.terms[k] - want[k]) == 0 for k in want)
    chk.ob(rule, "Taylor evolver = sum_k (-i dt)^k c_k H^k y", ok, ft.where, {str(k): str(v) for k, v in getattr(res, "terms", {}).items()} if not ok else "equal", "equal", line=ft.node.lineno,
           detail="term k of the Taylor propagator must be scaled by (-i dt)^k times the k-th coefficient of the configured expansion")


def canonical_typestate_rule(chk, src, rule_check, rule_ensure):
    """abstract runs on chains whose sites carry an orthogonality state ('L' left-orthonormal, 'R' right-orthonormal, 'C' centre, '?' unknown):
    (1) check_left_canonical / check_right_canonical are run on every chain of 2, 3, 5 sites with at most one site not in the wanted state (and the far end site in either state):
        the verdict must be the definition - sites 0..n-2 left-orthonormal, resp. sites 1..n-1 right-orthonormal, the far end site irrelevant;
    (2) ensure_left_canonical / ensure_right_canonical are run (canonicalise, iter_idx_list, _switch_direction and the checks from source; _push_cano = 'site idx becomes an isometry
        in the sweep direction, the centre moves on, the label centre follows', move_qnidx = 'the label centre is moved') from every combination of direction flag, label
        centre and tensor state: the object returned must be in the advertised form with the label centre at the far end and the direction flag ready for the next sweep,
        and no assertion of the sweep may fail on the way."""
    resolve = class_resolver(src, {"MatrixProduct": MP})

    class Site(Sym):
        def __init__(self, chain, k):
            super().__init__(f"site{k}")
            self.chain, self.k = chain, k

        def check_lortho(self, rtol=None, atol=None):
            return self.chain.orth[self.k] == "L"

        def check_rortho(self, rtol=None, atol=None):
            return self.chain.orth[self.k] == "R"

    class CC(Sym):
        def __init__(self, orth, to_right, qnidx):
            super().__init__("chain")
            self._cls = "MatrixProduct"
            self.orth, self.to_right, self.qnidx, self.site_num = list(orth), to_right, qnidx, len(orth)
            self.log = []
            self._sites = [Site(self, k) for k in range(len(orth))]

        def __len__(self):
            return self.site_num

        def __getitem__(self, k):
            return self._sites[k]

        def __iter__(self):
            return iter(self._sites)

        def move_qnidx(self, dst):
            if not isinstance(dst, int) or not 0 <= dst < self.site_num:
                raise SymRaise(f"move_qnidx({dst!r}) outside the chain")
            self.qnidx = dst
            self.log.append(("move", dst))

        def _push_cano(self, idx):
            n = self.site_num
            nxt = idx + 1 if self.to_right else idx - 1
            if not (isinstance(idx, int) and 0 <= idx < n and 0 <= nxt < n):
                raise SymRaise(f"_push_cano({idx!r}) with to_right={self.to_right} leaves the chain")
            if self.qnidx != idx:
                self.log.append(("label centre not at the pushed site", idx, self.qnidx))
            self.orth[idx] = "L" if self.to_right else "R"
            self.orth[nxt] = "C"
            self.qnidx = nxt
            self.log.append(("push", idx))

    def run(fn, me, *args):
        it = SymInterp(src, resolve, {"len": len, "range": range, "logger": Blob("logger"), "xp": Blob("xp"), "np": Blob("np")})
        it.max_depth = 8
        it.check_asserts = True
        return it.call_function(src.func(MP, f"MatrixProduct.{fn}"), [me] + list(args))
    # ---- (1) the checks
    for fn, good, span in (("check_left_canonical", "L", lambda n: range(0, n - 1)), ("check_right_canonical", "R", lambda n: range(1, n))):
        fi = src.func(MP, f"MatrixProduct.{fn}")
        for n in (2, 3, 5):
            probs = []
            far = n - 1 if good == "L" else 0
            for far_state in (good, "C"):
                for defect in [None] + list(range(n)):
                    orth = [good] * n
                    orth[far] = far_state
                    if defect is not None:
                        orth[defect] = "?"
                    want = all(orth[i] == good for i in span(n))
                    try:
                        got = run(fn, CC(orth, good == "R", far))
                    except SymRaise as e:
                        got = f"raises {e}"
                    if got is not want:
                        probs.append(f"sites {''.join(orth)}: verdict {got}, definition {want}")
            chk.ob(rule_check, f"{fn}[n={n}] = definition on every chain with at most one defect", not probs, fi.where, probs[:3] or "equal", "equal", line=fi.node.lineno,
                   detail="a canonical-form check that skips a site or tests the wrong orthogonality reports a non-canonical state as canonical: ensure_*_canonical then returns "
                          "without sweeping and compress() / bond singular values work on a non-isometric site; " + "; ".join(probs[:2]))
    # ---- (2) ensure_*
    for fn, good in (("ensure_left_canonical", "L"), ("ensure_right_canonical", "R")):
        fi = src.func(MP, f"MatrixProduct.{fn}")
        for n in (2, 4):
            probs = []
            ncfg = 0
            states = {"left-canonical": ["L"] * (n - 1) + ["C"], "right-canonical": ["C"] + ["R"] * (n - 1), "not canonical": ["?"] * n, "mixed": ["L"] * (n // 2) + ["C"] + ["R"] * (n - n // 2 - 1)}
            for sname, orth in states.items():
                for to_right in (True, False):
                    for qnidx in sorted({0, n - 1, n // 2}):
                        me = CC(orth, to_right, qnidx)
                        ncfg += 1
                        tag = f"{sname}, to_right={to_right}, label centre {qnidx}"
                        try:
                            res = run(fn, me)
                        except SymRaise as e:
                            probs.append(f"[{tag}] raises {e}")
                            continue
                        if res is not me:
                            probs.append(f"[{tag}] does not return the object")
                            continue
                        span = range(0, n - 1) if good == "L" else range(1, n)
                        far = n - 1 if good == "L" else 0
                        if not all(me.orth[i] == good for i in span):
                            probs.append(f"[{tag}] sites end as {''.join(me.orth)}")
                        elif me.qnidx != far:
                            probs.append(f"[{tag}] label centre ends at site {me.qnidx}, the tensor centre is at site {far}")
                        elif me.to_right is not (good == "R"):
                            probs.append(f"[{tag}] direction flag ends as to_right={me.to_right}: the next sweep starts from the wrong end")
                        elif any(x[0] == "label centre not at the pushed site" for x in me.log):
                            probs.append(f"[{tag}] sweep pushes site {[x for x in me.log if x[0] != 'push' and x[0] != 'move'][0][1]} while the label centre is elsewhere")
            chk.ob(rule_ensure, f"{fn}[n={n}]: {ncfg} start configurations end in the advertised form", not probs, fi.where, probs[:3] or "advertised form", "advertised form", line=fi.node.lineno,
                   detail=f"{fn} must leave sites in the advertised canonical form with label centre and direction flag consistent, from every start configuration; " + "; ".join(probs[:2]))


# ---------------------------------------------------------------------------------------------- renormalised-basis update
class _Spec(Sym):
    """a spectrum (singular values / eigenvalues of one decomposition); discarded weights and entropies derived from it are scripted numbers"""
    def __init__(self, name, script, trail=()):
        super().__init__(name)
        self.script, self.trail = script, tuple(trail)

    def _d(self, what):
        return _Spec(self._name, self.script, self.trail + (what,))

    def __pow__(self, o):
        return self._d(f"**{o}")

    def __getitem__(self, k):
        if isinstance(k, slice) and (k.start is not None or k.stop is not None) and "sort" not in self.trail:
            # the values of a blocked decomposition are sorted per sector only: a prefix / suffix of the raw list is not "the largest" / "the smallest"
            self.script.setdefault("misuse", []).append(f"{self._name}[{k.start}:{k.stop}] taken from the unsorted spectrum of a blocked decomposition")
        return self._d(f"[{k.start}:{k.stop}:{k.step}]" if isinstance(k, slice) else f"[{k}]")

    def sum(self):
        if self.script.get("misuse"):
            return self.script["loss"][self._name]
        if self.trail != ("sort", "[None:None:-1]", f"[{self.script['Mmax']}:None:None]", "**2"):
            raise AnalysisError(f"discarded weight of {self._name} computed as {self.trail}: only sum(sort(s)[::-1][Mmax:]**2) is modelled")
        return self.script["loss"][self._name]


def update_mps_rule(chk, src, rules):
    """abstract run of MatrixProduct._update_mps on a 4-site chain of abstract tensors: one- and two-site update, both directions, interior and boundary sites, single
    coefficient tensor and state-averaged list, and the on-the-fly-swap branch (states and density operators, with and without the Jordan-Wigner sign, every mode, scripted
    losses / entropies so that both outcomes occur).  Stand-ins at the stable interfaces (svd_qn.svd_qn / eigh_qn, select_basis, compute_m_trunc, _get_big_qn, Model)
    record what they are given and return tagged factors.  rules = {"bond": rule id of the kept-count obligations, "labels": .., "store": .., "swap": ..}; a missing id
    skips that group.  Returns (number of plain runs, number of swap runs that swapped)."""
    from .. import ntensor as NTm
    from ..ntensor import NT, Leg
    fi = src.func(MP, "MatrixProduct._update_mps")
    resolve = class_resolver(src, {"MatrixProduct": MP})
    bonds, ph, qh = [2, 3, 5, 7, 11], [13, 17, 19, 23], [43, 47, 53, 59]
    KU, KV, KNEW, NQ = 29, 31, 37, 41
    OFSN = Sym("OFS", ofs_d=Sym("ofs_d"), ofs_ds=Sym("ofs_ds"), ofs_s=Sym("ofs_s"), ofs_debug=Sym("ofs_debug"))
    FIXED = Sym("fixed")
    CRIT = Sym("CompressCriteria", fixed=FIXED, threshold=Sym("threshold"), both=Sym("both"))
    new = ("new",)

    class QBig(Sym):
        def __init__(self, name, shape):
            super().__init__(name)
            self.shape, self.ndim = tuple(shape), len(shape)

    def Lk(i):
        return ("S", i, "l")

    def Rk(i):
        return ("S", i, "r")

    def Pk(i, nphys):
        return [("S", i, f"p{j}") for j in range(nphys)]

    def one(nsite, to_right, k, averaged, nphys=1, ofs=None, jw=False, script=None):
        edges = []
        script = script or {"Mmax": 0, "loss": {}, "entropy": {}}
        cidx = [k] if nsite == 1 else [k, k + 1]
        lo, hi = cidx[0], cidx[-1]
        psz = lambda i: [ph[i], qh[i]][:nphys]

        def site(i):
            return NT(f"S{i}", [Leg(Lk(i), bonds[i])] + [Leg(k_, d_) for k_, d_ in zip(Pk(i, nphys), psz(i))] + [Leg(Rk(i), bonds[i + 1])], edges)

        def coeff(name):
            legs = [Leg(Lk(lo), bonds[lo])] + [Leg(k_, d_) for i in cidx for k_, d_ in zip(Pk(i, nphys), psz(i))] + [Leg(Rk(hi), bonds[hi + 1])]
            return NT(name, legs, edges)
        nl = 1 + nphys if (nsite == 2 or to_right) else 1
        c0 = coeff("c")
        lshape = [l.dim for l in c0.legs[:nl]] + [NQ]
        rshape = [l.dim for l in c0.legs[nl:]] + [NQ]
        qnbigl, qnbigr = QBig("qnbigl", lshape), QBig("qnbigr", rshape)
        cstruct = [coeff(f"c{r}") for r in range(3)] if averaged else c0
        rec = {"svd": [], "eigh": [], "trunc": [], "select": [], "bigqn": [], "model": []}

        def merged(legs):
            return Leg([(l.parts[0][0], l.parts[0][1]) for l in legs], 0) if len(legs) > 1 else legs[0]

        def svd_qn(mat, ql, qr, qntot, QR=False, system=None, full_matrices=True):
            n = len(rec["svd"]) + 1
            nleft = ql.ndim - 1
            if not isinstance(mat, NT) or [l.dim for l in mat.legs[:nleft]] != list(ql.shape[:-1]) or [l.dim for l in mat.legs[nleft:]] != list(qr.shape[:-1]):
                raise ValueError(f"svd_qn: the axes of {mat!r} do not match the label blocks {ql._name}{ql.shape} / {qr._name}{qr.shape}")
            rec["svd"].append({"mat": mat, "ql": ql, "qr": qr, "qntot": qntot, "QR": QR, "system": system, "full": full_matrices})
            U = NT(f"U{n}", [merged(mat.legs[:nleft]), Leg((f"colsU{n}",), KU)], edges)
            V = NT(f"V{n}", [merged(mat.legs[nleft:]), Leg((f"colsV{n}",), KV)], edges)
            return U, _Spec(f"SU{n}", script), Sym(f"qnl{n}"), V, _Spec(f"SV{n}", script), Sym(f"qnr{n}")

        def eigh_qn(mat, ql, qr, qntot, system=None):
            half = mat.ndim // 2
            rec["eigh"].append({"mat": mat, "ql": ql, "qr": qr, "system": system})
            return NT("W", [merged(mat.legs[:half]), Leg(("colsW",), KU)], edges), _Spec("SW", script), Sym("qnW")

        def compute_m_trunc(sigma, idx, left):
            rec["trunc"].append((sigma, idx, left))
            return Sym(f"m_trunc#{len(rec['trunc'])}")

        def select_basis(vset, sset, qnlist, compset, Mmax, percent=0):
            rec["select"].append({"vset": vset, "sset": sset, "qnlist": qnlist, "compset": compset, "Mmax": Mmax, "percent": percent})
            ms = NT("ms", [vset.legs[0], Leg(new, KNEW)], edges)
            comp = None if compset is None else NT("compms", [compset.legs[0], Leg(new, KNEW, scaled=(sset._name,))], edges)
            return ms, KNEW, Sym(f"kept({qnlist._name})"), comp
        basis = [Sym(f"basis{i}", dof=f"dof{i}") for i in range(4)]
        model = Sym("model", basis=list(basis), ham_terms="ham_terms", dipole="dipole", output_ordering="output_ordering")
        cc = Sym("compress_config", bonddim_should_set=False, ofs=ofs, ofs_swap_jw=jw, criteria=FIXED, bond_dim_max_value=script["Mmax"], compute_m_trunc=compute_m_trunc)
        me = Chain(4, to_right, cls="MatrixProduct")
        me.sites = [site(i) for i in range(4)]
        me.qn = [f"old labels {i}" for i in range(5)]
        me.qnidx = lo if nsite == 1 else (lo if to_right else hi)
        me.compress_config, me.model, me.qntot = cc, model, Sym("qntot")

        def get_big_qn(cidx_, swap=False):
            rec["bigqn"].append((list(cidx_), swap))
            if not swap:
                return qnbigl, qnbigr, Sym("sigmaqn")
            return (QBig("qnbigl2", lshape[:1] + rshape[:nphys] + [NQ]), QBig("qnbigr2", lshape[1:1 + nphys] + rshape[nphys:]), Sym("sigmaqn2"))
        me._get_big_qn = get_big_qn

        def mk_model(*a, **kw):
            rec["model"].append((a, kw))
            return Sym("new model", basis=list(a[0]) if a else kw.get("basis"))

        def entropy(s):
            if not isinstance(s, _Spec) or s.trail != ("**2",):
                raise AnalysisError(f"entropy of {s!r}: only calc_vn_entropy(s**2) is modelled")
            return script["entropy"][s._name]
        npx = NTm.np_namespace(sort=lambda s: s._d("sort"), flip=lambda s: s._d("[None:None:-1]"))
        it = SymInterp(src, resolve, {"np": npx, "xp": npx, "tensordot": NTm.tensordot, "moveaxis": NTm.moveaxis, "logger": Blob("logger"), "asnumpy": lambda x: x, "asxp": lambda x: x,
                                      "svd_qn": Sym("svd_qn", svd_qn=svd_qn, eigh_qn=eigh_qn), "select_basis": select_basis, "isinstance": lambda x, t: False, "HolsteinModel": "HolsteinModel",
                                      "OFS": OFSN, "CompressCriteria": CRIT, "Model": mk_model, "calc_vn_entropy": entropy, "Matrix": lambda x, *a: x})
        it.max_depth = 10
        it.check_asserts = True
        res = it.call_function(fi, [me, cstruct, cidx, qnbigl, qnbigr], {"percent": Sym("percent")})
        rec["misuse"] = list(script.get("misuse", []))
        script.pop("misuse", None)
        return me, rec, res, edges, (qnbigl, qnbigr, c0, basis, model)

    def keys(t):
        return t.keys() if isinstance(t, NT) else repr(t)

    def chain_bad(edges):
        """every contraction joins an axis with itself (the traced environment side / the new bond) or the two ends of one chain bond"""
        return [(a, b) for a, ca, b, cb in edges if a != b and {a, b} not in [{Rk(i), Lk(i + 1)} for i in range(3)]]

    def full(i, nphys=1):
        return [Lk(i)] + Pk(i, nphys) + [Rk(i)]
    # ---- plain updates
    n_runs = n_swapped = 0
    for nsite in (1, 2):
        for to_right in (True, False):
            for averaged in (False, True):
                ks = ([1, 3] if to_right else [2, 0]) if nsite == 1 else [1]
                for k in ks:
                    n_runs += 1
                    tag = f"_update_mps[{nsite}-site, to_right={to_right}, site {k}{', state-averaged' if averaged else ''}]"
                    P = {"bond": [], "labels": [], "store": []}
                    try:
                        me, rec, res, edges, (qbl, qbr, c0, _, _) = one(nsite, to_right, k, averaged)
                    except (ValueError, SymRaise) as e:
                        P["store"].append(f"{type(e).__name__}: {e}")
                        me = None
                    if me is not None:
                        lo, hi = (k, k) if nsite == 1 else (k, k + 1)
                        want_sys = "L" if to_right else "R"
                        if not averaged:
                            if len(rec["svd"]) != 1 or rec["eigh"]:
                                P["store"].append(f"{len(rec['svd'])} svd_qn / {len(rec['eigh'])} eigh_qn calls; expected one svd_qn")
                            else:
                                d = rec["svd"][0]
                                if d["ql"] is not qbl or d["qr"] is not qbr or keys(d["mat"]) != keys(c0):
                                    P["labels"].append("the decomposition does not get the coefficient tensor together with the block labels it was given")
                                if d["system"] != want_sys:
                                    P["store"].append(f"system={d['system']!r} for to_right={to_right}")
                        else:
                            if len(rec["eigh"]) != 1 or rec["svd"]:
                                P["store"].append(f"{len(rec['svd'])} svd_qn / {len(rec['eigh'])} eigh_qn calls; expected one eigh_qn")
                            else:
                                d = rec["eigh"][0]
                                sys_keys = keys(c0)[:qbl.ndim - 1] if to_right else keys(c0)[qbl.ndim - 1:]
                                if keys(d["mat"]) != sys_keys + sys_keys:
                                    P["store"].append(f"averaged density matrix over axes {keys(d['mat'])}; expected the {'left' if to_right else 'right'} block twice {sys_keys}")
                                if d["ql"] is not qbl or d["qr"] is not qbr:
                                    P["labels"].append("eigh_qn does not get the block labels the update was given")
                                if d["system"] != want_sys:
                                    P["store"].append(f"system={d['system']!r} for to_right={to_right}")
                        want_site = lo if to_right else hi
                        if len(rec["trunc"]) != 1:
                            P["bond"].append(f"compute_m_trunc called {len(rec['trunc'])} times")
                        else:
                            sg, ix, left = rec["trunc"][0]
                            want_spec = "SW" if averaged else ("SU1" if to_right else "SV1")
                            if ix != want_site or left is not to_right:
                                P["bond"].append(f"compute_m_trunc(.., {ix}, {left}); expected site {want_site} (cidx[0] when sweeping right, cidx[-1] when sweeping left) and direction {to_right}")
                            if getattr(sg, "_name", None) != want_spec or getattr(sg, "trail", ()) != ():
                                P["bond"].append(f"kept count computed from {sg!r}; expected the spectrum {want_spec} of the kept side")
                        if len(rec["select"]) != 1:
                            P["store"].append(f"select_basis called {len(rec['select'])} times")
                        else:
                            s_ = rec["select"][0]
                            want = ("W", "SW", "qnW", None) if averaged else (("U1", "SU1", "qnl1", "V1") if to_right else ("V1", "SV1", "qnr1", "U1"))
                            got = (s_["vset"]._name, s_["sset"]._name, s_["qnlist"]._name, getattr(s_["compset"], "_name", None))
                            if got != want:
                                P["labels"].append(f"select_basis(vectors {got[0]}, values {got[1]}, labels {got[2]}, complement {got[3]}); expected {want}: vectors, values and labels of one factor")
                            if getattr(s_["Mmax"], "_name", "") != "m_trunc#1":
                                P["bond"].append(f"select_basis limited by {s_['Mmax']!r}, not by the computed kept count")
                            if getattr(s_["percent"], "_name", None) != "percent":
                                P["store"].append("percent is not passed on to select_basis")
                        exp = {}
                        interior = True
                        if nsite == 2:
                            exp[lo] = [Lk(lo)] + Pk(lo, 1) + [new]
                            exp[hi] = [new] + Pk(hi, 1) + [Rk(hi)]
                            want_qn, want_centre, iso = hi, (hi if to_right else lo), (lo if to_right else hi)
                        else:
                            interior = (k != 3) if to_right else (k != 0)
                            iso = k
                            if interior:
                                nb = k + 1 if to_right else k - 1
                                exp[k] = ([Lk(k)] + Pk(k, 1) + [new]) if to_right else ([new] + Pk(k, 1) + [Rk(k)])
                                exp[nb] = ([new] + Pk(nb, 1) + [Rk(nb)]) if to_right else ([Lk(nb)] + Pk(nb, 1) + [new])
                                want_qn, want_centre = (k + 1 if to_right else k), nb
                            else:
                                exp[k] = full(k)
                                want_qn, want_centre = None, k
                        for i in range(4):
                            if keys(me.sites[i]) != exp.get(i, full(i)):
                                P["store"].append(f"site {i} ends with axes {keys(me.sites[i])}; expected {exp.get(i, full(i))}")
                        if chain_bad(edges):
                            P["store"].append(f"contractions over unrelated axes: {chain_bad(edges)[:2]}")
                        P["store"].extend(rec["misuse"])
                        if not P["store"] and not averaged and interior:
                            for i in exp:
                                sc = [x for l in me.sites[i].legs for x in l.scaled]
                                if i == iso and sc:
                                    P["store"].append(f"the isometric site {i} carries the weights {sc}")
                                elif i != iso and len(sc) != 1:
                                    P["store"].append(f"the centre site {i} carries the weights {sc}; expected the kept singular values once")
                        for b in range(5):
                            if b == want_qn:
                                w = "kept(qnW)" if averaged else ("kept(qnl1)" if to_right else "kept(qnr1)")
                                if getattr(me.qn[b], "_name", None) != w:
                                    P["labels"].append(f"labels of bond {b}: {me.qn[b]!r}; expected the labels of the kept vectors {w}")
                            elif me.qn[b] != f"old labels {b}":
                                P["labels"].append(f"labels of bond {b} overwritten with {me.qn[b]!r}")
                        if me.qnidx != want_centre:
                            P["labels"].append(f"label centre {me.qnidx}; expected {want_centre}")
                        if not averaged and res is not None:
                            P["store"].append(f"returns {res!r} for a single coefficient tensor")
                        if averaged:
                            if not isinstance(res, list) or len(res) != 3:
                                P["store"].append(f"state-averaged update returns {res!r}; expected one rotated tensor per root")
                            else:
                                if nsite == 2:
                                    w = ([new] + Pk(hi, 1) + [Rk(hi)]) if to_right else ([Lk(lo)] + Pk(lo, 1) + [new])
                                elif interior:
                                    w = exp[nb]
                                else:
                                    w = full(k)
                                for r_, t in enumerate(res):
                                    if keys(t) != w:
                                        P["store"].append(f"rotated tensor of root {r_} has axes {keys(t)}; expected {w}")
                                        break
                    for grp, probs in P.items():
                        if rules.get(grp):
                            chk.ob(rules[grp], f"{tag}: {grp}", not probs, fi.where, probs[:3] or "as specified", "as specified", line=fi.node.lineno, detail="_update_mps: " + (probs[0] if probs else ""))
    # ---- on-the-fly swap: whichever arrangement is chosen, everything that is stored comes from that arrangement
    if rules.get("swap"):
        scripts = {"first arrangement better": {"Mmax": 5, "loss": {"SU1": 0.1, "SU2": 0.2}, "entropy": {"SU1": 0.3, "SU2": 0.6}},
                   "swapped arrangement better": {"Mmax": 5, "loss": {"SU1": 0.2, "SU2": 0.1}, "entropy": {"SU1": 0.6, "SU2": 0.3}},
                   "no loss, swapped arrangement less entangled": {"Mmax": 5, "loss": {"SU1": 0.0, "SU2": 0.0}, "entropy": {"SU1": 0.6, "SU2": 0.3}}}
        for mode in ("ofs_d", "ofs_ds", "ofs_s", "ofs_debug"):
            for nphys, jw in ((1, False), (1, True), (2, False)):
                for to_right in (True, False):
                    probs, outcomes = [], []
                    for sname, script in scripts.items():
                        k, lo, hi = 1, 1, 2
                        try:
                            me, rec, res, edges, (qbl, qbr, c0, basis, model) = one(2, to_right, k, False, nphys=nphys, ofs=getattr(OFSN, mode), jw=jw, script=script)
                        except (ValueError, SymRaise) as e:
                            probs.append(f"[{sname}] {type(e).__name__}: {e}")
                            continue
                        if len(rec["svd"]) != 2 or len(rec["select"]) != 1 or len(rec["trunc"]) != 1:
                            probs.append(f"[{sname}] {len(rec['svd'])} decompositions, {len(rec['select'])} selections, {len(rec['trunc'])} kept counts; expected 2, 1, 1")
                            continue
                        d1, d2 = rec["svd"]
                        ck = keys(c0)
                        swapped_keys = [ck[0]] + ck[1 + nphys:1 + 2 * nphys] + ck[1:1 + nphys] + [ck[-1]]
                        if keys(d1["mat"]) != ck or d1["ql"] is not qbl or d1["qr"] is not qbr:
                            probs.append(f"[{sname}] the first decomposition is not that of the given tensor with the given labels")
                        if keys(d2["mat"]) != swapped_keys:
                            probs.append(f"[{sname}] the second decomposition sees axes {keys(d2['mat'])}; expected the two sites exchanged {swapped_keys}")
                        if (rec["bigqn"] != [([lo, hi], True)]) or d2["ql"]._name != "qnbigl2" or d2["qr"]._name != "qnbigr2":
                            probs.append(f"[{sname}] the second decomposition does not use the labels of the exchanged arrangement (_get_big_qn(cidx, swap=True): {rec['bigqn']})")
                        if d1["system"] != d2["system"] or d1["system"] != ("L" if to_right else "R"):
                            probs.append(f"[{sname}] system sides {d1['system']!r}, {d2['system']!r}")
                        pt = getattr(d2["mat"], "patches", ())
                        if jw:
                            if len(pt) != 1 or pt[0][0] != "(slice(None, None, None), 1, 1, slice(None, None, None))" or "-1" not in pt[0][2]:
                                probs.append(f"[{sname}] Jordan-Wigner sign: patches {[x[:2] for x in pt]}; expected the doubly occupied block [:, 1, 1, :] negated once")
                            if getattr(d1["mat"], "patches", ()) or getattr(c0, "patches", ()):
                                probs.append(f"[{sname}] the Jordan-Wigner sign is written into the caller's tensor")
                        elif pt:
                            probs.append(f"[{sname}] blocks overwritten without the Jordan-Wigner flag: {[x[:2] for x in pt]}")
                        s_ = rec["select"][0]
                        got = (s_["vset"]._name, s_["sset"]._name, s_["qnlist"]._name, getattr(s_["compset"], "_name", None))
                        n = got[0][-1]
                        if n not in "12" or got != ((f"U{n}", f"SU{n}", f"qnl{n}", f"V{n}") if to_right else (f"V{n}", f"SV{n}", f"qnr{n}", f"U{n}")):
                            probs.append(f"[{sname}] select_basis{got}: factors of two different arrangements are mixed")
                            continue
                        did_swap = n == "2"
                        outcomes.append(did_swap)
                        sg = rec["trunc"][0][0]
                        if getattr(sg, "_name", None) != (f"SU{n}" if to_right else f"SV{n}"):
                            probs.append(f"[{sname}] kept count from {sg!r}, basis from arrangement {n}")
                        a, b_ = (hi, lo) if did_swap else (lo, hi)
                        w_lo, w_hi = [Lk(lo)] + Pk(a, nphys) + [new], [new] + Pk(b_, nphys) + [Rk(hi)]
                        if keys(me.sites[lo]) != w_lo or keys(me.sites[hi]) != w_hi:
                            probs.append(f"[{sname}] arrangement {n} chosen, but the sites end with axes {keys(me.sites[lo])} / {keys(me.sites[hi])}; expected {w_lo} / {w_hi}")
                        wq = f"kept(qnl{n})" if to_right else f"kept(qnr{n})"
                        if getattr(me.qn[hi], "_name", None) != wq or any(me.qn[b] != f"old labels {b}" for b in (0, 1, 3, 4)):
                            probs.append(f"[{sname}] labels of bond {hi}: {me.qn[hi]!r}; expected {wq}, the others untouched")
                        if did_swap:
                            wb = [basis[0], basis[2], basis[1], basis[3]]
                            if len(rec["model"]) != 1:
                                probs.append(f"[{sname}] sites exchanged but the model is rebuilt {len(rec['model'])} times")
                            else:
                                a_, kw_ = rec["model"][0]
                                args = list(a_) + [kw_.get(x) for x in ("basis", "ham_terms", "dipole", "output_ordering")[len(a_):]]
                                if list(args[0]) != wb or args[1:] != ["ham_terms", "dipole", "output_ordering"]:
                                    probs.append(f"[{sname}] new model built from {[getattr(x, '_name', x) for x in args[0]]}, {args[1:]}; expected the two sites exchanged, same terms, dipole, output ordering")
                                if getattr(me.model, "_name", None) != "new model":
                                    probs.append(f"[{sname}] sites exchanged but the state keeps its old model")
                            if [x._name for x in model.basis] != [f"basis{i}" for i in range(4)]:
                                probs.append(f"[{sname}] the old model's basis list is modified in place (it is shared with every other object built on that model)")
                            n_swapped += 1
                        elif rec["model"] or me.model is not model:
                            probs.append(f"[{sname}] arrangement kept but the model is rebuilt")
                        if chain_bad(edges):
                            probs.append(f"[{sname}] contractions over unrelated axes")
                        probs.extend(f"[{sname}] {x}" for x in rec["misuse"])
                    chk.ob(rules["swap"], f"_update_mps[swap mode {mode}, {'density operator' if nphys == 2 else 'state'}{', Jordan-Wigner sign' if jw else ''}, to_right={to_right}]", not probs, fi.where,
                           probs[:3] or f"consistent; arrangement exchanged in {sum(outcomes)} of {len(outcomes)} scenarios", "tensors, labels, kept count, complement and model all follow the chosen arrangement", line=fi.node.lineno,
                           detail="on-the-fly swap: " + (probs[0] if probs else ""))
    return n_runs, n_swapped


# ---------------------------------------------------------------------------------------------- select_basis
def select_basis_rule(chk, src, rule_co, rule_sort):
    """abstract run of lib.select_basis on matrices whose columns carry their provenance (vector j, complement j scaled by value j) with concrete distinct values and
    labels from three sectors: the kept columns are the largest `min(n, Mmax)` values (percent = 0: in descending order; percent > 0: every sector first contributes its own
    largest int(nbasis * percent / sectors), the rest are the largest of what remains); vectors, complement (times its value), labels and the count are selected by the
    one index list, without duplicates; a missing complement or one with fewer columns is tolerated as in the source's contract."""
    LIB = "renormalizer/mps/lib.py"
    fi = src.func(LIB, "select_basis")

    class Col(Sym):
        def __init__(self, what, j, scale=()):
            super().__init__(f"{what}{j}")
            self.what, self.j, self.scale = what, j, tuple(scale)

        def copy(self):
            return Col(self.what, self.j, self.scale)

        def __mul__(self, o):
            return Col(self.what, self.j, self.scale + (o,))

        __rmul__ = __mul__

    class Mat(Sym):
        """matrix addressed by columns only"""
        def __init__(self, name, rows, ncols, cols=None):
            super().__init__(name)
            self.shape, self.dtype = (rows, ncols), f"dtype({name})"
            self.cols = cols if cols is not None else [None] * ncols

        def _col(self, k):
            if not (isinstance(k, tuple) and len(k) == 2 and k[0] == slice(None)):
                raise AnalysisError(f"{self._name}[{k!r}]: only whole columns are modelled")
            return k[1]

        def __getitem__(self, k):
            j = self._col(k)
            if isinstance(j, list):
                return Mat(self._name, self.shape[0], len(j), [self.cols[x] for x in j])
            if not 0 <= j < self.shape[1]:
                raise SymRaise(f"IndexError: column {j} of {self._name} with {self.shape[1]} columns")
            return self.cols[j]

        def __setitem__(self, k, v):
            self.cols[self._col(k)] = v

        def __mul__(self, o):
            if isinstance(o, list):
                return Mat(self._name, self.shape[0], self.shape[1], [None if c is None else c * x for c, x in zip(self.cols, o)])
            raise AnalysisError("matrix times a non-list")

        def copy(self):
            return Mat(self._name, self.shape[0], self.shape[1], list(self.cols))

    def zeros(shape, dtype=None):
        return Mat("zeros", shape[0], shape[1])
    labels = [(0,), (1,), (1,), (2,), (0,), (1,), (2,), (1,)]
    values = [0.30, 0.90, 0.10, 0.50, 0.70, 0.20, 0.05, 0.60]
    n = len(values)
    cases = [("percent 0, limit below the number of candidates", 4, 0, n), ("limit above the number of candidates", 20, 0, n), ("percent 0.7", 6, 0.7, n), ("percent 1", 6, 1, n),
             ("no complement", 4, 0, None), ("complement with fewer columns", 6, 0, 5), ("limit 1", 1, 0, n)]
    for name, mmax, percent, ncomp in cases:
        vset = Mat("vset", 11, n, [Col("v", j) for j in range(n)])
        compset = None if ncomp is None else Mat("compset", 13, ncomp, [Col("c", j) for j in range(ncomp)])
        npx = OpenSym("np", make=lambda t: Blob(t), zeros=zeros, array=lambda x, *a, **k: list(x), asarray=lambda x, *a, **k: x)
        it = SymInterp(src, None, {"np": npx, "xp": npx, "asxp": lambda x: x, "asnumpy": lambda x: x, "logger": Blob("logger")})
        it.max_depth = 8
        it.check_asserts = True
        probs_co, probs_sort = [], []
        try:
            res = it.call_function(fi, [vset, list(values), [tuple(q) for q in labels], compset, mmax], {"percent": percent})
        except SymRaise as e:
            res = None
            probs_co.append(f"raises {e}")
        if res is not None:
            if not (isinstance(res, tuple) and len(res) == 4 and isinstance(res[0], Mat)):
                probs_co.append(f"returns {res!r}; expected (vectors, count, labels, complement)")
            else:
                ms, dim, qn, comp = res
                idx = [getattr(c, "j", None) for c in ms.cols]
                if any(not isinstance(c, Col) or c.what != "v" or c.scale for c in ms.cols):
                    probs_co.append("a kept vector column is not a plain column of the vector set")
                if dim != len(idx) or ms.shape[1] != len(idx):
                    probs_co.append(f"count {dim} for {len(idx)} kept columns")
                if [tuple(q) for q in qn] != [labels[j] for j in idx if j is not None]:
                    probs_co.append(f"labels {list(qn)} do not belong to the kept columns {idx}")
                if (comp is None) != (compset is None):
                    probs_co.append("complement present / absent against the input")
                if comp is not None:
                    for k_, j in enumerate(idx):
                        c = comp.cols[k_]
                        if j is not None and j < ncomp:
                            if not isinstance(c, Col) or c.what != "c" or c.j != j or list(c.scale) != [values[j]]:
                                probs_co.append(f"complement column {k_} is {getattr(c, 'what', c)}{getattr(c, 'j', '')} x {getattr(c, 'scale', '')}; expected column {j} of the complement times its value {values[j]}")
                                break
                        elif c is not None:
                            probs_co.append(f"complement column {k_} filled although the complement has no column {j}")
                if len(set(idx)) != len(idx):
                    probs_sort.append(f"duplicated columns {idx}")
                want_n = min(n, mmax)
                if len(idx) != want_n:
                    probs_sort.append(f"{len(idx)} columns kept; expected min(candidates, Mmax) = {want_n}")
                order = sorted(range(n), key=lambda j: -values[j])
                if percent == 0:
                    if idx != order[:want_n]:
                        probs_sort.append(f"kept columns {idx}; expected the largest values in descending order {order[:want_n]}")
                elif not probs_sort:
                    sectors = sorted(set(labels))
                    per = int(want_n * percent / len(sectors))
                    first = set()
                    for q in sectors:
                        first |= set([j for j in order if labels[j] == q][:per])
                    rest = [j for j in order if j not in first][:want_n - len(first)]
                    if set(idx) != first | set(rest):
                        probs_sort.append(f"kept columns {sorted(idx)}; expected {sorted(first)} (the largest {per} of every sector) and {sorted(rest)} (the largest of the rest)")
        chk.ob(rule_co, f"select_basis[{name}]: vectors, complement x value, labels and count selected by one index list", not probs_co, fi.where, probs_co[:3] or "co-indexed", "co-indexed", line=fi.node.lineno,
               detail="select_basis: " + (probs_co[0] if probs_co else ""))
        chk.ob(rule_sort, f"select_basis[{name}]: the largest values are kept, at most Mmax, no duplicates", not probs_sort, fi.where, probs_sort[:3] or "largest kept", "largest kept", line=fi.node.lineno,
               detail="select_basis must rank candidate vectors by descending singular value and keep at most the limit; otherwise the smallest are kept or the bond exceeds its limit: " + (probs_sort[0] if probs_sort else ""))


# ---------------------------------------------------------------------------------------------- ground-state sweep driver
def single_sweep_rule(chk, src, rule_fresh=None, rule_ofs=None, rule_sites=None):
    """abstract run of gs.single_sweep on a 4-site state whose methods are event recorders (iter_idx_list and _switch_direction from source): one- and two-site method,
    both directions, one root and three roots, plain and stacked operator, on-the-fly swapping off / on (with and without the Jordan-Wigner flag), with a stored optimum
    in the middle of the sweep.  Every event carries the version of the swept state (it advances with every update of the swept state).
    fresh labels: every renormalised-basis update - of the swept state or of a copy taken from it in the same iteration - receives the block labels computed by the swept
    state's _get_big_qn for the same sites at the same version; the sector mask of the local problem comes from the same call and the state's total charge; environments
    are requested for the sites next to the active ones, system side behind the sweep.
    operator swap: with swapping on, every update of the swept state is followed - before anything else is computed - by the operator's try_swap_site with the state's
    current model and its Jordan-Wigner flag; copies do not swap the operator again; with swapping off the operator is never swapped."""
    GS = "renormalizer/mps/gs.py"
    fi = src.func(GS, "single_sweep")
    resolve = class_resolver(src, {"Mps": MPS})
    n = 4

    class Tok(Sym):
        def __init__(self, name, **kw):
            super().__init__(name)
            self.__dict__.update(kw)

    def run(method, to_right, nroots, stacked, ofs, jw):
        ev = []
        state = {"version": 0, "copies": 0}

        class St(Sym):
            def __init__(self, name, parent=None):
                super().__init__(name)
                self._cls = "Mps"
                self.site_num, self.to_right, self.qnidx = n, to_right, (0 if to_right else n - 1)
                self.optimize_config = Sym("optimize_config", method=method, nroots=nroots, algo="direct")
                self.compress_config = Sym("compress_config", ofs=ofs, ofs_swap_jw=jw)
                self.qntot = Tok("qntot")
                self.model = Tok("model v0")
                self.parent, self.born = parent, state["version"]

            def __getitem__(self, k):
                return Tok(f"{self._name}[{k}]")

            def _get_big_qn(self, cidx):
                t = (self._name, state["version"], tuple(cidx))
                ev.append(("bigqn",) + t)
                return Tok("qnbigl", src=t), Tok("qnbigr", src=t), Tok("qnmat", src=t)

            def _update_mps(self, cstruct, cidx, qnbigl, qnbigr, percent=0):
                ev.append(("update", self._name, self.born if self.parent else state["version"], tuple(cidx), getattr(qnbigl, "src", None), getattr(qnbigr, "src", None),
                           getattr(qnbigl, "_name", None), getattr(qnbigr, "_name", None), cstruct, percent))
                if self.parent is None:
                    state["version"] += 1
                    if ofs is not None:
                        self.model = Tok(f"model v{state['version']}")
                return [Tok(f"averaged{r}") for r in range(nroots)] if nroots > 1 else None

            def copy(self):
                state["copies"] += 1
                c = St(f"copy{state['copies']}", parent=self)
                ev.append(("copy", c._name, state["version"]))
                return c
        mps = St("mps")

        class Opr(Sym):
            def __init__(self, name):
                super().__init__(name)

            def __getitem__(self, k):
                return Tok(f"{self._name}[{k}]")

            def try_swap_site(self, model, swap_jw, *a, **k):
                ev.append(("swap", self._name, getattr(model, "_name", model), swap_jw))
        if stacked:
            mpo = Opr("stacked")
            mpo.mpos = [Opr("part0"), Opr("part1")]
        else:
            mpo = Opr("mpo")

        class Env(Sym):
            def GetLR(self, side, idx, mps_, operator, itensor=None, method="System"):
                ev.append(("env", side, idx, method, state["version"]))
                return Tok(f"{side}env")
        environ = [Env("env0"), Env("env1")] if stacked else Env("env")

        def get_qn_mask(qnmat, qntot):
            ev.append(("mask", getattr(qnmat, "src", None), getattr(qnmat, "_name", None), getattr(qntot, "_name", None)))
            return Tok("mask", src=getattr(qnmat, "src", None), shape=(2, 3))

        def eigh_direct(mps_, qn_mask, ltensor, rtensor, cmo, omega):
            ev.append(("solve", getattr(qn_mask, "src", None)))
            return Tok("e", tolist=lambda: [0.0] * nroots), Tok("c", mask=getattr(qn_mask, "src", None))

        def cvec2cmat(c, qn_mask, nroots=1):
            ev.append(("unpack", getattr(qn_mask, "src", None)))
            return [Tok(f"cstruct{r}") for r in range(nroots)] if nroots > 1 else Tok("cstruct")
        npx = OpenSym("np", make=lambda t: Blob(t), prod=lambda s: 6, sum=lambda x: 6)
        last = [1] if method == "1site" else [1, 2]
        it = SymInterp(src, resolve, {"np": npx, "xp": npx, "logger": Blob("logger"), "asxp": lambda x: x, "asnumpy": lambda x: x, "get_qn_mask": get_qn_mask, "eigh_direct": eigh_direct,
                                      "cvec2cmat": cvec2cmat, "isinstance": lambda x, t: (t == "StackedMpo" and stacked) or (t == "Mpo" and not stacked), "StackedMpo": "StackedMpo", "Mpo": "Mpo",
                                      "tensordot": lambda *a, **k: Tok("guess")})
        it.max_depth = 8
        it.check_asserts = True
        res = it.call_function(fi, [mps, mpo, environ, None, Sym("percent"), last])
        return ev, res, mps, mpo

    for method in ("1site", "2site"):
        for to_right in (True, False):
            for nroots, stacked, ofs, jw in ((1, False, None, False), (3, False, None, False), (1, True, None, False), (1, False, Sym("ofs_d"), True), (1, False, Sym("ofs_s"), False),
                                             (3, False, Sym("ofs_d"), False)):
                tag = f"single_sweep[{method}, to_right={to_right}, {nroots} root(s){', stacked operator' if stacked else ''}{', swapping on' + (' with Jordan-Wigner flag' if jw else '') if ofs is not None else ''}]"
                P_f, P_o, P_s = [], [], []
                try:
                    ev, res, mps, mpo = run(method, to_right, nroots, stacked, ofs, jw)
                except SymRaise as e:
                    P_f.append(f"raises {e}")
                    ev = None
                if ev is not None:
                    # expected active sites
                    if method == "1site":
                        want = [[k] for k in (range(n) if to_right else range(n - 1, -1, -1))]
                    else:
                        want = [[k, k + 1] for k in range(n - 1)] if to_right else [[k - 1, k] for k in range(n - 1, 0, -1)]
                    upd_main = [e for e in ev if e[0] == "update" and e[1] == "mps"]
                    if [list(e[3]) for e in upd_main] != want:
                        P_s.append(f"sites updated {[list(e[3]) for e in upd_main]}; expected {want}")
                    version = 0
                    cur = None            # label computation of the current iteration
                    pending_swap = None
                    for e in ev:
                        if pending_swap is not None and e[0] != "swap":
                            P_o.append(f"after the update of sites {pending_swap} the next step is {e[0]}, not the operator swap")
                            pending_swap = None
                        if e[0] == "env":
                            cur = None
                        if e[0] == "bigqn":
                            if e[1] != "mps":
                                P_f.append(f"block labels computed from {e[1]}, not from the swept state")
                            cur = e[1:]
                        elif e[0] == "mask":
                            if cur is None or e[1] != cur or e[2] != "qnmat" or e[3] != "qntot":
                                P_f.append(f"sector mask from ({e[2]} of {e[1]}, {e[3]}); expected the label matrix of this iteration {cur} and the state's total charge")
                        elif e[0] in ("solve", "unpack"):
                            if cur is None or e[1] != cur:
                                P_f.append(f"{'local eigenproblem' if e[0] == 'solve' else 'unpacking of the solution'} uses the mask of {e[1]}; labels of this iteration: {cur}")
                        elif e[0] == "update":
                            _, who, ver, cidx, sl, sr, nl, nr, cs, pc = e
                            if cur is None or sl != cur or sr != cur or (nl, nr) != ("qnbigl", "qnbigr") or tuple(cidx) != cur[2] or ver != cur[1]:
                                P_f.append(f"{who}._update_mps(sites {list(cidx)}, version {ver}) gets labels ({nl} of {sl}, {nr} of {sr}); expected (qnbigl, qnbigr) of {cur}")
                            if getattr(pc, "_name", None) != "percent":
                                P_s.append("percent is not passed to the update")
                            if who == "mps":
                                version += 1
                                if ofs is not None:
                                    pending_swap = list(cidx)
                        elif e[0] == "swap":
                            if ofs is None:
                                P_o.append("the operator is swapped although on-the-fly swapping is off")
                            elif pending_swap is None:
                                P_o.append("an operator swap that does not follow an update of the swept state")
                            elif e[1] != ("stacked" if stacked else "mpo") or e[2] != f"model v{version}" or e[3] is not jw:
                                P_o.append(f"{e[1]}.try_swap_site({e[2]}, {e[3]}); expected the operator of the sweep, the state's current model (model v{version}) and its flag {jw}")
                            pending_swap = None
                    if pending_swap is not None:
                        P_o.append(f"no operator swap after the last update (sites {pending_swap})")
                    # environments: next to the active sites, system side behind the sweep
                    envs = [e for e in ev if e[0] == "env"]
                    per = 2 * (2 if stacked else 1)
                    for i, cidx in enumerate(want):
                        chunk = envs[i * per:(i + 1) * per]
                        w = {("L", cidx[0] - 1, "System" if to_right else "Enviro"), ("R", cidx[-1] + 1, "Enviro" if to_right else "System")}
                        if {(c[1], c[2], c[3]) for c in chunk} != w or any(c[4] != i for c in chunk):
                            P_s.append(f"iteration {i}: environments {[(c[1], c[2], c[3], c[4]) for c in chunk]}; expected {sorted(w)} of the current state")
                            break
                    # stored optimum: copies updated with the same arguments
                    ups_copy = [e for e in ev if e[0] == "update" and e[1] != "mps"]
                    if len(ups_copy) != nroots:
                        P_s.append(f"{len(ups_copy)} updates of stored copies; expected {nroots} (one per root at the stored site)")
                    if not (isinstance(res, tuple) and len(res) == 3 and res[2] is mpo):
                        P_s.append("the operator is not returned")
                    if mps.to_right is to_right:
                        P_s.append("the direction is not switched at the end of the sweep")
                if rule_fresh:
                    chk.ob(rule_fresh, f"{tag}: labels", not P_f, fi.where, P_f[:3] or "fresh", "labels of the same state, sites and version", line=fi.node.lineno,
                           detail="single_sweep: the renormalised-basis update uses block labels that were not computed from the current state of the same object and sites "
                                  "(stale mask/labels leak amplitude out of the sector): " + (P_f[0] if P_f else ""))
                if rule_ofs and (ofs is not None or P_o):
                    chk.ob(rule_ofs, f"{tag}: operator swap", not P_o, fi.where, P_o[:3] or "paired", "every state-side swap is followed at once by the operator-side swap", line=fi.node.lineno,
                           detail="single_sweep may swap two sites of the state (on-the-fly swapping) without swapping the operator with the same model and flag: state and Hamiltonian then "
                                  "refer to different site orders: " + (P_o[0] if P_o else ""))
                if rule_sites:
                    chk.ob(rule_sites, f"{tag}: sites and environments", not P_s, fi.where, P_s[:3] or "as specified", "active sites in sweep order, environments next to them", line=fi.node.lineno,
                           detail="single_sweep: " + (P_s[0] if P_s else ""))


# ---------------------------------------------------------------------------------------------- local solvers of the tangent-space schemes
class _Sc(Sym):
    """scalar of an abstract run: a sympy value with the attributes of a Python number"""
    def __init__(self, v):
        import sympy as sp
        super().__init__("scalar")
        self.v = sp.nsimplify(v.v if isinstance(v, _Sc) else v, rational=True) if not isinstance(v, bool) else v

    @staticmethod
    def of(x):
        import sympy as sp
        if isinstance(x, _Sc):
            return x.v
        if isinstance(x, complex):
            return sp.nsimplify(x.real) + sp.I * sp.nsimplify(x.imag)
        if isinstance(x, (int, float)) and not isinstance(x, bool):
            return sp.nsimplify(x)
        if isinstance(x, sp.Basic):
            return x
        from fractions import Fraction
        if isinstance(x, Fraction):
            return sp.Rational(x.numerator, x.denominator)
        return None

    def _b(self, o, f):
        ov = _Sc.of(o)
        if ov is None:
            return NotImplemented
        return _Sc(f(self.v, ov))

    def __add__(self, o):
        return self._b(o, lambda a, b: a + b)

    __radd__ = __add__

    def __sub__(self, o):
        return self._b(o, lambda a, b: a - b)

    def __rsub__(self, o):
        return self._b(o, lambda a, b: b - a)

    def __mul__(self, o):
        return self._b(o, lambda a, b: a * b)

    __rmul__ = __mul__

    def __truediv__(self, o):
        return self._b(o, lambda a, b: a / b)

    def __rtruediv__(self, o):
        return self._b(o, lambda a, b: b / a)

    def __neg__(self):
        return _Sc(-self.v)

    @property
    def imag(self):
        import sympy as sp
        return _Sc(sp.im(self.v))

    @property
    def real(self):
        import sympy as sp
        return _Sc(sp.re(self.v))

    def conjugate(self):
        import sympy as sp
        return _Sc(sp.conjugate(self.v))

    conj = conjugate


class _Tn(Sym):
    """tensor whose content does not matter: a shape, and every operation gives another one"""
    def __init__(self, name="tensor", shape=(2, 3, 5)):
        super().__init__(name)
        self.shape, self.ndim = tuple(shape), len(shape)

    def symattr(self, attr):
        if attr in ("T", "array", "real", "imag"):
            return _Tn(f"{self._name}.{attr}", self.shape[::-1] if attr == "T" else self.shape)
        return lambda *a, **k: _Tn(f"{self._name}.{attr}()", self.shape)

    def __getitem__(self, k):
        return _Tn(self._name + "[..]", self.shape)

    def __setitem__(self, k, v):
        pass

    def _a(self, o):
        return _Tn("arith", self.shape)

    __add__ = __radd__ = __sub__ = __rsub__ = __mul__ = __rmul__ = __truediv__ = __rtruediv__ = __matmul__ = __rmatmul__ = _a

    def __neg__(self):
        return _Tn("neg", self.shape)


class _Vec(Sym):
    """local vector handed to an effective operator: linear combination of (operator tag applied to the start vector) with scalar coefficients; '1' = the vector itself"""
    def __init__(self, terms=None):
        super().__init__("vector")
        self.terms = dict(terms if terms is not None else {"1": 1})
        self.shape = (2, 3, 5)

    def symattr(self, attr):
        if attr in ("ravel", "reshape", "flatten", "copy", "astype", "conj"):
            return lambda *a, **k: self
        if attr in ("array",):
            return self
        raise AnalysisError(f"local vector: attribute {attr} is not modelled")

    def _scale(self, c):
        import sympy as sp
        return _Vec({k: sp.simplify(v * c) for k, v in self.terms.items()})

    def __mul__(self, o):
        c = _Sc.of(o)
        if c is None:
            raise AnalysisError(f"local vector times {o!r}")
        return self._scale(c)

    __rmul__ = __mul__

    def __truediv__(self, o):
        c = _Sc.of(o)
        if c is None:
            raise AnalysisError(f"local vector divided by {o!r}")
        return self._scale(1 / c)

    def __neg__(self):
        return self._scale(-1)

    def __add__(self, o):
        if not isinstance(o, _Vec):
            raise AnalysisError(f"local vector plus {o!r}")
        return _Vec({k: self.terms.get(k, 0) + o.terms.get(k, 0) for k in set(self.terms) | set(o.terms)})

    def __sub__(self, o):
        return self + (-o)


def _tdvp_run(src, qual, solver, imag, to_right, ofs=None, jw=False, midpoint=False):
    """one abstract run of a tangent-space scheme; returns (solver calls, bookkeeping events)"""
    import sympy as sp
    resolve = class_resolver(src, {"Mps": MPS})
    dt, tau = sp.Symbol("dt", real=True, positive=True), sp.Symbol("tau", real=True, positive=True)
    if True:
        fi = src.func(MPS, qual)
        calls, events = [], []
        n_hop, n_svd, n_st = [0], [0], [0]

        class HOp(Sym):
            def __init__(self, nops):
                n_hop[0] += 1
                super().__init__(f"H#{n_hop[0]}[{nops} site operator(s)]")

            def __call__(self, y):
                if isinstance(y, _Tn):
                    return _Tn(f"{self._name} y")           # a tensor without content (global schemes): only the bookkeeping of the run is read
                if not isinstance(y, _Vec) or list(y.terms) != ["1"]:
                    raise AnalysisError(f"effective operator applied to {y!r}")
                return _Vec({self._name: y.terms["1"]})

        def _cfg(name):
            c = Sym(name, ivp_solver=solver, ivp_rtol=1e-5, ivp_atol=1e-8, stat=None, adaptive=midpoint, tdvp_cmf_midpoint=midpoint, tdvp_cmf_c_trapz=False,
                    force_ovlp=False, reg_epsilon=1e-10, method="tdvp_mu_vmf", vmf_auto_switch=False)
            c.__dict__["copy"] = lambda c=c: _cfg_copy(c)
            return c

        def _cfg_copy(c):
            d = Sym(c._name + " (saved copy)", **{k: v for k, v in c.__dict__.items() if not k.startswith("_") and k != "copy"})
            d.__dict__["copy"] = lambda d=d: _cfg_copy(d)
            return d

        class QnList(list):
            def __init__(self, owner, items):
                super().__init__(items)
                self.owner = owner

            def __setitem__(self, k, v):
                events.append(("qn", self.owner, k % 5 if isinstance(k, int) else k, v))
                list.__setitem__(self, k, v)

        class St(Sym):
            def __init__(self, name):
                n_st[0] += 1
                name = f"{name}#{n_st[0]}"
                super().__init__(name)
                self._cls = "Mps"
                self.__dict__["version"] = 0
                self.site_num, self.to_right = 4, to_right
                self.__dict__["qnidx"] = 0 if to_right else 3
                self.qn = QnList(name, [f"qn{k}" for k in range(5)])
                self.qntot = "qntot"
                self.evolve_config = _cfg("evolve_config")
                self.dtype = "dtype"
                self.compress_config = Sym("compress_config", ofs=ofs, ofs_swap_jw=jw)
                self.model = "model v0"

            def __setattr__(self, k, v):
                if k == "qnidx":
                    events.append(("qnidx", self._name, v))
                object.__setattr__(self, k, v)

            def __len__(self):
                return self.site_num

            def __getitem__(self, k):
                return _Tn(f"site{k % 4 if isinstance(k, int) else k}")

            def __setitem__(self, k, v):
                events.append(("site", self._name, k % 4 if isinstance(k, int) else k, getattr(v, "_name", repr(v))))

            def __iter__(self):
                return iter([_Tn(f"site{k}") for k in range(self.site_num)])

            def copy(self):
                c = St("copy")
                events.append(("copy", self._name, c._name))
                return c

            to_complex = copy

            def ensure_left_canonical(self, *a, **k):
                return self

            ensure_right_canonical = ensure_left_canonical

            def canonicalise(self, *a, **k):
                return self

            def move_qnidx(self, k):
                self.__dict__["qnidx"] = k

            def evolve(self, mpo, dt, *a, **k):
                """re-entry into the dispatcher (midpoint environment of the constant-mean-field scheme)"""
                cfg_ = self.evolve_config
                events.append(("reenter", self._name, _Sc.of(dt), {"midpoint": cfg_.tdvp_cmf_midpoint, "c_trapz": cfg_.tdvp_cmf_c_trapz, "adaptive": cfg_.adaptive}, cfg_._name))
                c = St("re-entered")
                return c

            def _get_big_qn(self, cidx, swap=False):
                t = (self._name, self.version, tuple(cidx))
                events.append(("bigqn",) + t)
                ql, qr = _Tn("qnbigl"), _Tn("qnbigr")
                ql.src, qr.src = t, t
                return ql, qr, _Tn("qnmat")

            def _update_mps(self, cstruct, cidx, qnbigl, qnbigr, percent=0):
                events.append(("update", self._name, self.version, tuple(cidx), getattr(qnbigl, "src", None), getattr(qnbigr, "src", None), getattr(qnbigl, "_name", None), getattr(qnbigr, "_name", None)))
                self.__dict__["version"] += 1
                if ofs is not None:
                    self.model = f"model v{self.version}"
                return None

            def _push_cano(self, idx):
                events.append(("push", self._name, idx))
                return None

        def expm_krylov(fn, step, y0, *a, **k):
            out = fn(_Vec())
            calls.append(("krylov", out, _Sc.of(step)))
            return _Tn("evolved"), 7

        def solve_ivp(fn, span, y0, *a, **k):
            out = fn(_Sc(sp.Symbol("t")), _Tn("y", (60,)) if qual.endswith("_vmf") else _Vec())
            calls.append(("ode", out, _Sc.of(span[1]) - _Sc.of(span[0])))
            return Sym("sol", y=_Tn("evolved"), nfev=7, t=[0, 1])

        def integrand_func_factory(shape, hop, islast, S_inv, left, coef, *a, **k):
            """the derivative function of the constant-mean-field scheme: H y / coef on the last (coefficient) site, its projection P H y / coef elsewhere"""
            c = _Sc.of(coef)

            def f(t, y):
                v = hop(y)
                if isinstance(v, _Tn):
                    return v
                if not islast:
                    v = _Vec({f"P {k_}": c_ for k_, c_ in v.terms.items()})
                return v / c
            return f
        env_ = Sym("environ", read=lambda *a, **k: _Tn("env"), GetLR=lambda *a, **k: _Tn("env"))
        mpo = Sym("mpo")
        mpo.__dict__["try_swap_site"] = lambda *a, **k: None

        class Mpo_(Sym):
            def __getitem__(self, k):
                return _Tn(f"mo{k}")

            def try_swap_site(self, model, swap_jw, *a, **k):
                events.append(("swap", model, swap_jw))
                return None

        def svd_stub(*a, QR=False, **k):
            n_svd[0] += 1
            k_ = n_svd[0]
            events.append(("svd", k_))
            u, v = _Tn(f"u#{k_}", (6, 4)), _Tn(f"v#{k_}", (5, 4))
            return (u, f"qnl#{k_}", v, f"qnr#{k_}") if QR else (u, _Tn("s", (4,)), f"qnl#{k_}", v, _Tn("s", (4,)), f"qnr#{k_}")
        npx = OpenSym("np", make=lambda t: _Tn(t), iscomplex=lambda x: imag, sum=lambda x, *a, **k: 6, empty_like=lambda y: _Tn("hop_y", (60,)))
        it = SymInterp(src, resolve, {"np": npx, "xp": npx, "Mpo": "Mpo", "isinstance": lambda x, t: t == "Mpo", "callable": callable, "get_qn_mask": lambda *a, **k: _Tn("mask"),
                                      "cvec2cmat": lambda *a, **k: _Tn("site from vector"), "EvolveMethod": Sym("EvolveMethod", tdvp_mu_vmf="tdvp_mu_vmf", tdvp_vmf="tdvp_vmf"), "Environ": lambda *a, **k: env_, "hop_expr": lambda l, r, ops, shape, *a, **k: HOp(len(ops)), "expm_krylov": expm_krylov, "solve_ivp": solve_ivp,
                                      "asxp": lambda x: x, "asnumpy": lambda x: x, "logger": Blob("logger"), "stats": Sym("stats", describe=lambda x: "stats"), "tensordot": lambda a, b, **k: _Tn("two-site", (2, 3, 3, 5)),
                                      "svd_qn": Sym("svd_qn", svd_qn=svd_stub),
                                      "integrand_func_factory": integrand_func_factory, "ones": lambda *a, **k: _Tn("ones"), "transferMat": lambda *a, **k: _Tn("S"), "_mu_regularize": lambda s_, **k: _Tn("s reg"),
                                      "scipy": Sym("scipy", linalg=Sym("linalg", eigh=lambda *a, **k: (_Tn("w"), _Tn("u"))))})
        it.max_depth = 10
        me = St("state")
        step = _Sc(-sp.I * tau) if imag else _Sc(dt)
        res_ = it.call_function(fi, [me, Mpo_("mpo"), step])
        events.append(("returned", getattr(res_, "_name", repr(res_)), me._name))
        events.append(("final config", me.evolve_config._name, {"midpoint": me.evolve_config.tdvp_cmf_midpoint, "c_trapz": me.evolve_config.tdvp_cmf_c_trapz, "adaptive": me.evolve_config.adaptive}))
        return calls, events


def tdvp_solver_rule(chk, src, rule_sibling, rule_herm, quals=("Mps._evolve_tdvp_ps", "Mps._evolve_tdvp_ps2", "Mps._evolve_tdvp_mu_cmf"), imag_only=False):
    """abstract run of the projector-splitting schemes with recorder stand-ins (state with iter_idx_list / _switch_direction from source, environments, effective operators as
    tagged linear maps H_k, blocked decompositions and tensors without content, a symbolic step): every call of the Krylov exponential or of the ODE solver is recorded with
    the map it is given applied to a symbolic vector (helper closures and helper functions of the source are simply executed).  The run is made four times - Krylov / ODE,
    real / imaginary step.  sibling: call by call both solvers propagate exp(c H_k) with the same c on the same effective operator, and c is -i dt/2 (real step dt) resp.
    -tau/2 (step -i tau) for the forward half steps and the opposite for the backward ones.  herm: the map handed to the Krylov exponential is a real multiple of H_k."""
    import sympy as sp
    dt, tau = sp.Symbol("dt", real=True, positive=True), sp.Symbol("tau", real=True, positive=True)

    def run(qual, solver, imag, to_right):
        return _tdvp_run(src, qual, solver, imag, to_right)[0]
    n = 0
    for qual in quals:
        fi = src.func(MPS, qual)
        for imag in ((True,) if imag_only else (False, True)):
            for to_right in (True, False):
                mode = ("imaginary" if imag else "real") + f" time, sweep starting to the {'right' if to_right else 'left'}"
                ck = run(qual, "krylov", imag, to_right)
                co = run(qual, "RK45", imag, to_right)
                probs, herm = [], []
                if not ck or len(ck) != len(co) or not any(c[0] == "krylov" for c in ck) or any(c[0] != "ode" for c in co):
                    probs.append(f"{len(ck)} local propagations with the Krylov solver, {len(co)} with the ODE solver (kinds {sorted({c[0] for c in ck})} / {sorted({c[0] for c in co})})")
                else:
                    full_step = qual.endswith("_cmf")
                    half = ((-tau) if imag else (-sp.I * dt)) if full_step else ((-tau / 2) if imag else (-sp.I * dt / 2))
                    n_fwd = n_bwd = 0
                    for i, ((_, vk, sk), (_, vo, so)) in enumerate(zip(ck, co)):
                        if len(vk.terms) != 1 or len(vo.terms) != 1 or list(vk.terms) != list(vo.terms) or list(vk.terms) == ["1"]:
                            probs.append(f"propagation {i}: Krylov applies {sorted(vk.terms)}, ODE applies {sorted(vo.terms)}")
                            continue
                        tag = list(vk.terms)[0]
                        ek, eo = sp.simplify(vk.terms[tag] * sk), sp.simplify(vo.terms[tag] * so)
                        if sp.simplify(ek - eo) != 0:
                            probs.append(f"propagation {i} ({tag}): Krylov exp(({ek}) H), ODE exp(({eo}) H)")
                        elif sp.simplify(ek - half) == 0:
                            n_fwd += 1
                        elif sp.simplify(ek + half) == 0:
                            n_bwd += 1
                        else:
                            probs.append(f"propagation {i} ({tag}): exponent ({ek}) H is neither the forward nor the backward half step ({half}) H")
                        if ck[i][0] == "krylov" and (sp.im(sp.simplify(vk.terms[tag])) != 0 or tag.startswith("P ")):
                            herm.append(f"propagation {i}: the Krylov exponential is given ({sp.simplify(vk.terms[tag])}) * {tag}")
                    if not probs and not ((n_fwd > n_bwd > 0) if not full_step else (n_fwd == len(ck) and n_bwd == 0)):
                        probs.append(f"{n_fwd} forward and {n_bwd} backward {'full' if full_step else 'half'} steps")
                n += 1
                if rule_sibling:
                    chk.ob(rule_sibling, f"{qual} [{mode}]: {len(ck)} local propagations", not probs, fi.where, probs[:3] or "equal exponents, forward / backward half steps", "equal exponents", line=fi.node.lineno,
                           detail=f"{qual}: the result depends on which local integrator is selected, or a half step has the wrong sign / length: " + (probs[0] if probs else ""))
                if rule_herm:
                    chk.ob(rule_herm, f"{qual} [{mode}]: operand of the Krylov exponential", not herm and not (probs and not ck), fi.where, herm[:3] or "real multiple of the effective Hamiltonian",
                           "real multiple of a Hermitian operator", line=fi.node.lineno,
                           detail="the Krylov exponential is given a non-Hermitian (e.g. anti-Hermitian -iH) operator: its Lanczos recurrence assumes real alpha; complex factors belong in the time step")
    return n


def tdvp_bookkeeping_rule(chk, src, rule_labels=None, rule_fresh=None, rule_ofs=None, rule_input=None, quals=("Mps._evolve_tdvp_ps", "Mps._evolve_tdvp_ps2", "Mps._evolve_tdvp_mu_cmf", "Mps._evolve_tdvp_mu_vmf")):
    """the same abstract runs of the tangent-space schemes, read for their bookkeeping events.
    labels: whenever an isometric factor of the k-th blocked decomposition is stored as site s of a state (the factor itself up to transposition / regrouping, not a
    product with something else), the label list of that factor is stored on the bond the new index lives on (u: bond s+1, v: bond s) of the same state and its label
    centre moves to the neighbour that receives the remainder (u: s+1, v: s-1), before the next decomposition.
    fresh: every renormalised-basis update gets the block labels computed by the same state for the same sites at the same version.
    ofs: with on-the-fly swapping on, every update is followed at once by the operator swap with the state's current model and flag; off: never."""
    import re
    for qual in quals:
        fi = src.func(MPS, qual)
        for to_right in (True, False):
            calls, ev = _tdvp_run(src, qual, "krylov", False, to_right)
            tag = f"{qual} [sweep starting to the {'right' if to_right else 'left'}]"
            # ---- label co-update
            probs, n_iso = [], 0
            svd_pos = [i for i, e in enumerate(ev) if e[0] == "svd"]
            for j, i in enumerate(svd_pos):
                k = ev[i][1]
                seg = ev[i + 1: svd_pos[j + 1] if j + 1 < len(svd_pos) else len(ev)]
                for e in seg:
                    if e[0] != "site":
                        continue
                    m = re.fullmatch(rf"(u|v)#{k}((\.T|\.array|\.reshape\(\)|\.conj\(\)|\.copy\(\))*)", e[3])
                    if not m:
                        continue
                    n_iso += 1
                    owner, s_ = e[1], e[2]
                    fac = m.group(1)
                    bond, lab, centre = (s_ + 1, f"qnl#{k}", s_ + 1) if fac == "u" else (s_, f"qnr#{k}", s_ - 1)
                    qn_ok = any(x[0] == "qn" and x[1] == owner and x[2] == bond and x[3] == lab for x in seg)
                    wrong = [x for x in seg if x[0] == "qn" and x[1] == owner and (x[2] != bond or x[3] != lab)]
                    cen = [x[2] for x in seg if x[0] == "qnidx" and x[1] == owner]
                    if not qn_ok or wrong:
                        probs.append(f"decomposition {k}: factor {fac} stored as site {s_}, label stores {[(x[2], x[3]) for x in seg if x[0] == 'qn' and x[1] == owner]}; expected {lab} on bond {bond}")
                    elif cen[-1:] != [centre]:
                        probs.append(f"decomposition {k}: factor {fac} stored as site {s_}, label centre set to {cen}; expected {centre}")
            if rule_labels and svd_pos:
                chk.ob(rule_labels, f"{tag}: {n_iso} isometric factors stored with their labels", not probs and n_iso > 0, fi.where, probs[:3] or f"{n_iso} stores, all with labels and centre", "labels of the stored factor on the bond of the new index",
                       line=fi.node.lineno, detail=f"{qual} writes a factor of a blocked decomposition into a site tensor but drops or misplaces its label list: the stored bond labels no longer describe the non-zero blocks: " + (probs[0] if probs else ""))
            # ---- the input state is left alone, in both time modes
            if rule_input:
                for imag in (False, True):
                    ev_i = ev if not imag else _tdvp_run(src, qual, "krylov", True, to_right)[1]
                    ret = [e for e in ev_i if e[0] == "returned"][0]
                    me_name = ret[2]
                    writes = [e for e in ev_i if e[0] in ("site", "qn", "qnidx", "update", "push") and e[1] == me_name]
                    pi = []
                    if ret[1] == me_name:
                        pi.append("the input object itself is returned")
                    if writes:
                        pi.append(f"the input state is written: {[(w[0],) + tuple(w[2:3]) for w in writes[:3]]}")
                    chk.ob(rule_input, f"{tag}, {'imaginary' if imag else 'real'} time: works on a fresh object", not pi, fi.where, pi or f"returns {ret[1]}, no store into {me_name}", "a copy is evolved and returned",
                           line=fi.node.lineno, detail=f"{qual} would evolve the caller's state in place: the input is overwritten, and the adaptive step-doubling wrapper, which propagates the same "
                                                       "input by dt/2, dt/2 and dt, sees three aliases of one object (error estimate 0, every step accepted, total propagation 2*tau): " + (pi[0] if pi else ""))
            # ---- fresh labels
            ups = [e for e in ev if e[0] == "update"]
            if rule_fresh and ups:
                pf = []
                cur = {}
                for e in ev:
                    if e[0] == "bigqn":
                        cur[e[1]] = e[1:]
                    elif e[0] == "update":
                        _, owner, ver, cidx, sl, sr, nl, nr = e
                        c = cur.get(owner)
                        if c is None or sl != c or sr != c or (nl, nr) != ("qnbigl", "qnbigr") or c[1] != ver or c[2] != tuple(cidx):
                            pf.append(f"{owner}._update_mps(sites {list(cidx)}, version {ver}) gets labels ({nl} of {sl}, {nr} of {sr}); labels last computed: {c}")
                chk.ob(rule_fresh, f"{tag}: {len(ups)} renormalised-basis updates", not pf, fi.where, pf[:3] or "fresh", "labels of the same state, sites and version", line=fi.node.lineno,
                       detail=f"{qual}: the renormalised-basis update uses block labels that were not computed from the current state of the same object and sites: " + (pf[0] if pf else ""))
            # ---- operator swap
            if rule_ofs and ups:
                for jw in (True, False):
                    calls2, ev2 = _tdvp_run(src, qual, "krylov", False, to_right, ofs=Sym("ofs_d"), jw=jw)
                    po, pending = [], None
                    for e in ev2:
                        if pending is not None and e[0] != "swap":
                            po.append(f"after the update of sites {pending[0]} the next step is {e[0]}, not the operator swap")
                            pending = None
                        if e[0] == "update":
                            pending = (list(e[3]), e[2] + 1)
                        elif e[0] == "swap":
                            if pending is None:
                                po.append("an operator swap that does not follow an update")
                            elif e[1] != f"model v{pending[1]}" or e[2] is not jw:
                                po.append(f"try_swap_site({e[1]}, {e[2]}); expected the state's current model (model v{pending[1]}) and its flag {jw}")
                            pending = None
                    if pending is not None:
                        po.append(f"no operator swap after the last update (sites {pending[0]})")
                    chk.ob(rule_ofs, f"{tag}, swapping on{' with Jordan-Wigner flag' if jw else ''}: operator swap", not po, fi.where, po[:3] or "paired", "every state-side swap is followed at once by the operator-side swap",
                           line=fi.node.lineno, detail=f"{qual} may swap two sites of the state without swapping the operator with the same model and flag: " + (po[0] if po else ""))
                if any(e[0] == "swap" for e in ev):
                    chk.ob(rule_ofs, f"{tag}, swapping off: no operator swap", False, fi.where, "the operator is swapped although on-the-fly swapping is off", "no swap", line=fi.node.lineno)


class KV(float):
    """a norm-like number of an abstract run that remembers whether the scalar prefactor of the state is in it ('full') or not ('bare': mp_norm, distance); a division of
    two of them is logged"""
    def __new__(cls, v, kind, log):
        o = float.__new__(cls, v)
        o.kind, o.log = kind, log
        return o

    def __truediv__(self, o):
        if isinstance(o, KV):
            self.log.append((self.kind, o.kind))
        return float(self) / float(o)


def taylor_adaptive_rule(chk, src, rule, rule_kind=None):
    """abstract run of the adaptive branch of Mps._evolve_prop_and_compress (Taylor propagator with step-size control) in the commutative algebra of powers of a
    time-independent H with symbolic Taylor coefficients c_k: states are polynomials sum_k a_k H^k y, `contract` raises the power, the error estimate (distance of the two
    partial sums) is scripted: accept a first sub-step, reject the next trial, accept the rest.  The result must be the product of the Taylor propagators of exactly the
    accepted sub-steps, whose lengths add up to the requested step; a rejected trial leaves no trace; the input state and its configuration are left as they were."""
    import sympy as sp
    ft = src.func(MPS, "Mps._evolve_prop_and_compress")
    resolve = class_resolver(src, {"Mps": MPS})
    order = 3
    cs = [sp.Symbol(f"c{k}") for k in range(order + 1)]
    H = sp.Symbol("H")
    for name, script in (("accept, reject, accept ...", [1e-9, 0.0156] + [1e-9] * 40), ("reject twice, then accept", [0.0156, 0.0156] + [1e-9] * 40), ("accept at once", [1e-9] * 40)):
        trials, sc, kinds = [], list(script), []

        class StS(Sym):
            def __init__(self, poly, cfg):
                super().__init__("state")
                self._cls = "Mps"
                self.poly, self.evolve_config = sp.expand(poly), cfg
                self.compress_config = Sym("cc", copy=lambda: Sym("cc2", criteria="c"), criteria="c")
                self.mp_norm, self.norm = KV(1.0, "bare", kinds), KV(1.0, "full", kinds)

            def scale(self, c_, inplace=False):
                p_ = sp.expand(self.poly * sp.nsimplify(complex(c_), rational=False) if not isinstance(c_, sp.Basic) else self.poly * c_)
                if inplace:
                    self.poly = p_
                    return self
                return StS(p_, self.evolve_config)

            def add(self, o):
                return StS(self.poly + o.poly, self.evolve_config)

            __add__ = add

            def distance(self, o):
                if not sc:
                    raise AnalysisError("taylor adaptive: more trial steps than scripted")
                trials[-1]["dis"] = sc.pop(0)
                trials[-1]["pair"] = (self.poly, o.poly)
                return KV(trials[-1]["dis"], "bare", kinds)

            def copy(self):
                return StS(self.poly, self.evolve_config)

            def canonicalise(self, *a, **k):
                return self

            def compress(self, *a, **k):
                return self

        def min_abs(a, b):
            r = a if abs(a) < abs(b) else b
            trials.append({"dt": r, "remaining": b})
            return r

        def csum(lst, *a, **k):
            lst = list(lst)
            out = lst[0]
            for x in lst[1:]:
                out = out.add(x)
            return StS(out.poly, out.evolve_config)
        cfg = Sym("evolve_config", taylor_config=Sym("taylor", coeff=cs), adaptive=True, check_valid_dt=lambda dt_: None, guess_dt=1.0 / 3, adaptive_rtol=1e-3)
        me = StS(sp.Integer(1), cfg)
        hop = Sym("H", contract=lambda st, *a_, **k_: StS(st.poly * H, st.evolve_config))
        npx = OpenSym("np", make=lambda t: Blob(t), allclose=lambda x, y, **k: abs(complex(x) - complex(y)) < 1e-9)
        it = SymInterp(src, resolve, {"np": npx, "xp": npx, "compressed_sum": csum, "logger": Blob("logger"), "min_abs": min_abs, "CompressCriteria": Sym("CompressCriteria", threshold="t", both="b", fixed="f"),
                                      "min": min, "max": max})
        it.max_depth = 60
        probs = []
        T = 1.0
        try:
            res = it.call_function(ft, [me, hop, T])
        except SymRaise as e:
            res = None
            probs.append(f"raises {e}")
        if res is not None:
            acc = [t for t in trials if t.get("dis", 1.0) < 1e-3]
            tot = sum(t["dt"] for t in acc)
            want = sp.Integer(1)
            for t in acc:
                want = sp.expand(want * sum(cs[k] * (-sp.I * sp.nsimplify(t["dt"], rational=False)) ** k * H ** k for k in range(order + 1)))
            if abs(tot - T) > 1e-9:
                probs.append(f"accepted sub-steps {[round(t['dt'], 6) for t in acc]} add up to {tot}, requested {T}")
            diff = sp.expand(getattr(res, "poly", sp.nan) - want)
            num = [abs(complex(c_)) for c_ in sp.Poly(diff, H, *cs).coeffs()] if diff != 0 else [0.0]
            if not isinstance(res, StS) or max(num) > 1e-9:
                probs.append(f"the result is not the product of the Taylor propagators of the accepted sub-steps {[round(t['dt'], 6) for t in acc]} (largest coefficient of the difference {max(num):.3g}; {len(trials) - len(acc)} rejected trials)")
            if sp.expand(me.poly - 1) != 0:
                probs.append("the input state is changed")
        chk.ob(rule, f"Taylor evolver, adaptive [{name}]", not probs, ft.where, probs[:2] or f"{len(trials)} trials", "composition of the accepted sub-steps", line=ft.node.lineno,
               detail="adaptive propagate-and-compress: a rejected trial that leaks into the state, or sub-steps that do not add up to the requested step, change the propagated time without any error: " + (probs[0] if probs else ""))
        if rule_kind:
            mixed = [k_ for k_ in kinds if k_[0] != k_[1]]
            chk.ob(rule_kind, f"Taylor evolver, adaptive [{name}]: relative error", bool(kinds) and not mixed, ft.where, {"numerator / denominator": sorted(set(kinds))}, "same kind on both sides", line=ft.node.lineno,
                   detail="the relative error that drives the adaptive step size divides a distance / norm without the scalar prefactor by one with it (or the reverse): the estimate is off by |coeff| "
                          "and steps are accepted / rejected against a different tolerance whenever coeff != 1")


def cmf_midpoint_rule(chk, src, rule):
    """the constant-mean-field scheme with a midpoint environment re-enters the dispatcher for half a step with the mean-field refinements switched off: abstract runs (real
    and imaginary step, both local solvers) record the re-entry: the step handed in is exactly half the step of the call in the same time mode (dt/2, resp. -i tau/2), the
    refinements (midpoint, trapezoid, adaptivity) are off during it, and afterwards the state has its configuration back with the flags it came with"""
    import sympy as sp
    dt, tau = sp.Symbol("dt", real=True, positive=True), sp.Symbol("tau", real=True, positive=True)
    qual = "Mps._evolve_tdvp_mu_cmf"
    fi = src.func(MPS, qual)
    for imag in (False, True):
        for solver in ("krylov", "RK45"):
            calls, ev = _tdvp_run(src, qual, solver, imag, False, midpoint=True)
            re_ = [e for e in ev if e[0] == "reenter"]
            fin = [e for e in ev if e[0] == "final config"]
            probs = []
            want = (-sp.I * tau / 2) if imag else dt / 2
            if len(re_) != 1:
                probs.append(f"{len(re_)} re-entries into evolve(); expected one (the midpoint environment)")
            else:
                _, who, step, flags, cfgname = re_[0]
                if step is None or sp.simplify(step - want) != 0:
                    probs.append(f"midpoint environment evolved by {step}; expected {want} (half the step, same time mode)")
                if flags != {"midpoint": False, "c_trapz": False, "adaptive": False}:
                    probs.append(f"re-entry with flags {flags}; the refinements must be off for the first-order environment step")
            if not fin or fin[0][2] != {"midpoint": True, "c_trapz": False, "adaptive": True}:
                probs.append(f"after the call the state's configuration is {fin[0][1:] if fin else None}; expected the flags it came with (midpoint and adaptivity on)")
            chk.ob(rule, f"{qual}, midpoint environment [{'imaginary' if imag else 'real'} time, {solver}]", not probs, fi.where, probs[:2] or f"re-entered with {want}", f"re-entry with {want}, refinements off, configuration restored",
                   line=fi.node.lineno, detail="second-order constant mean field needs the environment at the midpoint t + dt/2 (in imaginary time: tau/2): another step makes the scheme first order without any error: " + (probs[0] if probs else ""))
